---------------------------- MODULE TxPool ----------------------------
(* Selection of the transactions of a proposed block (C37): service/transactionpool.go (Add, Candidate,
   RemoveList) with the order rule of service/transactionlist.go, the window check of service/tschecker.go,
   the committed-id look-up of service/txidmanager.go (HasRecent) and the cumulative balance check of
   service/transaction/transaction_v3.go (PreValidate with update = true).

   A transaction is [n, from, to, value, limit, ts, size]: size is its length in units of the byte limit of a block
   (small transfers: 1, transfers with a large message: more); n makes it unique (the id is a hash over all fields);
   from = to (a self-transfer) is allowed.
   One action per public call: Add (TransactionPool.Add), Commit (a block with some transactions is
   finalized: their ids reach the locator manager, RemoveList takes them out of the pool), Candidate
   (TransactionPool.Candidate for a block with timestamp bt and at most maxCount transactions; dropped
   elements leave the pool).

   Property: the list Candidate returns validates as a block on the same parent state -- every transaction
   inside (bt - th, bt + th], not committed before, no id twice, and every sender can pay
   limit * price + value after the effects of the transactions before it. *)
EXTENDS Integers, Sequences, FiniteSets, TLC
CONSTANTS Accounts,   \* account names (strings); senders and receivers
          Values,     \* transfer values
          Limits,     \* step limits
          Sizes,      \* sizes of a transaction in units of the byte limit (e.g. {1, 3})
          MaxTs,      \* transaction timestamps 1..MaxTs
          Th,         \* timestamp threshold of the chain
          Price,      \* step price
          MinStep,    \* minimum step limit (default step cost)
          InitBal,    \* initial balance of the accounts in Rich
          Rich,       \* accounts that start with InitBal; the others start with PoorBal and can only spend what they receive
          PoorBal,
          MaxN,       \* transactions ever created
          MaxPool,    \* pool capacity
          MaxOps

VARIABLES pool,       \* Seq of [tx, direct]   (transactionList order)
          made,       \* number of transactions created so far (n = 1..made)
          known,      \* transactions created so far (they may be re-added: duplicates)
          committed,  \* transactions whose id is in the locator manager
          hist
vars == <<pool, made, known, committed, hist>>

Cost(tx) == tx.limit * Price + tx.value
InWindow(ts, bt) == ts > bt - Th /\ ts <= bt + Th
Range(s) == {s[i] : i \in 1..Len(s)}
PoolTxs == {pool[i].tx : i \in 1..Len(pool)}
Bal0 == [a \in Accounts |-> IF a \in Rich THEN InitBal ELSE PoorBal]

\* ---------------------------------------------------------------- transactionList.Add: where the element goes
\* transactions of one sender are kept in timestamp order; otherwise insertion order
InsertAt(tx) ==
  LET later == {i \in 1..Len(pool) : pool[i].tx.from = tx.from /\ pool[i].tx.ts > tx.ts}
  IN IF later = {} THEN Len(pool) + 1 ELSE CHOOSE i \in later : \A j \in later : i <= j
Insert(s, i, e) == SubSeq(s, 1, i - 1) \o <<e>> \o SubSeq(s, i, Len(s))

\* ---------------------------------------------------------------- TransactionPool.Candidate as a fold over the pool
\* state of the loop: selected list, dropped positions, balances of the scratch world context
\* maxCount = 0 / maxBytes = 0: the default limits (1500 transactions / 1 MB, never reached here).
\* The loop runs while fewer than maxBytes units and fewer than maxCount transactions are selected; a transaction that passed
\* every check but does not fit into the rest of the byte limit ENDS the loop (its PreValidate effect on the scratch balances
\* is then irrelevant): what was dropped before it stays dropped.
RECURSIVE Scan(_, _, _, _, _, _, _, _)
Scan(i, sel, drop, bal, bt, maxCount, maxBytes, used) ==
  IF i > Len(pool) \/ (maxCount > 0 /\ Len(sel) >= maxCount) \/ (maxBytes > 0 /\ used >= maxBytes) THEN [sel |-> sel, drop |-> drop]
  ELSE LET e == pool[i]  tx == e.tx IN
       IF tx.ts <= bt - Th THEN Scan(i + 1, sel, drop \cup {i}, bal, bt, maxCount, maxBytes, used)            \* expired: dropped
       ELSE IF tx.ts > bt + Th THEN Scan(i + 1, sel, drop, bal, bt, maxCount, maxBytes, used)                  \* future: skipped
       ELSE IF tx \in committed THEN Scan(i + 1, sel, drop \cup {i}, bal, bt, maxCount, maxBytes, used)        \* already processed
       ELSE IF tx.limit < MinStep THEN Scan(i + 1, sel, drop \cup {i}, bal, bt, maxCount, maxBytes, used)      \* NotEnoughStep
       ELSE IF bal[tx.from] < Cost(tx)                                                                           \* NotEnoughBalance:
            THEN Scan(i + 1, sel, IF e.direct THEN drop ELSE drop \cup {i}, bal, bt, maxCount, maxBytes, used)  \* kept if user-submitted
       ELSE IF maxBytes > 0 /\ used + tx.size > maxBytes THEN [sel |-> sel, drop |-> drop]                      \* does not fit: stop
       ELSE LET b1 == [bal EXCEPT ![tx.from] = @ - Cost(tx)]
                b2 == [b1 EXCEPT ![tx.to] = @ + tx.value]
            IN Scan(i + 1, Append(sel, tx), drop, b2, bt, maxCount, maxBytes, used + tx.size)
RECURSIVE KeepFrom(_, _)
KeepFrom(i, drop) == IF i > Len(pool) THEN <<>>
                     ELSE (IF i \in drop THEN <<>> ELSE <<pool[i]>>) \o KeepFrom(i + 1, drop)
Keep(drop) == KeepFrom(1, drop)

\* ---------------------------------------------------------------- what a validator checks (transition.validateTxs + TXID logger)
\* why the list l is not a valid block for block time bt after the transactions comm were committed ("ok": it is valid).
\* The sender is debited before the receiver is credited: a self-transfer (from = to) costs limit * price net.
RECURSIVE WhyFrom(_, _, _, _, _)
WhyFrom(l, i, bal, bt, comm) ==
  IF i > Len(l) THEN "ok"
  ELSE LET tx == l[i] IN
       IF tx.ts <= bt - Th THEN "expired"
       ELSE IF tx.ts > bt + Th THEN "future"
       ELSE IF tx \in comm \/ \E j \in 1..(i-1) : l[j] = tx THEN "duplicate"
       ELSE IF tx.limit < MinStep THEN "not-enough-step"
       ELSE IF bal[tx.from] < Cost(tx) THEN "out-of-balance"
       ELSE WhyFrom(l, i + 1, [[bal EXCEPT ![tx.from] = @ - Cost(tx)] EXCEPT ![tx.to] = @ + tx.value], bt, comm)
WhyInvalid(l, bt, comm) == WhyFrom(l, 1, Bal0, bt, comm)
BlockValid(l, bt) == WhyInvalid(l, bt, committed) = "ok"

\* ---------------------------------------------------------------- history
Can == MaxOps = 0 \/ Len(hist) < MaxOps
NoTx == [n |-> 0, from |-> "", to |-> "", value |-> 0, limit |-> 0, ts |-> 0, size |-> 0]
Rec(op) == [op |-> op, tx |-> NoTx, direct |-> FALSE, res |-> "", bt |-> 0, max |-> 0, bytes |-> 0, sel |-> <<>>, txs |-> {}]
PoolNs == [i \in 1..Len(pool') |-> pool'[i].tx.n]
Log(r) == hist' = IF MaxOps = 0 THEN <<r>> ELSE Append(hist, r @@ [pool |-> PoolNs])

Init == pool = <<>> /\ made = 0 /\ known = {} /\ committed = {} /\ hist = <<>>

\* TransactionPool.Add(tx, direct) of a new or an already known transaction
Add(tx, direct) ==
  /\ Can
  /\ \/ tx \in known /\ UNCHANGED <<made, known>>
     \/ /\ made < MaxN /\ tx.n = made + 1
        /\ made' = made + 1 /\ known' = known \cup {tx}
  /\ UNCHANGED committed
  /\ LET res == IF Len(pool) >= MaxPool THEN "overflow" ELSE IF tx \in PoolTxs THEN "dup" ELSE "ok" IN
     /\ pool' = IF res = "ok" THEN Insert(pool, InsertAt(tx), [tx |-> tx, direct |-> direct]) ELSE pool
     /\ Log([Rec("add") EXCEPT !.tx = tx, !.direct = direct, !.res = res])

\* a block containing the transactions S is finalized (ids committed, RemoveList)
Commit(S) ==
  /\ Can /\ S # {} /\ S \subseteq known \ committed
  /\ committed' = committed \cup S
  /\ pool' = SelectSeq(pool, LAMBDA e : e.tx \notin S)
  /\ UNCHANGED <<made, known>>
  /\ Log([Rec("commit") EXCEPT !.txs = S])

\* TransactionPool.Candidate for a block with timestamp bt
Candidate(bt, maxCount, maxBytes) ==
  /\ Can
  /\ LET r == Scan(1, <<>>, {}, Bal0, bt, maxCount, maxBytes, 0) IN
     /\ pool' = Keep(r.drop)
     /\ UNCHANGED <<made, known, committed>>
     /\ Log([Rec("candidate") EXCEPT !.bt = bt, !.max = maxCount, !.bytes = maxBytes, !.sel = r.sel])

\* TransactionPool.DropOldTXs(t) (TransactionManager.RemoveOldTxByBlockTS after a block is finalized): everything with a
\* timestamp <= t leaves the pool
DropOld(t) ==
  /\ Can /\ Len(pool) > 0
  /\ pool' = SelectSeq(pool, LAMBDA e : e.tx.ts > t)
  /\ UNCHANGED <<made, known, committed>>
  /\ Log([Rec("dropold") EXCEPT !.bt = t])

\* TransactionPool.CheckTxs(wc): is there anything that is not expired for a block with timestamp bt
HasFresh(bt) == \E i \in 1..Len(pool) : pool[i].tx.ts > bt - Th
CheckTxs(bt) ==
  /\ Can /\ MaxOps # 0
  /\ UNCHANGED <<pool, made, known, committed>>
  /\ Log([Rec("checktxs") EXCEPT !.bt = bt, !.res = IF HasFresh(bt) THEN "true" ELSE "false"])

\* TransactionPool.HasTx(id)
HasTx(tx) ==
  /\ Can /\ MaxOps # 0 /\ tx \in known
  /\ UNCHANGED <<pool, made, known, committed>>
  /\ Log([Rec("hastx") EXCEPT !.tx = tx, !.res = IF tx \in PoolTxs THEN "true" ELSE "false"])

TxSpace == [n : 1..MaxN, from : Accounts, to : Accounts, value : Values, limit : Limits, ts : 1..MaxTs, size : Sizes]
MaxSize == CHOOSE x \in Sizes : \A y \in Sizes : y <= x
ByteLimits == 0..(MaxSize + 1)          \* 0 = default; 1 .. one unit more than the largest transaction
Next == \/ \E tx \in TxSpace, d \in BOOLEAN : Add(tx, d)
        \/ \E S \in SUBSET known : Commit(S)
        \/ \E bt \in 1..MaxTs, m \in 0..MaxPool, mb \in ByteLimits : Candidate(bt, m, mb)
        \/ \E t \in 0..MaxTs : DropOld(t)
        \/ \E bt \in 1..MaxTs : CheckTxs(bt)
        \/ \E tx \in TxSpace : HasTx(tx)
Spec == Init /\ [][Next]_vars

----------------------------------------------------------------------------
Last == hist'[Len(hist')]
Stepped == hist' # hist
\* C37: what the pool proposes passes validation
CandidateValid == [][(Stepped /\ Last.op = "candidate") => BlockValid(Last.sel, Last.bt)]_vars
\* nothing valid is thrown away: a dropped transaction can never be included in a later block
\* (expired, already committed, or not affordable / too small a step limit when it was seen)
DropsJustified ==
  [][(Stepped /\ Last.op = "candidate") =>
       \A i \in 1..Len(pool) : (pool[i] \notin Range(pool')) =>
          LET tx == pool[i].tx IN
          tx.ts <= Last.bt - Th \/ tx \in committed \/ tx.limit < MinStep \/ ~pool[i].direct]_vars
\* CheckTxs answering "nothing to propose" is right: Candidate would select nothing for that block time
NothingToPropose == \A bt \in 1..MaxTs : ~HasFresh(bt) => Scan(1, <<>>, {}, Bal0, bt, 0, 0, 0).sel = <<>>
\* the byte limit is respected, except that ... no exception: the selected transactions fit into it
FitsByteLimit == [][(Stepped /\ Last.op = "candidate" /\ Last.bytes > 0) =>
                     LET RECURSIVE Sum(_) Sum(l) == IF l = <<>> THEN 0 ELSE Head(l).size + Sum(Tail(l))
                     IN Sum(Last.sel) <= Last.bytes]_vars
\* DropOldTXs removes exactly the transactions at or below the given time
DropOldExact == [][(Stepped /\ Last.op = "dropold") =>
                    \A i \in 1..Len(pool) : (pool[i] \in Range(pool')) <=> (pool[i].tx.ts > Last.bt)]_vars
TypeOK == /\ \A i, j \in 1..Len(pool) : i # j => pool[i].tx # pool[j].tx
          /\ Len(pool) <= MaxPool
          \* transactions of one sender are in timestamp order
          /\ \A i, j \in 1..Len(pool) : (i < j /\ pool[i].tx.from = pool[j].tx.from) => pool[i].tx.ts <= pool[j].tx.ts
=============================================================================
