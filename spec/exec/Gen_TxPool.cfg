SPECIFICATION GenSpec
CONSTANTS
  Accounts = {"a", "b", "c"}
  Values = {0, 1, 2, 3}
  Limits = {0, 1, 2}
  Sizes = {1}
  MaxTs = 6
  Th = 2
  Price = 1
  MinStep = 1
  InitBal = 4
  Rich = {"a", "b", "c"}
  PoorBal = 0
  MaxN = 8
  MaxPool = 6
  MaxOps = 12
  Depth = 12
INVARIANT Emit
