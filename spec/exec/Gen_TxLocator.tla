---- MODULE Gen_TxLocator ----
EXTENDS TxLocator, Json
CONSTANT Depth
\* every step of a behaviour carries the predicted result and the predicted manager projection
Emit == (Len(hist) = Depth) => PrintT(<<"B", ToJson(hist)>>)
\* filtered generator: only behaviours that end in a rejection by a look-up (duplicate in an ancestor or
\* finalized, or outside the window) -- the complete set of minimal rejection scenarios of that depth
EndsInRejection == LET e == hist[Len(hist)] IN e.op = "block" /\ e.res = "dup" /\ e.cls # "same-block"
\* (state constraint of that generator: the prefix only builds state -- accepted blocks, commits, flushes)
RejPrefix == \A i \in 1..Len(hist) : hist[i].op # "has" /\ (hist[i].res = "ok" \/ i = Depth)
EmitRej == (Len(hist) = Depth /\ EndsInRejection) => PrintT(<<"B", ToJson(hist)>>)
\* scripted generator: all behaviours whose calls follow Pattern (a sequence of operation names), every parameter free.
\* Used for the restart scenario: block, commit, flush, restart, block, commit(, flush), block -- the last block may
\* repeat an id that is only in the database (finalized before the restart).
CONSTANT Pattern
PatNone == <<>>
PatRestart1 == <<"block", "commit", "flush", "restart", "block", "commit", "flush", "block">>
PatRestart2 == <<"block", "commit", "flush", "restart", "block", "commit", "block">>     \* (an empty block is flushed inside Commit)
FollowsPattern == \A i \in 1..Len(hist) : i <= Len(Pattern) /\ hist[i].op = Pattern[i]
               /\ (i < Len(Pattern) => hist[i].res = "ok")
\* the restart scenario proper: one chain; the block finalized before the restart holds "a", the one after it "b"
RestartScenario == /\ FollowsPattern
                   /\ \A n \in 2..N : par[n] = n - 1
                   /\ (Len(hist) >= 1 => hist[1].l = <<"a">>)
                   /\ (Len(hist) >= 5 => hist[5].l = <<"b">>)
EmitPattern == (Len(hist) = Len(Pattern)) => PrintT(<<"B", ToJson(hist)>>)
====
