---- MODULE Gen_TxLocator ----
EXTENDS TxLocator, Json
CONSTANT Depth
\* every step of a behaviour carries the predicted result and the predicted manager projection
Emit == (Len(hist) = Depth) => PrintT(<<"B", ToJson(hist)>>)
\* filtered generator: only behaviours that end in a rejection by a look-up (duplicate in an ancestor or
\* finalized, or outside the window) -- the complete set of minimal rejection scenarios of that depth
EndsInRejection == LET e == hist[Len(hist)] IN e.op = "block" /\ e.res = "dup" /\ e.cls # "same-block"
\* (state constraint of that generator: the prefix only builds state -- accepted blocks, commits, flushes)
RejPrefix == \A i \in 1..Len(hist) : hist[i].op # "has" /\ (hist[i].res = "ok" \/ i = Depth)
EmitRej == (Len(hist) = Depth /\ EndsInRejection) => PrintT(<<"B", ToJson(hist)>>)
====
