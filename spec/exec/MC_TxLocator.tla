---- MODULE MC_TxLocator ----
EXTENDS TxLocator
\* exhaustive checker view: the history does not influence behaviour
ViewNoHist == <<tsOf, par, ptr, nts, nth, ntx, st, locs, cacheQ, maxTs, dbase, pending, lastc, base>>
\* transaction ids are interchangeable (model values in the checker configuration)
Sym == Permutations(Ids)
====
