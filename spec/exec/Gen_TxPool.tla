---- MODULE Gen_TxPool ----
EXTENDS TxPool, Json
CONSTANT Depth
Emit == (Len(hist) = Depth) => PrintT(<<"B", ToJson(hist)>>)
\* Random walks use the same actions as Next. TLC's simulator first picks one of the actions it has split Next
\* into (it splits existential quantifiers over constant sets), then one of its successors: the quantifier
\* domains below depend on a variable so that each kind of call is one action and the kinds are balanced.
NewTxs == {t \in TxSpace : t.n = made + 1}
GenNext == \/ \E p \in NewTxs \X BOOLEAN : Add(p[1], p[2])
           \/ \E p \in known \X BOOLEAN : Add(p[1], p[2])
           \/ \E S \in SUBSET (known \ committed) : Commit(S)
           \/ \E p \in (NewTxs \cup {t \in known : made > 2}) \X BOOLEAN : Add(p[1], p[2])       \* (adds are two of six actions)
           \/ \E p \in {b \in 1..MaxTs : made >= 0} \X (0..MaxPool) \X ByteLimits : Candidate(p[1], p[2], p[3])
           \/ \E t \in {b \in 0..MaxTs : made >= 0} : DropOld(t)
           \/ \E p \in {b \in 1..MaxTs : made >= 0} \X known : (CheckTxs(p[1]) \/ HasTx(p[2]))
GenSpec == Init /\ [][GenNext]_vars
====
