SPECIFICATION TSpec
CONSTANTS
  K = 3
  Acc = {"x", "y"}
  Level = 2
  Impl = "required"
  MaxLen = 2
  Fates = {"ok", "fatal", "retry1", "retryx", "nohandler", "noprep", "retryh"}
  MaxFail = 3
  WorldTx = {"W"}
  EnsureTx = FALSE
  ImplWR = "required"
  CancelOn = FALSE
  InitVals = {0}
  RetryCount = 2
  MaxOps = 0
INVARIANT NotAccepted
