SPECIFICATION Spec
CONSTANTS
  K = 3
  Acc = {"x"}
  Level = 2
  Impl = "required"
  MaxLen = 1
  Fates = {"ok", "fatal"}
  MaxFail = 1
  WorldTx = {"W"}
  EnsureTx = FALSE
  ImplWR = "required"
  CancelOn = FALSE
  InitVals = {0}
  RetryCount = 2
  MaxOps = 0
VIEW ViewNoHist
INVARIANTS TypeOK FinalEqualsSequential NoSilentDrop NoSpuriousFailure NoResultAfterCancel
PROPERTIES ReadsAreSequential
