---- MODULE Gen_TxReprRaw ----
EXTENDS TxReprRaw, Json
CONSTANT Depth
Emit == ((Len(hist) = Depth + 1) \/ (Len(hist) = 2 /\ hist[2].op = "compare")) => PrintT(<<"B", ToJson(hist)>>)
====
