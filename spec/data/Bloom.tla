------------------------------- MODULE Bloom -------------------------------
(* Event-log bloom filters (service/txresult/logsbloom.go).  A bloom is a 2048-bit vector.  Every
   *item* of an event log -- the emitting address, and each indexed value together with its
   position -- sets HashBits = 3 bits: bit k of an item is the big-endian uint16 at bytes 2k,2k+1 of
   SHA3-256(preimage), masked to 11 bits, where the preimage is  0xFF ++ address bytes  for an
   address and  byte(position) ++ value bytes  for an indexed value.  The hash is symbolic here:
   a bit is the term <<item, k>> (the collision-free ideal; real collisions only add coincidences).
   Blooms of receipts are merged (OR) into the bloom of a block; a query is a bloom built from the
   wanted items and the test is the subset test Contain().  One action per public call. *)
EXTENDS Integers, Sequences, FiniteSets, TLC
CONSTANTS BloomIds,       \* e.g. two receipt blooms and a block bloom
          Block,          \* the bloom of the block; the others are the blooms of its receipts
          AddrIds, ValIds,\* abstract addresses / indexed values ("e" is concretized as the empty byte string)
          MaxPos,         \* indexed positions 0..MaxPos
          Kinds,          \* serialization round trips: "compress", "bytes", "logbytes", "json", "rlp"
          Prefill,        \* BOOLEAN: histories start with one item added to the block bloom and one to a receipt bloom
          Reads,          \* BOOLEAN: FALSE switches the read-only queries off (generator configurations that spend their
                          \* depth on mutate / serialize / mutate / serialize histories)
          MaxOps,
          Proj(_)
HashBits == 3
Nil == "nil"

VARIABLES bits,           \* BloomIds -> set of bit terms <<item, k>>
          added,          \* ghost: BloomIds -> set of items whose logs were added (directly or by a merge)
          hist
vars == <<bits, added, hist>>

Addr(a) == [t |-> "addr", a |-> a, p |-> 0, v |-> ""]
Idx(p, v) == [t |-> "idx", a |-> "", p |-> p, v |-> v]
Items == {Addr(a) : a \in AddrIds} \cup {Idx(p, v) : p \in 0..MaxPos, v \in ValIds}
\* preimage of an item as pieces: literal bytes and references to the concrete bytes of an address / value
Pre(i) == IF i.t = "addr" THEN <<[lit |-> <<255>>, ref |-> ""], [lit |-> <<>>, ref |-> i.a]>>
          ELSE <<[lit |-> <<i.p>>, ref |-> ""], [lit |-> <<>>, ref |-> i.v]>>
BitsOf(i) == {<<i, k>> : k \in 0..(HashBits - 1)}
BitsOfAll(S) == UNION {BitsOf(i) : i \in S}

\* an event log: emitting address + indexed values (Nil entries are skipped by AddLog)
Logs == UNION {[1..m -> ValIds \cup {Nil}] : m \in 0..(MaxPos + 1)}
ItemsOfLog(a, vs) == IF vs = <<>> THEN {}          \* AddLog ignores a log without indexed values
                     ELSE {Addr(a)} \cup {Idx(j - 1, vs[j]) : j \in {x \in 1..Len(vs) : vs[x] # Nil}}

FullProj(ad) == [b \in BloomIds |-> {[item |-> i, pre |-> Pre(i)] : i \in ad[b]}]
NoProj(ad) == <<>>
Rec(op, b, b2, a, vs, item, kind, res) ==
  [op |-> op, b |-> b, b2 |-> b2, a |-> a, vs |-> vs, item |-> item, kind |-> kind, res |-> res]
NoItem == [t |-> "", a |-> "", p |-> 0, v |-> ""]
Log(r) == hist' = Append(hist, r @@ [blooms |-> Proj(added'), nbits |-> HashBits])

\* with Prefill the first two calls are fixed (AddAddressOfLog on the block bloom, AddIndexedOfLog on one receipt bloom), so
\* that short generated histories have something to merge
P1 == Addr(CHOOSE x \in AddrIds : TRUE)
P2 == Idx(0, CHOOSE x \in ValIds : TRUE)
R0 == CHOOSE r \in BloomIds : r # Block
Ad1 == [b \in BloomIds |-> IF b = Block THEN {P1} ELSE {}]
Ad2 == [b \in BloomIds |-> IF b = Block THEN {P1} ELSE IF b = R0 THEN {P2} ELSE {}]
Init == IF Prefill
        THEN /\ added = Ad2 /\ bits = [b \in BloomIds |-> BitsOfAll(Ad2[b])]
             /\ hist = <<Rec("additem", Block, "", "", <<>>, P1, "", TRUE) @@ [blooms |-> Proj(Ad1), nbits |-> HashBits],
                          Rec("additem", R0, "", "", <<>>, P2, "", TRUE) @@ [blooms |-> Proj(Ad2), nbits |-> HashBits]>>
        ELSE /\ bits = [b \in BloomIds |-> {}] /\ added = [b \in BloomIds |-> {}] /\ hist = <<>>

AddItems(b, S) == /\ bits' = [bits EXCEPT ![b] = @ \cup BitsOfAll(S)]
                  /\ added' = [added EXCEPT ![b] = @ \cup S]
AddLog(b, a, vs) ==                                     \* LogsBloom.AddLog(addr, indexed)
  /\ AddItems(b, ItemsOfLog(a, vs))
  /\ Log(Rec("addlog", b, "", a, vs, NoItem, "", TRUE))
AddItem(b, i) ==                                        \* AddAddressOfLog / AddIndexedOfLog
  /\ AddItems(b, {i})
  /\ Log(Rec("additem", b, "", "", <<>>, i, "", TRUE))
Merge(b, b2) ==                                         \* b.Merge(b2)
  /\ bits' = [bits EXCEPT ![b] = @ \cup bits[b2]]
  /\ added' = [added EXCEPT ![b] = @ \cup added[b2]]
  /\ Log(Rec("merge", b, b2, "", <<>>, NoItem, "", TRUE))
\* the bloom of a block: the receipts are finalized (SetResult), stored in the receipt list, read back, and the
\* bloom of every stored receipt is merged into the block's bloom (transition.go: t.logsBloom.Merge(r.LogsBloom()))
Collect ==
  LET rs == BloomIds \ {Block} IN
  /\ bits' = [bits EXCEPT ![Block] = @ \cup UNION {bits[r] : r \in rs}]
  /\ added' = [added EXCEPT ![Block] = @ \cup UNION {added[r] : r \in rs}]
  /\ Log(Rec("collect", Block, "", "", <<>>, NoItem, "", TRUE))
MergeNil(b) ==                                          \* b.Merge(nil)
  /\ UNCHANGED <<bits, added>>
  /\ Log(Rec("mergenil", b, "", "", <<>>, NoItem, "", TRUE))
Roundtrip(b, kind) ==                                   \* b := decode(encode(b)); must be Equal to the old one
  /\ UNCHANGED <<bits, added>>
  /\ Log(Rec("roundtrip", b, "", "", <<>>, NoItem, kind, TRUE))
\* Serialization as an OBSERVATION of one object (CompressedBytes / Bytes / LogBytes / MarshalJSON / RLP encoding): the
\* object is kept and may be serialized again after later mutations; what is decoded from the returned bytes must be
\* the CURRENT content of the bloom, never an earlier one (no stale cached serialization).  item = what was serialized.
Serialize(b, kind) ==
  /\ UNCHANGED <<bits, added>>
  /\ Log(Rec("serialize", b, "", "", <<>>, NoItem, kind, TRUE) @@ [ser |-> {[item |-> i, pre |-> Pre(i)] : i \in added[b]}])
\* res = TRUE: Contain must answer TRUE.  res = FALSE: a TRUE answer is a false positive (allowed)
Contain(b, b2) ==                                       \* b.Contain(b2)
  /\ UNCHANGED <<bits, added>>
  /\ Log(Rec("contain", b, b2, "", <<>>, NoItem, "", bits[b2] \subseteq bits[b]))
Query(b, i) ==                                          \* b.Contain(bloom of the single item i)
  /\ UNCHANGED <<bits, added>>
  /\ Log(Rec("query", b, "", "", <<>>, i, "", BitsOf(i) \subseteq bits[b]))
QueryLog(b, a, vs) ==                                   \* b.Contain(bloom built by AddLog(a, vs))
  /\ UNCHANGED <<bits, added>>
  /\ Log(Rec("querylog", b, "", a, vs, NoItem, "", BitsOfAll(ItemsOfLog(a, vs)) \subseteq bits[b]))

Can == Len(hist) < MaxOps
Next == \/ Can /\ \E b \in BloomIds, a \in AddrIds, vs \in Logs : AddLog(b, a, vs)
        \/ Can /\ \E b \in BloomIds, i \in Items : AddItem(b, i)
        \/ Can /\ \E b, b2 \in BloomIds : Merge(b, b2)
        \/ Can /\ Collect
        \/ Can /\ Reads /\ \E b \in BloomIds : MergeNil(b)
        \/ Can /\ \E b \in BloomIds, k \in Kinds : Roundtrip(b, k)
        \/ Can /\ \E b \in BloomIds, k \in Kinds : Serialize(b, k)
        \/ Can /\ Reads /\ \E b, b2 \in BloomIds : Contain(b, b2)
        \/ Can /\ Reads /\ \E b \in BloomIds, i \in Items : Query(b, i)
        \/ Can /\ Reads /\ \E b \in BloomIds, a \in AddrIds, vs \in Logs : QueryLog(b, a, vs)
Spec == Init /\ [][Next]_vars

----------------------------------------------------------------------------
(* Properties (C26) *)
\* no false negatives: every item added to a bloom (directly, or through any sequence of merges) has all its bits set
NoFalseNegative == \A b \in BloomIds : \A i \in added[b] : BitsOf(i) \subseteq bits[b]
\* the ideal bloom holds exactly the bits of the added items (so the result does not depend on the merge order)
Exact == \A b \in BloomIds : bits[b] = BitsOfAll(added[b])
Last == hist'[Len(hist')]
Stepped == hist' # hist
\* a query for something that was added is always answered TRUE
QueriesSound ==
  [][Stepped =>
       /\ (Last.op = "query" /\ Last.item \in added[Last.b]) => Last.res
       /\ (Last.op = "querylog" /\ ItemsOfLog(Last.a, Last.vs) \subseteq added[Last.b]) => Last.res
       /\ (Last.op = "contain" /\ added[Last.b2] \subseteq added[Last.b]) => Last.res]_vars
\* merging keeps everything both operands had; nothing else changes a bloom's content
MergeKeeps ==
  [][(Stepped /\ Last.op = "merge") =>
       (added'[Last.b] = added[Last.b] \cup added[Last.b2] /\ \A x \in BloomIds \ {Last.b} : bits'[x] = bits[x])]_vars
\* the block's bloom covers everything any of its receipts logged
CollectCovers ==
  [][(Stepped /\ Last.op = "collect") => \A r \in BloomIds : added[r] \subseteq added'[Block] /\ BitsOfAll(added[r]) \subseteq bits'[Block]]_vars
\* a serialization always describes the current bit set of the object, whatever was serialized before
NoStaleSerialization ==
  [][(Stepped /\ Last.op = "serialize") => BitsOfAll({x.item : x \in Last.ser}) = bits[Last.b]]_vars
Monotone == [][\A b \in BloomIds : bits[b] \subseteq bits'[b]]_vars
=============================================================================
