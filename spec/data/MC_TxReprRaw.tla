---- MODULE MC_TxReprRaw ----
EXTENDS TxReprRaw
ViewNoHist == <<desc, rep, Len(hist)>>
====
