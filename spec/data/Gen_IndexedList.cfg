SPECIFICATION GenSpec
CONSTANTS
  MaxN = 1000
  Sizes = {0, 1, 2, 127, 128, 129, 255, 256, 257, 300, 1000}
  SmallN = 0
  MaxOps = 2
  Depth = 2
INVARIANT Emit
