---- MODULE MC_ContainerKeys ----
EXTENDS ContainerKeys
\* exhaustive checker view: the history does not influence behaviour
ViewNoHist == <<kbs, Len(hist)>>
\* constant-level obligations over ALL tuples of <= MaxParts parts of the alphabet (evaluated once)
ASSUME PartsDiffer
ASSUME PrefixFree
ASSUME SplitAll
ASSUME Injective
ASSUME RawCollides
====
