---- MODULE Gen_Containers ----
EXTENDS Containers, Json
CONSTANT Depth
Emit == (Len(hist) = Depth) => PrintT(<<"B", ToJson(hist)>>)
====
