---- MODULE MC_IndexedList ----
EXTENDS IndexedList
ViewNoHist == <<n, sealed, reopened, Len(hist)>>
====
