SPECIFICATION Spec
CONSTANTS
  Vals = {1, 2}
  MaxLen = 3
  MaxOps = 6
  Universe = "adv"
  Deep = FALSE
  Snaps = TRUE
  BType = "rlp"
  BRawId = ""
  Proj <- NoProj
VIEW ViewNoHist
INVARIANT Refines
PROPERTY ResultsIdeal
