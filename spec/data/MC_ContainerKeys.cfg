SPECIFICATION Spec
CONSTANTS
  PartIds = {"e", "z", "a", "m80", "az", "L56"}
  TupleIds = {"e", "z", "a", "m7f", "m80", "az", "x81", "x80", "L55", "L56"}
  RawIds = {"a", "e"}
  Types = {"hash", "phash", "rlp", "raw", "tkey"}
  MaxBuilders = 2
  MaxArgs = 2
  MaxParts = 3
  MaxOps = 3
  MaxNew = 2
  ProbeIds = {"empty", "nc1", "short_tr", "long_small", "long_lz", "list"}
  Proj <- NoProj
VIEW ViewNoHist
INVARIANTS SplitBuild Distinct
