---- MODULE MC_Bloom ----
EXTENDS Bloom
ViewNoHist == <<bits, added, Len(hist)>>
ViewState == <<bits, added>>
====
