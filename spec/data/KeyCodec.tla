----------------------------- MODULE KeyCodec -----------------------------
(* Storage-key encoding of contract containers (common/containerdb/common.go,
   keybuilder.go).  Pure operators, no state.  A key *part* is a byte string (a sequence of
   0..255): ToBytes() of a Go value.  AppendKeys() concatenates the length-prefixed parts
   (rlpEncodeBytes), SplitKeys() parses them back (rlpParseBytes).  Hashes are symbolic:
   a built key is a sequence of segments, [lit |-> bytes] or [h |-> preimage bytes]
   (SHA3-256 of the preimage, 32 bytes, trusted to be injective). *)
EXTENDS Integers, Sequences, FiniteSets, TLC

Fill(n, b) == [i \in 1..n |-> b]

\* minimal big-endian size field (rlpCountBytesForSize + the loop in rlpEncodeBytes)
RECURSIVE SizeBytes(_)
SizeBytes(n) == IF n < 256 THEN <<n>> ELSE SizeBytes(n \div 256) \o <<n % 256>>

\* rlpEncodeBytes
Enc(p) ==
  LET n == Len(p) IN
  IF n = 1 /\ p[1] < 128 THEN p
  ELSE IF n <= 55 THEN <<128 + n>> \o p
  ELSE LET sb == SizeBytes(n) IN <<183 + Len(sb)>> \o sb \o p

RECURSIVE Cat(_)
Cat(parts) == IF parts = <<>> THEN <<>> ELSE Enc(Head(parts)) \o Cat(Tail(parts))     \* AppendKeys(nil, parts...)
RECURSIVE RawCat(_)
RawCat(parts) == IF parts = <<>> THEN <<>> ELSE Head(parts) \o RawCat(Tail(parts))    \* AppendRawKeys

\* ---- SplitKeys / rlpParseBytes -------------------------------------------------------
Err == [ok |-> FALSE, parts |-> <<>>]
\* big-endian value of a size field of at most 3 bytes (larger fields exceed TLC integers and every
\* input considered here: they are "not enough bytes" or have a leading zero, i.e. errors either way)
RECURSIVE BE(_)
BE(bs) == IF bs = <<>> THEN 0 ELSE BE(SubSeq(bs, 1, Len(bs) - 1)) * 256 + bs[Len(bs)]
Drop(bs, n) == SubSeq(bs, n + 1, Len(bs))
Take(bs, n) == SubSeq(bs, 1, n)

RECURSIVE SplitAcc(_, _)
SplitAcc(bs, acc) ==
  IF bs = <<>> THEN [ok |-> TRUE, parts |-> acc]
  ELSE LET tag == bs[1]
           data == Tail(bs) IN
       IF tag < 128 THEN SplitAcc(data, Append(acc, <<tag>>))
       ELSE IF tag < 184 THEN
              (LET size == tag - 128 IN
               IF Len(data) < size THEN Err
               ELSE SplitAcc(Drop(data, size), Append(acc, Take(data, size))))
       ELSE IF tag < 192 THEN
              (LET ts == tag - 183 IN
               IF ts > Len(data) THEN Err
               ELSE IF data[1] = 0 THEN Err                     \* leading zero in the size field
               ELSE IF ts > 3 THEN Err                          \* size >= 2^24 > any input here
               ELSE LET size == BE(Take(data, ts))
                        rest == Drop(data, ts) IN
                    IF size < 56 THEN Err                       \* must have used the short form
                    ELSE IF Len(rest) < size THEN Err
                    ELSE SplitAcc(Drop(rest, size), Append(acc, Take(rest, size))))
       ELSE Err                                                 \* list tag
Split(bs) == SplitAcc(bs, <<>>)

IsPrefix(a, b) == Len(a) <= Len(b) /\ Take(b, Len(a)) = a

\* ---- key builders --------------------------------------------------------------------
Lit(b) == [lit |-> b]
Hs(b) == [h |-> b]
\* a builder is [type, raw, parts]: raw = raw (unencoded) prefix bytes, parts = appended key parts
\*   "hash":  ToKey(HashBuilder, parts...) / NewHashKey(raw, parts...)  -> SHA3(raw ++ Cat(parts))
\*   "phash": ToKey(PrefixedHashBuilder, raw, parts...)                  -> raw ++ Enc(SHA3(Cat(parts)))
\*   "rlp":   ToKey(RLPBuilder, parts...)                                -> Cat(parts)
\*   "raw":   ToKey(RawBuilder, parts...)                                -> RawCat(parts)
\*   "tkey":  scoredb.ToKey(raw[1], parts...), extended with scoredb.AppendKeys -> raw ++ Cat(parts)   (unhashed)
Out(kb) ==
  CASE kb.type = "hash"  -> <<Hs(kb.raw \o Cat(kb.parts))>>
    [] kb.type = "phash" -> <<Lit(kb.raw \o <<160>>), Hs(Cat(kb.parts))>>   \* Enc of 32 hash bytes = 0xA0 ++ hash
    [] kb.type = "rlp"   -> <<Lit(Cat(kb.parts))>>
    [] kb.type = "raw"   -> <<Lit(RawCat(kb.parts))>>
    [] kb.type = "tkey"  -> <<Lit(kb.raw \o Cat(kb.parts))>>       \* scoredb.ToKey(t, parts...) / scoredb.AppendKeys: raw type byte(s) ++ Cat

\* minimal two's-complement big-endian form of a small non-negative integer (intconv.Int64ToBytes)
IntPart(i) == IF i < 128 THEN <<i>>
              ELSE IF i < 32768 THEN (IF i < 256 THEN <<0, i>> ELSE <<i \div 256, i % 256>>)
              ELSE <<0>> \o <<i \div 256, i % 256>>   \* 32768..65535
=============================================================================
