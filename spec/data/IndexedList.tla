---------------------------- MODULE IndexedList ----------------------------
(* Transaction and receipt lists (service/transaction/transactionlist.go,
   service/txresult/receiptlist.go): the i-th item of a block is stored in a Merkle Patricia
   trie under the key  Key(i) = RLP(minimal big-endian bytes of uint i)  (intToKey /
   codec.BC.MarshalToBytes(uint(i))).  The trie iterates in lexicographic key order, so a list
   returns its items in the original order iff Key is strictly monotone for that order.
   State machine: Add = one iteration of the loop in New*ListFromSlice (item n gets Key(n));
   Seal = the constructor returns; then the public calls Iterate, Get(i), Reopen (Flush +
   New*ListFromHash).  KeyOf(i) exposes the key bytes for the byte-exact comparison. *)
EXTENDS KeyCodec
CONSTANTS MaxN,          \* items are added up to this size (70000 crosses 128, 256, 32768, 65536)
          Sizes,         \* sizes at which the list is sealed and used
          SmallN,        \* sizes <= SmallN: the iteration order is also computed directly from the keys
          MaxOps

VARIABLES n,             \* number of items added so far
          sealed, reopened,
          hist
vars == <<n, sealed, reopened, hist>>

\* ---- the index -> key encoding -------------------------------------------------------
RECURSIVE Mag(_)
Mag(i) == IF i < 256 THEN <<i>> ELSE Mag(i \div 256) \o <<i % 256>>
\* intconv.Uint64ToBytes: minimal big-endian bytes, with a leading 0 when the top bit is set
UintBytes(i) == IF i = 0 THEN <<0>> ELSE LET m == Mag(i) IN IF m[1] >= 128 THEN <<0>> \o m ELSE m
Key(i) == Enc(UintBytes(i))                      \* rlpWriter.writeBytes = the same string encoding as KeyCodec!Enc
\* decoding (transactionIterator.Get: codec.BC.UnmarshalFromBytes(key, &idx))
Dec(k) == LET s == Split(k) IN IF s.ok /\ Len(s.parts) = 1 THEN BE(s.parts[1]) ELSE -1

\* lexicographic order on byte strings = iteration order of the trie (a proper prefix comes first)
LexLess(x, y) ==
  \E k \in 1..(Len(x) + 1) :
     /\ \A j \in 1..(k - 1) : j <= Len(y) /\ x[j] = y[j]
     /\ IF k > Len(x) THEN Len(y) >= k ELSE (k <= Len(y) /\ x[k] < y[k])

\* ---- list semantics ------------------------------------------------------------------
\* iteration order as maximal ascending runs of indexes; justified by Mono (checked for every n < MaxN)
IterRuns(m) == IF m = 0 THEN <<>> ELSE <<[lo |-> 0, hi |-> m - 1]>>
\* directly from the keys: position of item i among the keys of a list of size m
Rank(i, m) == Cardinality({j \in 0..(m - 1) : LexLess(Key(j), Key(i))})
GetRes(i) == IF i < n THEN i ELSE -1             \* item i, or not found

\* indexes around the encoding-length boundaries and around the end of the list
Near(c) == {c - 2, c - 1, c, c + 1, c + 2}
Spots == {i \in Near(1) \cup Near(128) \cup Near(256) \cup Near(32768) \cup Near(65536) \cup Near(n) : i >= 0 /\ i <= n + 1}

Rec(op, i, res) == [op |-> op, i |-> i, n |-> n, res |-> res, reopened |-> reopened']
\* any construction stage is an initial state (the loop of New*ListFromSlice after n iterations): keeps the
\* state graph wide instead of one chain of MaxN steps
Init == n \in 0..MaxN /\ sealed = FALSE /\ reopened = "no" /\ hist = <<>>

Add == /\ ~sealed /\ n < MaxN
       /\ n' = n + 1
       /\ UNCHANGED <<sealed, reopened, hist>>
Seal == /\ ~sealed /\ n \in Sizes
        /\ sealed' = TRUE
        /\ UNCHANGED <<n, reopened>>
        /\ hist' = Append(hist, Rec("build", 0, n))
Can == sealed /\ Len(hist) < MaxOps
Iterate == /\ Can /\ UNCHANGED <<n, sealed, reopened>>
           /\ hist' = Append(hist, Rec("iterate", 0, IterRuns(n)))
Get(i) == /\ Can /\ UNCHANGED <<n, sealed, reopened>>
          /\ hist' = Append(hist, Rec("get", i, GetRes(i)))
GetAll == /\ Can /\ UNCHANGED <<n, sealed, reopened>>
          /\ hist' = Append(hist, Rec("getall", 0, IterRuns(n)))      \* Get(i) = item i for every i in the runs
KeyOf(i) == /\ Can /\ UNCHANGED <<n, sealed, reopened>>
            /\ hist' = Append(hist, Rec("key", i, Key(i)))
\* how = "hash": Flush + New*ListFromHash on the same database;  how = "sync": Flush, then the list is rebuilt in ANOTHER
\* database from its hash through a merkle.Builder (New*ListWithBuilder, state sync) and used there
\* ReceiptList.GetProof(i): a Merkle proof for the entry under Key(i) exists iff i < n, and proves item i against the list hash
Proof(i) == /\ Can /\ UNCHANGED <<n, sealed, reopened>>
            /\ hist' = Append(hist, Rec("proof", i, [item |-> GetRes(i), key |-> Key(i)]))
Reopen(how) == /\ Can /\ reopened = "no" /\ reopened' = how /\ UNCHANGED <<n, sealed>>
          /\ hist' = Append(hist, Rec("reopen", 0, n))

Next == \/ Add
        \/ Seal
        \/ Iterate
        \/ GetAll
        \/ \E how \in {"hash", "sync"} : Reopen(how)
        \/ \E i \in Spots : Proof(i)
        \/ \E i \in Spots : Get(i)
        \/ \E i \in Spots : KeyOf(i)
Spec == Init /\ [][Next]_vars

----------------------------------------------------------------------------
(* Properties (C22) *)
\* the next item's key sorts strictly after the last one's, hence (by induction, lexicographic order
\* being total and transitive) after all earlier keys: insertion order = iteration order
Mono == n > 0 => LexLess(Key(n - 1), Key(n))
\* and no key is a prefix of its successor's (no value sits on an inner trie node)
NoPrefix == n > 0 => ~IsPrefix(Key(n - 1), Key(n))
\* the iterator recovers the index from the key
DecKey == Dec(Key(n)) = n
\* for small lists the order is computed from the keys themselves and must be the identity
SmallOrder == (sealed /\ n <= SmallN) => \A i \in 0..(n - 1) : Rank(i, n) = i
\* a sealed list never changes
Frozen == [][sealed => n' = n]_vars
=============================================================================
