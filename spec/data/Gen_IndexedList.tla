---- MODULE Gen_IndexedList ----
EXTENDS IndexedList, Json
CONSTANT Depth
\* the generator starts at the sizes to be sealed (every stage is an initial state of Spec anyway)
GenInit == n \in Sizes /\ sealed = FALSE /\ reopened = "no" /\ hist = <<>>
GenSpec == GenInit /\ [][Next]_vars
Emit == (Len(hist) = Depth) => PrintT(<<"B", ToJson(hist)>>)
====
