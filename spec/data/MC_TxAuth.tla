---- MODULE MC_TxAuth ----
EXTENDS TxAuth
====
