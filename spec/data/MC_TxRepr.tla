---- MODULE MC_TxRepr ----
EXTENDS TxRepr
\* the history does not influence behaviour (its length bounds the conversion path)
ViewNoHist == <<desc, rep, Len(hist)>>
====
