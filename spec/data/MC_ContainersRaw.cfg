SPECIFICATION Spec
CONSTANTS
  Vals = {1, 2}
  MaxLen = 3
  MaxOps = 4
  Universe = "adv"
  Deep = FALSE
  Snaps = FALSE
  BType = "raw"
  BRawId = ""
  Proj <- NoProj
VIEW ViewNoHist
INVARIANT Refines
