SPECIFICATION Spec
CONSTANTS
  Kinds = {"v2", "gen", "genlegacy"}
  ValueOpts = {"icx", "icx_lz", "0"}
  FeeOpts = {"fee", "fee_up", "fee_lz", "wrong"}
  TsOpts = {"dec", "hex", "hex2"}
  NonceOpts = {"absent", "1"}
  MethodOpts = {FALSE, TRUE}
  HashOpts = {"absent", "ok", "ok0x", "wrong"}
  FromOpts = {"canon", "upper"}
  ToOpts = {"canon", "cx"}
  MsgOpts = {"plain", "esc"}
  NidOpts = {"absent", "0x3"}
  ChainOpts = {FALSE, TRUE}
  AcctOpts = {"full", "notreasury"}
  MaxOps = 4
  Depth = 4
  Compare = TRUE

INVARIANT Emit

