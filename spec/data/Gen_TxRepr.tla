---- MODULE Gen_TxRepr ----
EXTENDS TxRepr, Json
CONSTANT Depth
\* a case = start + conversion path of exactly Depth calls, or start + one id comparison
Emit == ((Len(hist) = Depth + 1) \/ (Len(hist) = 2 /\ hist[2].op = "compare")) => PrintT(<<"B", ToJson(hist)>>)
====
