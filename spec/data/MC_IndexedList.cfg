SPECIFICATION Spec
CONSTANTS
  MaxN = 70000
  Sizes = {0, 1, 2, 127, 128, 129, 255, 256, 257, 300, 32767, 32768, 32769, 65535, 65536, 65537, 69999}
  SmallN = 300
  MaxOps = 3
VIEW ViewNoHist
INVARIANTS Mono NoPrefix DecKey SmallOrder
PROPERTY Frozen
