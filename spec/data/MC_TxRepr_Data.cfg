SPECIFICATION Spec
CONSTANTS
  ValueOpts = {"absent", "a", "icx"}
  NidOpts = {"absent", "1"}
  NonceOpts = {"absent", "1"}
  StepOpts = {"1f4"}
  TsOpts = {"icx"}
  FromOpts = {"canon"}
  ToOpts = {"canon", "cx"}
  DataOpts = {"absent", "null", "empty", "hex", "esc", "num", "numstr", "float", "neg", "list0", "list1e", "list2e", "list", "dict0", "nested", "call"}
  DTypeOpts = {"absent", "message", "call"}
  MemoOpts = {FALSE, TRUE}
  HashOpts = {FALSE, TRUE}
  Starts = {"json", "rlp"}
  MaxOps = 4
  Compare = FALSE
VIEW ViewNoHist
INVARIANTS IdConstant StructMapAgree ModeSound Sensitive
PROPERTY DescFixed
