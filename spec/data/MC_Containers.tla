---- MODULE MC_Containers ----
EXTENDS Containers
\* exhaustive checker views: the history does not influence behaviour.
\* ViewNoHist keeps the history length (bounded runs: all histories of <= MaxOps calls);
\* ViewState drops it (MaxOps larger than the diameter: ALL histories over the bounded universe).
ViewNoHist == <<store, arr, dict, var, snap, sideal, Len(hist)>>
ViewState == <<store, arr, dict, var, snap, sideal>>
ASSUME PathsDistinct
ASSUME KeysDistinct
====
