--------------------------- MODULE ContainerKeys ---------------------------
(* Key builders of contract storage containers (common/containerdb/keybuilder.go) as a
   state machine: ToKey()/NewHashKey() create a builder, Append() derives a NEW builder from
   an existing one (builders are immutable values: earlier builders keep producing their
   key), Build() yields the storage key.  SplitKeys() decodes composite keys.
   One action per public call; every step records the key the spec predicts for EVERY
   builder alive, so a replay also detects aliasing between derived builders. *)
EXTENDS KeyCodec
CONSTANTS PartIds,        \* ids of the key parts used as arguments (strings)
          RawIds,         \* ids usable as raw prefix (NewHashKey prefix / PrefixedHashBuilder first key)
          Types,          \* subset of {"hash", "phash", "rlp", "raw", "tkey"}
          MaxBuilders, MaxArgs, MaxParts, MaxOps,
          MaxNew,         \* builders created from scratch (the others are derived with Append)
          ProbeIds,       \* ids of crafted byte strings fed to SplitKeys
          TupleIds,       \* alphabet of the constant-level checks over all tuples
          Proj(_)         \* projection logged after every step (FullProj in generators, NoProj when checking)

VARIABLES kbs,            \* Seq of builders [type, raw, parts, ids]
          hist
vars == <<kbs, hist>>

\* the part alphabet: boundary lengths of the length prefix (0, 1 byte below/above 0x80, 55|56, 255|256),
\* parts that look like encodings themselves, an address-shaped part
PartBytes(id) ==
  CASE id = "e"    -> <<>>
    [] id = "z"    -> <<0>>
    [] id = "o"    -> <<1>>
    [] id = "a"    -> <<97>>
    [] id = "m7f"  -> <<127>>
    [] id = "m80"  -> <<128>>
    [] id = "ff"   -> <<255>>
    [] id = "az"   -> <<97, 0>>
    [] id = "aa"   -> <<97, 97>>
    [] id = "x81"  -> <<129, 128>>          \* = Enc(<<128>>)
    [] id = "x80"  -> <<128>> \o <<128>>    \* = Enc(<<>>) ++ Enc(<<>>)
    [] id = "xb8"  -> <<184, 56>>           \* start of a long-form header
    [] id = "adr"  -> <<1>> \o Fill(20, 171)
    [] id = "h32"  -> Fill(32, 90)
    [] id = "L54"  -> Fill(54, 52)
    [] id = "L55"  -> Fill(55, 53)
    [] id = "L56"  -> Fill(56, 54)
    [] id = "L57"  -> Fill(57, 55)
    [] id = "L255" -> Fill(255, 201)
    [] id = "L256" -> Fill(256, 202)
    [] id = "L257" -> Fill(257, 203)
    [] id = "L65536" -> Fill(65536, 204)    \* the first length with a 3-byte size field
PB(ids) == [i \in 1..Len(ids) |-> PartBytes(ids[i])]

\* crafted inputs of SplitKeys: truncated, non-minimal, list-tagged
ProbeBytes(id) ==
  CASE id = "empty"      -> <<>>
    [] id = "one"        -> <<5>>
    [] id = "nc1"        -> <<129, 5>>                       \* non-canonical single byte: accepted by the parser
    [] id = "short_ok"   -> <<130, 1, 2, 128, 97>>
    [] id = "short_tr"   -> <<130, 1>>                       \* truncated short string
    [] id = "short_tr2"  -> <<97, 131, 1, 2>>
    [] id = "long_ok"    -> <<184, 56>> \o Fill(56, 7)
    [] id = "long_tr"    -> <<184, 56>> \o Fill(55, 7)
    [] id = "long_small" -> <<184, 55>> \o Fill(55, 7)       \* long form for a size < 56
    [] id = "long_nosz"  -> <<185, 1>>                       \* size field longer than the input
    [] id = "long_lz"    -> <<185, 0, 56>> \o Fill(56, 7)    \* leading zero in the size field
    [] id = "long2_ok"   -> <<185, 1, 0>> \o Fill(256, 7)
    [] id = "long2_tr"   -> <<185, 1, 1>> \o Fill(256, 7)
    [] id = "long4"      -> <<187, 1, 0, 0, 0, 9>>           \* 2^24 bytes announced
    [] id = "long3_tr"   -> <<186, 1, 0, 0>> \o Fill(10, 7)       \* 3-byte size field announcing 65536 bytes, truncated
    [] id = "long3_lz"   -> <<186, 0, 1, 0>> \o Fill(256, 7)      \* 3-byte size field with a leading zero
    [] id = "long5"      -> <<188, 1, 0, 0, 0, 0, 9>>            \* 5, 6, 7-byte size fields: more than any input holds
    [] id = "long6"      -> <<189, 1, 0, 0, 0, 0, 0, 9>>
    [] id = "long7_lz"   -> <<190, 0, 0, 0, 0, 0, 0, 56>> \o Fill(56, 7)
    [] id = "long8_lz"   -> <<191, 0, 0, 0, 0, 0, 0, 0, 56>> \o Fill(56, 7)
    [] id = "list"       -> <<193, 18>>
    [] id = "list_after" -> <<97, 192>>
    [] id = "f8"         -> <<248, 0>>

ArgSeqs == UNION {[1..n -> PartIds] : n \in 0..MaxArgs}
SeqOf(f) == [i \in 1..Len(f) |-> f[i]]

OutsOf(ks) == [j \in 1..Len(ks) |-> Out(ks[j])]
\* what SplitKeys must return for the rlp-encoded part list of builder j
SplitsOf(ks) == [j \in 1..Len(ks) |-> Split(Cat(ks[j].parts))]

\* logged after every step: the key and the SplitKeys result predicted for the NEWEST builder (the keys of all
\* builders alive are emitted once per behaviour by the generator, see Gen_ContainerKeys!Emit)
FullProj(ks) == IF ks = <<>> THEN [out |-> <<>>, split |-> Err, ids |-> <<>>]
                ELSE LET kb == ks[Len(ks)] IN [out |-> Out(kb), split |-> Split(Cat(kb.parts)), ids |-> kb.ids]
NoProj(ks) == [out |-> <<>>]
Log(r) == hist' = Append(hist, r @@ Proj(kbs'))

Init == kbs = <<>> /\ hist = <<>>

Can == Len(hist) < MaxOps
\* ToKey(type, keys...) (raw = "") / NewHashKey(prefix, keys...) / ToKey(PrefixedHashBuilder, rawkey, keys...)
New(type, rawid, ids) ==
  /\ Len(kbs) < MaxBuilders /\ Len(kbs) < MaxNew
  /\ type \in {"rlp", "raw"} => rawid = ""
  /\ type \in {"phash", "tkey"} => rawid # ""
  /\ type = "tkey" => Len(PartBytes(rawid)) = 1                 \* scoredb.ToKey takes one type byte
  /\ LET raw == IF rawid = "" THEN <<>> ELSE PartBytes(rawid) IN
     kbs' = Append(kbs, [type |-> type, raw |-> raw, parts |-> PB(ids), ids |-> ids])
  /\ Log([op |-> "new", type |-> type, raw |-> rawid, from |-> 0, ps |-> ids, probe |-> "", res |-> Err,
          rawb |-> IF rawid = "" THEN <<>> ELSE PartBytes(rawid), args |-> PB(ids)])
\* kbs[i].Append(keys...)
AppendTo(i, ids) ==
  /\ Len(kbs) < MaxBuilders
  /\ Len(kbs[i].parts) + Len(ids) <= MaxParts
  /\ kbs' = Append(kbs, [kbs[i] EXCEPT !.parts = @ \o PB(ids), !.ids = @ \o ids])
  /\ Log([op |-> "append", type |-> kbs[i].type, raw |-> "", from |-> i, ps |-> ids, probe |-> "", res |-> Err,
          rawb |-> <<>>, args |-> PB(ids)])
\* SplitKeys(bytes) on a crafted input
Probe(id) ==
  /\ UNCHANGED kbs
  /\ Log([op |-> "probe", type |-> "", raw |-> "", from |-> 0, ps |-> <<>>, probe |-> id, res |-> Split(ProbeBytes(id)) @@ [input |-> ProbeBytes(id)],
          rawb |-> <<>>, args |-> <<>>])

Next == \/ Can /\ \E t \in Types, r \in RawIds \cup {""}, a \in ArgSeqs : New(t, r, SeqOf(a))
        \/ Can /\ \E i \in 1..Len(kbs), a \in ArgSeqs : Len(a) > 0 /\ AppendTo(i, SeqOf(a))
        \/ Can /\ \E id \in ProbeIds : Probe(id)
Spec == Init /\ [][Next]_vars

----------------------------------------------------------------------------
(* Properties (C21, key part) *)
Hashing(kb) == kb.type \in {"hash", "phash", "rlp", "tkey"}
\* composite keys decode back to their parts
SplitBuild == \A j \in 1..Len(kbs) : Split(Cat(kbs[j].parts)) = [ok |-> TRUE, parts |-> kbs[j].parts]
\* distinct paths (same builder type, raw prefixes of equal length) give distinct keys
Path(kb) == <<kb.raw, kb.parts>>
Distinct ==
  \A i, j \in 1..Len(kbs) :
     (/\ Hashing(kbs[i]) /\ kbs[i].type = kbs[j].type /\ Len(kbs[i].raw) = Len(kbs[j].raw)
      /\ Path(kbs[i]) # Path(kbs[j])) => Out(kbs[i]) # Out(kbs[j])
\* the lemma behind both: encodings of parts are prefix-free, so the concatenation parses uniquely
AllIds == PartIds \cup TupleIds
PrefixFree == \A p, q \in AllIds : p # q => ~IsPrefix(Enc(PartBytes(p)), Enc(PartBytes(q)))
PartsDiffer == \A p, q \in AllIds : p # q => PartBytes(p) # PartBytes(q)
\* constant-level injectivity over ALL tuples of at most MaxParts parts (evaluated once, as an ASSUME of MC)
Tuples == UNION {[1..n -> TupleIds] : n \in 0..MaxParts}
\* (as a cardinality comparison: TLC sorts the image set, n log n instead of n^2 comparisons)
Injective == Cardinality({Cat(PB(t)) : t \in Tuples}) = Cardinality(Tuples)
SplitAll == \A t \in Tuples : Split(Cat(PB(t))) = [ok |-> TRUE, parts |-> PB(t)]
\* the raw builder is NOT injective (by design; it is used with fixed-width parts only): guards the alphabet
RawCollides == Cardinality({RawCat(PB(t)) : t \in Tuples}) < Cardinality(Tuples)
=============================================================================
