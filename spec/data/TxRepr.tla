------------------------------- MODULE TxRepr -------------------------------
(* Representations of a version-3 transaction (service/transaction: transaction_v3.go,
   transaction_json.go, serialize.go, factory.go) and the conversions between them:

      submitted JSON --ParseJSON--> object --Bytes--> stored bytes --ParseStored--> object
                                    object --ToJSON--> JSON --ParseJSON--> object ...

   An object is in *struct* mode (fields parsed, stored form = RLP of the fields) or in *raw*
   mode (the compact JSON text is kept and IS the stored form).  ParseJSON chooses raw mode iff
   the id computed from the JSON map differs from the id computed from the parsed fields, i.e.
   iff some field is not in canonical form (leading zeros, upper-case hex, missing address
   prefix, JSON null for an optional field, unknown fields).
   The id is SHA3-256 of the ICON serialization; the hash is symbolic, the serialization is
   transcribed here character by character: SerMap = serializeDict over the JSON map (sorted
   keys, signature/txHash excluded), SerStruct = transactionV3Data.calcHash over the fields.
   Addresses are placeholders substituted by the replay driver: @F/@T = 40 lower-case hex digits
   of sender/recipient, @UF/@UT the same digits in upper case.
   A transaction descriptor `desc` is chosen initially (presence and form of every field, data
   payload class); one action per conversion call. *)
EXTENDS Integers, Sequences, FiniteSets, TLC
CONSTANTS ValueOpts, NidOpts, NonceOpts, StepOpts, TsOpts,   \* ids of numeric field options (see NumOf)
          FromOpts, ToOpts,                                   \* address forms: "canon" | "upper" | "noprefix" | "cx"
          DataOpts,                                           \* ids of data payload classes (see DataOf)
          DTypeOpts,                                          \* "absent" | "message" | "call" | "patch"
          MemoOpts, HashOpts,                                 \* subsets of BOOLEAN: unknown field "memo" / a "txHash" field present
          Starts,                                             \* subset of {"json", "rlp"}
          MaxOps,
          Compare                                             \* BOOLEAN: generate id-sensitivity comparisons

VARIABLES desc,           \* the transaction descriptor (never changes)
          rep,            \* current representation [k, doc, mode]
          hist
vars == <<desc, rep, hist>>

\* ---- strings --------------------------------------------------------------------------
RECURSIVE JoinS(_)
JoinS(ss) == IF ss = <<>> THEN "" ELSE Head(ss) \o JoinS(Tail(ss))       \* concatenate a sequence of strings
RECURSIVE JoinDot(_)
JoinDot(ss) == IF ss = <<>> THEN "" ELSE IF Len(ss) = 1 THEN ss[1] ELSE ss[1] \o "." \o JoinDot(Tail(ss))
Special == {"\\", "{", "}", "[", "]", "."}
\* serializeString over a string given as a sequence of one-character strings
EscChars(cs) == JoinS([i \in 1..Len(cs) |-> IF cs[i] \in Special THEN "\\" \o cs[i] ELSE cs[i]])
UpC(c) == CASE c = "a" -> "A" [] c = "b" -> "B" [] c = "c" -> "C" [] c = "d" -> "D" [] c = "e" -> "E" [] c = "f" -> "F" [] OTHER -> c

\* ---- numeric fields -------------------------------------------------------------------
\* p: "absent" | "null" (JSON null) | "val";  d: canonical lower-case hex digits;  lz/up: leading zero / upper case
Num(p, d, lz, up) == [p |-> p, d |-> d, lz |-> lz, up |-> up]
ICX == <<"d", "e", "0", "b", "6", "b", "3", "a", "7", "6", "4", "0", "0", "0", "0">>
NumOf(id) ==
  CASE id = "absent"  -> Num("absent", <<>>, FALSE, FALSE)
    [] id = "null"    -> Num("null", <<>>, FALSE, FALSE)
    [] id = "0"       -> Num("val", <<"0">>, FALSE, FALSE)
    [] id = "0_lz"    -> Num("val", <<"0">>, TRUE, FALSE)
    [] id = "1"       -> Num("val", <<"1">>, FALSE, FALSE)
    [] id = "a"       -> Num("val", <<"a">>, FALSE, FALSE)
    [] id = "a_lz"    -> Num("val", <<"a">>, TRUE, FALSE)
    [] id = "a_up"    -> Num("val", <<"a">>, FALSE, TRUE)
    [] id = "a_lzup"  -> Num("val", <<"a">>, TRUE, TRUE)
    [] id = "1f4"     -> Num("val", <<"1", "f", "4">>, FALSE, FALSE)
    [] id = "1f4_up"  -> Num("val", <<"1", "f", "4">>, FALSE, TRUE)
    [] id = "icx"     -> Num("val", ICX, FALSE, FALSE)
    [] id = "icx_lz"  -> Num("val", ICX, TRUE, FALSE)
    [] id = "icx_up"  -> Num("val", ICX, FALSE, TRUE)
CanonNum(v) == "0x" \o JoinS(v.d)                                                  \* HexInt.String()
TextNum(v) == "0x" \o (IF v.lz THEN "0" ELSE "") \o JoinS([i \in 1..Len(v.d) |-> IF v.up THEN UpC(v.d[i]) ELSE v.d[i]])
NumIsCanon(v) == v.p = "absent" \/ (v.p = "val" /\ TextNum(v) = CanonNum(v))

\* ---- addresses ------------------------------------------------------------------------
\* who: "F" | "T" | "X" (a third address, sensitivity only);  contract: cx prefix
AddrText(who, form) ==
  CASE form = "canon"    -> "hx@" \o who
    [] form = "upper"    -> "hx@U" \o who
    [] form = "noprefix" -> "@" \o who
    [] form = "cx"       -> "cx@" \o who
AddrCanon(who, form) == IF form = "cx" THEN "cx@" \o who ELSE "hx@" \o who          \* Address.String()

\* ---- data payloads --------------------------------------------------------------------
Str(cs) == [k |-> "str", cs |-> cs]
NumV(txt, int) == [k |-> "num", txt |-> txt, int |-> int]       \* txt: JSON text, int: strconv.FormatInt(int64(float))
Null == [k |-> "null"]
List(items) == [k |-> "list", items |-> items]
Dict(es) == [k |-> "dict", es |-> es]                            \* entries <<key chars, value>> in SORTED key order
E(key, val) == [key |-> key, val |-> val]
Chars_hex == <<"0", "x", "1", "2", "a", "b">>
Chars_esc == <<"a", ".", "b", "\\", "{", "c", "}", "[", "d", "]", " ", "e">>
Chars_method == <<"t", "r", "a", "n", "s", "f", "e", "r">>
DataOf(id) ==
  CASE id = "absent"  -> [k |-> "absent"]
    [] id = "null"    -> Null
    [] id = "empty"   -> Str(<<>>)
    [] id = "hex"     -> Str(Chars_hex)
    [] id = "esc"     -> Str(Chars_esc)
    [] id = "num"     -> NumV("5", "5")
    [] id = "numstr"  -> Str(<<"5">>)                            \* serializes like the number 5
    [] id = "float"   -> NumV("5.75", "5")                       \* truncated: serializes like 5
    [] id = "neg"     -> NumV("-12", "-12")
    [] id = "list0"   -> List(<<>>)
    [] id = "list1e"  -> List(<<Str(<<>>)>>)                     \* [""] serializes like []
    [] id = "list2e"  -> List(<<Str(<<>>), Str(<<>>)>>)          \* ["",""] serializes like []
    [] id = "list"    -> List(<<Str(<<"x">>), Null, NumV("1", "1"), List(<<Str(<<".">>)>>)>>)
    [] id = "dict0"   -> Dict(<<>>)
    [] id = "nested"  -> Dict(<<E(<<"a">>, List(<<NumV("1", "1"), Null, Dict(<<E(<<"b", ".">>, Str(<<"c">>))>>)>>)),
                                 E(<<"k">>, Str(Chars_esc)), E(<<"z">>, Dict(<<>>))>>)
    [] id = "call"    -> Dict(<<E(<<"m", "e", "t", "h", "o", "d">>, Str(Chars_method)),
                                 E(<<"p", "a", "r", "a", "m", "s">>,
                                   Dict(<<E(<<"_", "t", "o">>, Str(<<"h", "x", "1", "2">>)), E(<<"_", "v">>, Str(Chars_hex)), E(<<"n">>, Null)>>))>>)
    [] id = "patch"   -> Dict(<<E(<<"d", "a", "t", "a">>, Str(<<"A", "Q", "I", "D">>)),            \* contract.Patch: base64 bytes
                                 E(<<"t", "y", "p", "e">>, Str(<<"s", "k", "i", "p", "_", "t", "x", "s">>))>>)
\* serializeValue / serializeList / serializeDict
RECURSIVE SerVal(_), SerItems(_, _, _), SerEntries(_, _, _)
SerVal(t) ==
  CASE t.k = "null" -> "\\0"
    [] t.k = "str"  -> EscChars(t.cs)
    [] t.k = "num"  -> t.int
    [] t.k = "list" -> "[" \o SerItems(t.items, 1, "") \o "]"
    [] t.k = "dict" -> "{" \o SerEntries(t.es, 1, "") \o "}"
\* the separator is written only when the buffer is non-empty (buf.Len() > 0), as in the Go code
SerItems(items, i, buf) ==
  IF i > Len(items) THEN buf
  ELSE SerItems(items, i + 1, (IF buf # "" THEN buf \o "." ELSE buf) \o SerVal(items[i]))
SerEntries(es, i, buf) ==
  IF i > Len(es) THEN buf
  ELSE SerEntries(es, i + 1, (IF buf # "" THEN buf \o "." ELSE buf) \o EscChars(es[i].key) \o "." \o SerVal(es[i].val))
\* data classes whose serializations coincide by the format's design (value equivalences)
EquivClass(id) == CASE id \in {"num", "numstr", "float"} -> "five"
                    [] id \in {"list0", "list1e", "list2e"} -> "emptylist"
                    [] OTHER -> id

\* ---- the transaction descriptor -------------------------------------------------------
Descs ==
  {d \in [value : ValueOpts, nid : NidOpts, nonce : NonceOpts, step : StepOpts, ts : TsOpts, from : FromOpts, to : ToOpts,
          data : DataOpts, dtype : DTypeOpts, memo : MemoOpts, txhash : HashOpts, fromw : {"F"}, tow : {"T"}] :
     /\ (d.dtype = "call") <=> (d.data = "call")
     /\ (d.dtype = "patch") <=> (d.data = "patch")}        \* patch transactions: version 3 with dataType "patch"
\* top-level JSON entries <<key, kind, serialized value>> of the SUBMITTED document, in sorted key order
\* (signature and txHash are excluded from the serialization)
\* JSON-level entries [key, jk, text, tree]: jk = "str" (a JSON string without characters that need escaping),
\* "null", or "tree" (the data payload); the replay driver renders the submitted JSON text from these
JStr(key, text) == [key |-> key, jk |-> "str", text |-> text, tree |-> Null]
NumEntry(key, v) == IF v.p = "absent" THEN <<>> ELSE IF v.p = "null" THEN <<[key |-> key, jk |-> "null", text |-> "", tree |-> Null]>>
                    ELSE <<JStr(key, TextNum(v))>>
RenderEntries(d) ==
  (IF d.data = "absent" THEN <<>> ELSE <<[key |-> "data", jk |-> "tree", text |-> "", tree |-> DataOf(d.data)]>>)
  \o (IF d.dtype = "absent" THEN <<>> ELSE <<JStr("dataType", d.dtype)>>)
  \o <<JStr("from", AddrText(d.fromw, d.from))>>
  \o (IF d.memo THEN <<JStr("memo", "x")>> ELSE <<>>)
  \o NumEntry("nid", NumOf(d.nid)) \o NumEntry("nonce", NumOf(d.nonce))
  \o NumEntry("stepLimit", NumOf(d.step)) \o NumEntry("timestamp", NumOf(d.ts))
  \o <<JStr("to", AddrText(d.tow, d.to))>>
  \o NumEntry("value", NumOf(d.value))
  \o <<JStr("version", "0x3")>>
SerEntry(e) == [key |-> e.key, ser |-> CASE e.jk = "null" -> "\\0" [] e.jk = "tree" -> SerVal(e.tree) [] OTHER -> e.text]
OrigEntries(d) == LET r == RenderEntries(d) IN [i \in 1..Len(r) |-> SerEntry(r[i])]
\* the document ToJSON produces from the parsed fields: canonical forms, nil fields omitted, unknown fields gone
CanonD(d) == [d EXCEPT !.value = IF NumOf(@).p = "val" THEN @ ELSE "absent",
                       !.nid = IF NumOf(@).p = "val" THEN @ ELSE "absent",
                       !.nonce = IF NumOf(@).p = "val" THEN @ ELSE "absent", !.memo = FALSE]
CanonNumEntry(key, v) == IF v.p = "val" THEN <<[key |-> key, ser |-> CanonNum(v)]>> ELSE <<>>
CanonEntries(d) ==
  (IF d.data = "absent" THEN <<>> ELSE <<[key |-> "data", ser |-> SerVal(DataOf(d.data))]>>)
  \o (IF d.dtype = "absent" THEN <<>> ELSE <<[key |-> "dataType", ser |-> d.dtype]>>)
  \o <<[key |-> "from", ser |-> AddrCanon(d.fromw, d.from)]>>
  \o CanonNumEntry("nid", NumOf(d.nid)) \o CanonNumEntry("nonce", NumOf(d.nonce))
  \o CanonNumEntry("stepLimit", NumOf(d.step)) \o CanonNumEntry("timestamp", NumOf(d.ts))
  \o <<[key |-> "to", ser |-> AddrCanon(d.tow, d.to)]>>
  \o CanonNumEntry("value", NumOf(d.value))
  \o <<[key |-> "version", ser |-> "0x3"]>>
\* calcHashOfTransactionJSMap: salt ++ serializeDict(map)
SerMap(entries) == "icx_sendTransaction." \o JoinDot([i \in 1..Len(entries) |-> entries[i].key \o "." \o entries[i].ser])
\* transactionV3Data.calcHash: field by field
SerStruct(d) ==
  LET opt(key, v) == IF v.p = "val" THEN "." \o key \o "." \o CanonNum(v) ELSE "" IN
  "icx_sendTransaction"
  \o (IF d.data = "absent" THEN "" ELSE ".data." \o SerVal(DataOf(d.data)))
  \o (IF d.dtype = "absent" THEN "" ELSE ".dataType." \o d.dtype)
  \o ".from." \o AddrCanon(d.fromw, d.from)
  \o opt("nid", NumOf(d.nid)) \o opt("nonce", NumOf(d.nonce))
  \o ".stepLimit." \o CanonNum(NumOf(d.step)) \o ".timestamp." \o CanonNum(NumOf(d.ts))
  \o ".to." \o AddrCanon(d.tow, d.to)
  \o opt("value", NumOf(d.value))
  \o ".version.0x3"

\* ---- representations ------------------------------------------------------------------
\* doc: which document a JSON text / raw object / JSON bytes carries: "orig" (as submitted) or "canon" (ToJSON of fields)
EntriesOf(doc) == IF doc = "orig" THEN OrigEntries(desc) ELSE CanonEntries(desc)
\* id preimage of a representation
PreOf(r) == IF r.mode \in {"struct", "rlp"} THEN SerStruct(desc) ELSE SerMap(EntriesOf(r.doc))
\* what every representation must agree on
ObsOf(d) == [from |-> AddrCanon(d.fromw, d.from), to |-> AddrCanon(d.tow, d.to),
             value |-> NumOf(d.value), step |-> NumOf(d.step), ts |-> NumOf(d.ts), nonce |-> NumOf(d.nonce),
             nid |-> NumOf(d.nid), dtype |-> d.dtype, data |-> DataOf(d.data), spre |-> SerStruct(d)]
Obs == ObsOf(desc)
\* a conversion step: the predicted representation and id preimage (the observables are in the start record)
Rec(op, r) == [op |-> op, rep |-> r, pre |-> PreOf(r)]

StartRep(s) == IF s = "json" THEN [k |-> "json", doc |-> "orig", mode |-> "text"] ELSE [k |-> "bytes", doc |-> "canon", mode |-> "rlp"]
\* a peer's stored RLP exists only for field values, not for forms: start from it for all-canonical descriptors only
AllCanon(d) == /\ \A f \in {d.value, d.nid, d.nonce, d.step, d.ts} : NumIsCanon(NumOf(f))
               /\ d.from = "canon" /\ d.to \in {"canon", "cx"} /\ ~d.memo
Init == /\ desc \in Descs
        /\ \E s \in Starts : rep = StartRep(s) /\ (s = "rlp" => AllCanon(desc) /\ ~desc.txhash)
        /\ hist = <<[op |-> "start", rep |-> rep, pre |-> PreOf(rep), obs |-> Obs, other |-> desc, what |-> "", same |-> FALSE,
                     render |-> RenderEntries(desc), canon |-> AllCanon(desc)]>>

Can == Len(hist) <= MaxOps /\ hist[Len(hist)].op # "compare"      \* a comparison ends a case
\* NewTransactionFromJSON / (*transaction).UnmarshalJSON
ParseJSON ==
  /\ Can /\ rep.k = "json"
  /\ LET raw == SerMap(EntriesOf(rep.doc)) # SerStruct(desc)          \* ids differ -> keep the JSON (raw mode)
         r == [k |-> "obj", doc |-> rep.doc, mode |-> IF raw THEN "raw" ELSE "struct"] IN
     rep' = r /\ hist' = Append(hist, Rec("parsejson", r))
  /\ UNCHANGED desc
\* Bytes() / MarshalBinary
Bytes ==
  /\ Can /\ rep.k = "obj"
  /\ LET r == [k |-> "bytes", doc |-> rep.doc, mode |-> IF rep.mode = "raw" THEN "json" ELSE "rlp"] IN
     rep' = r /\ hist' = Append(hist, Rec("bytes", r))
  /\ UNCHANGED desc
\* NewTransaction(bytes) / UnmarshalBinary / Reset
ParseStored ==
  /\ Can /\ rep.k = "bytes"
  /\ LET r == [k |-> "obj", doc |-> rep.doc, mode |-> IF rep.mode = "json" THEN "raw" ELSE "struct"] IN
     rep' = r /\ hist' = Append(hist, Rec("parsestored", r))
  /\ UNCHANGED desc
\* ToJSON / MarshalJSON: raw objects return their JSON (+txHash), struct objects render their fields
ToJSON ==
  /\ Can /\ rep.k = "obj"
  /\ LET r == [k |-> "json", doc |-> IF rep.mode = "raw" THEN rep.doc ELSE "canon", mode |-> "text"] IN
     rep' = r /\ hist' = Append(hist, Rec("tojson", r))
  /\ UNCHANGED desc

\* ---- id sensitivity: single-field changes of the initial document ---------------------
DigitsOf(id) == NumOf(id).d
Other(id, x, y) == IF NumOf(id).p = "val" /\ DigitsOf(id) = DigitsOf(x) THEN y ELSE x     \* an option with another number
Changes ==
  {[what |-> "value", d |-> [desc EXCEPT !.value = Other(@, "1f4", "a")]],
   [what |-> "value-presence", d |-> [desc EXCEPT !.value = IF NumOf(@).p = "val" THEN "absent" ELSE "0"]],
   \* an explicit zero and an absent optional field are different signed contents
   [what |-> "nid-presence", d |-> [desc EXCEPT !.nid = IF NumOf(@).p = "val" THEN "absent" ELSE "0"]],
   [what |-> "nonce-presence", d |-> [desc EXCEPT !.nonce = IF NumOf(@).p = "val" THEN "absent" ELSE "0"]],
   [what |-> "nid", d |-> [desc EXCEPT !.nid = Other(@, "1", "a")]],
   [what |-> "nonce", d |-> [desc EXCEPT !.nonce = Other(@, "1", "a")]],
   [what |-> "stepLimit", d |-> [desc EXCEPT !.step = Other(@, "1f4", "icx")]],
   [what |-> "timestamp", d |-> [desc EXCEPT !.ts = Other(@, "1f4", "icx")]],
   [what |-> "from", d |-> [desc EXCEPT !.fromw = "X"]],
   [what |-> "to", d |-> [desc EXCEPT !.tow = "X"]],
   [what |-> "to-kind", d |-> [desc EXCEPT !.to = IF @ = "cx" THEN "canon" ELSE "cx"]]}
  \cup (IF desc.dtype \in {"call", "patch"} THEN {}
        ELSE {[what |-> "dataType", d |-> [desc EXCEPT !.dtype = IF @ = "message" THEN "absent" ELSE "message"]]}
             \cup {[what |-> "data", d |-> [desc EXCEPT !.data = o]] : o \in DataOpts \ {desc.data, "call", "patch"}})
\* the two documents have the same id iff only the data changed and both payloads are in one equivalence class
SameId(c) == c.what = "data" /\ EquivClass(c.d.data) = EquivClass(desc.data)
CompareWith(c) ==
  /\ Compare /\ Len(hist) = 1 /\ rep.k = "json"
  /\ UNCHANGED <<desc, rep>>
  /\ hist' = Append(hist, [op |-> "compare", rep |-> rep, pre |-> SerMap(OrigEntries(c.d)), obs |-> ObsOf(c.d), other |-> c.d,
                           what |-> c.what, same |-> SameId(c), render |-> RenderEntries(c.d), canon |-> AllCanon(c.d)])

Next == \/ ParseJSON
        \/ Bytes
        \/ ParseStored
        \/ ToJSON
        \/ \E c \in Changes : CompareWith(c)
Spec == Init /\ [][Next]_vars

----------------------------------------------------------------------------
(* Properties (C12) *)
InitialPre == hist[1].pre
\* the id (its preimage) is the same in every representation reachable by any conversion path
IdConstant == PreOf(rep) = InitialPre
\* ToJSON of parsed fields and calcHash over the fields describe the same serialization
StructMapAgree == Len(hist) = 1 => SerMap(CanonEntries(desc)) = SerStruct(desc)
\* struct mode is entered only for documents whose map serialization equals the field serialization
ModeSound == (rep.k = "obj" /\ rep.mode = "struct") => SerMap(EntriesOf(rep.doc)) = SerStruct(desc)
\* a changed signed field changes the serialization, except within a value-equivalence class of the data payload
Sensitive == Len(hist) = 1 => \A c \in Changes :
                /\ (SerMap(OrigEntries(c.d)) = SerMap(OrigEntries(desc))) <=> SameId(c)
                /\ (SerStruct(c.d) = SerStruct(desc)) <=> SameId(c)
\* descriptor never changes; observables are functions of the descriptor only
DescFixed == [][desc' = desc]_vars
=============================================================================
