SPECIFICATION Spec
CONSTANTS
  ValueOpts = {"absent", "null", "0", "a_lz", "icx_up"}
  NidOpts = {"absent", "1", "a_lz"}
  NonceOpts = {"absent", "null", "1", "a_up"}
  StepOpts = {"1f4", "1f4_up", "icx_lz"}
  TsOpts = {"icx", "icx_lz"}
  FromOpts = {"canon", "upper"}
  ToOpts = {"canon", "upper", "noprefix", "cx"}
  DataOpts = {"absent", "hex"}
  DTypeOpts = {"absent", "message"}
  MemoOpts = {FALSE, TRUE}
  HashOpts = {FALSE}
  Starts = {"json", "rlp"}
  MaxOps = 4
  Compare = TRUE
VIEW ViewNoHist
INVARIANTS IdConstant StructMapAgree ModeSound Sensitive
PROPERTY DescFixed
