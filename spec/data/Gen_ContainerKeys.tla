---- MODULE Gen_ContainerKeys ----
EXTENDS ContainerKeys, Json
CONSTANT Depth
\* a behaviour = the calls with the per-step predictions + the predicted keys of ALL builders at the end
\* (builders are immutable: deriving new builders must not disturb the ones they were derived from)
Emit == (Len(hist) = Depth) => PrintT(<<"B", ToJson([steps |-> hist, outs |-> OutsOf(kbs), ids |-> [j \in 1..Len(kbs) |-> kbs[j].ids]])>>)
====
