SPECIFICATION Spec
CONSTANTS
  Vals = {1, 2}
  MaxLen = 2
  MaxOps = 1000
  Universe = "adv"
  Deep = FALSE
  Snaps = FALSE
  BType = "rlp"
  BRawId = ""
  Proj <- NoProj
VIEW ViewState
INVARIANT Refines
PROPERTY ResultsIdeal
