SPECIFICATION Spec
CONSTANTS
  Vals = {1, 2}
  MaxLen = 2
  MaxOps = 1000
  Universe = "adv"
  Snaps = FALSE
  BType = "rlp"
  BRawId = ""
  Proj <- NoProj
VIEW ViewState
INVARIANT Refines
PROPERTY ResultsIdeal
