SPECIFICATION Spec
CONSTANTS
  Vals = {1, 2}
  MaxLen = 3
  MaxOps = 3
  Depth = 3
  Universe = "adv"
  Deep = FALSE
  Snaps = TRUE
  BType = "hash"
  BRawId = ""
  Proj <- FullProj
INVARIANT Emit
