---- MODULE Gen_TxAuth ----
EXTENDS TxAuth, Json
CONSTANT Depth
Emit == (Len(hist) = Depth) => PrintT(<<"B", ToJson(hist)>>)
====
