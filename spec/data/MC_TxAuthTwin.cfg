SPECIFICATION TwinSpec
CONSTANTS
  DTypes = {"none", "message", "call", "deploy", "deposit_add", "deposit_withdraw", "patch", "call_nodata", "call_nomethod", "deploy_nodata", "deploy_value", "patch_nodata", "patch_badtype", "deposit_nodata", "neg_value", "neg_step"}
  TxKinds = {"v3", "v2"}
  Keys = {"k1", "k2"}
  Msgs = {"this", "other"}
  VForms = {"ok", "flip", "hi", "comp", "bad"}
  RForms = {"ok", "flip"}
  SForms = {"ok", "flip", "neg"}
  Lens = {65, 64, 63, 66, 0}
  FromForms = {"addr", "lastbyte", "firstbyte", "contract"}
  HashLens = {32, 31, 1, 0, 33}
  MaxTreat = 4
  MaxOps = 2
INVARIANTS NoMemory OnlySender EveryTypeGuarded IllFormedRejected SenderAccepted RoundTrips
