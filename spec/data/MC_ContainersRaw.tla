---- MODULE MC_ContainersRaw ----
(* Sensitivity guard: with the non-injective RawBuilder the adversarial container universe DOES
   collide (array "a" element 0 = size slot of array "a\0"), so Refines must be violated.  Shows that
   the universe and the invariant can tell a colliding key scheme from a collision-free one. *)
EXTENDS Containers
ViewNoHist == <<store, arr, dict, var, snap, sideal, Len(hist)>>
====
