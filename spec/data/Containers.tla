----------------------------- MODULE Containers -----------------------------
(* Contract storage containers (common/containerdb: ArrayDB, DictDB, VarDB) over ONE shared
   key/value store, one action per public call.  Two views of the same system:
     - the concrete one transcribes arraydb.go / dictdb.go: every access builds a storage key
       with the container's key builder (KeyCodec!Out) and reads/writes `store`;
     - the ideal one is what a contract author expects: an array is a sequence, a dictionary
       a map, a variable a cell, all independent of each other.
   The containers are chosen adversarially close (same name for an array and a depth-2
   dictionary, names that collide under plain concatenation, empty names, the empty path) but
   with pairwise distinct *paths*; the property is that the concrete system refines the
   ideal one: results agree and the store holds exactly the ideal contents. *)
EXTENDS KeyCodec
CONSTANTS Vals,           \* abstract stored values (positive integers)
          MaxLen,         \* maximum array length
          MaxOps,
          BType,          \* key builder type of all containers: "hash" | "phash" | "rlp" | "raw"
          Universe,       \* "adv": adversarially named containers built with ToKey/NewHashKey;  "scoredb": the containers of
                          \* system SCOREs (service/scoredb): every path starts with the type part 0x00 array / 0x01 dict / 0x02 var,
                          \* so an array, a dictionary and a variable may all have the SAME name
          BRawId,         \* raw (contract) prefix: "" none | "p" one byte | "adr" a 21-byte contract address
          Deep,           \* BOOLEAN: the universe also has a dictionary of depth 3 (sub-dictionaries through GetDB with one key,
                          \* two keys at once, or two chained calls; values written and read through every intermediate handle)
          Snaps,          \* BOOLEAN: a read-only snapshot of the store may be taken (scoredb.NewStateStoreWith / containerdb.
                          \* NewBytesStoreStateWithSnapshot) and containers opened on it: they read the frozen contents, writes fail
          Proj(_)         \* store projection logged after every step (FullProj in generators, NoProj when checking)
None == 0
BRaw == CASE BRawId = "" -> <<>> [] BRawId = "p" -> <<112>> [] BRawId = "adr" -> <<1>> \o Fill(20, 171)

VARIABLES store,          \* concrete: function  built key -> entry [t |-> "size"|"val", v |-> n]
          arr, dict, var, \* ideal contents
          snap,           \* [on, s]: the frozen store of the latest snapshot
          sideal,         \* ideal contents <<arr, dict, var>> at the time of the snapshot
          hist
vars == <<store, arr, dict, var, snap, sideal, hist>>

\* ---- the container universe ---------------------------------------------------------
a == <<97>>
Arrays == {"A1", "A2"}
Dicts == IF Deep THEN {"D1", "D2", "D3"} ELSE {"D1", "D2"}
Vars == {"V1", "V2"}
Base(c) ==
  IF Universe = "scoredb"
  THEN CASE c = "A1" -> <<<<0>>, a>>                 \* scoredb.NewArrayDB(store, "a")
         [] c = "A2" -> <<<<0>>, a \o <<0>>>>        \* scoredb.NewArrayDB(store, "a\0")
         [] c = "D1" -> <<<<1>>, a>>                 \* scoredb.NewDictDB(store, "a", 2)
         [] c = "D2" -> <<<<1>>, <<>>>>              \* scoredb.NewDictDB(store, "", 1)
         [] c = "D3" -> <<<<1>>, a \o a>>            \* scoredb.NewDictDB(store, "aa", 3)
         [] c = "V1" -> <<<<2>>, a>>                 \* scoredb.NewVarDB(store, "a")
         [] c = "V2" -> <<<<2>>, a, <<0>>>>          \* scoredb.NewVarDB(store, "a", 0)
  ELSE CASE c = "A1" -> <<a>>                 \* array  "a":      size at (a), elements at (a, i)
         [] c = "A2" -> <<a \o <<0>>>>        \* array  "a\0":    collides with A1[0] under plain concatenation
         [] c = "D1" -> <<a>>                 \* dict   "a", depth 2: entries at (a, k1, k2)
         [] c = "D2" -> <<<<>>>>              \* dict   "",  depth 1: entries at ("", k)
         [] c = "D3" -> <<<<0>>>>             \* dict   "\0", depth 3: entries at ("\0", k1, k2, k3)
         [] c = "V1" -> <<<<>>, <<>>, <<>>>>  \* var at ("", "", "")
         [] c = "V2" -> <<>>                  \* var at the empty path
DepthOf(d) == CASE d = "D1" -> 2 [] d = "D2" -> 1 [] d = "D3" -> 3
\* how a dictionary entry is reached: the sizes of the key groups handed to successive GetDB calls before the final
\* Get/Set/Delete takes the remaining keys: <<>> direct, <<1>> GetDB(k1), <<2>> GetDB(k1, k2), <<1, 1>> GetDB(k1).GetDB(k2)
ViaOpts(d) == CASE DepthOf(d) = 1 -> {<<>>} [] DepthOf(d) = 2 -> {<<>>, <<1>>} [] DepthOf(d) = 3 -> {<<>>, <<1>>, <<2>>, <<1, 1>>}
DKeys == {<<>>, <<0>>}                             \* dictionary keys: "" and 0 (= array index 0 as bytes)
KeySeqs(n) == [1..n -> DKeys]
Cap(c) == IF c = "A1" THEN MaxLen ELSE MaxLen - 1

Key(path) == Out([type |-> BType, raw |-> BRaw, parts |-> path])
Size(v) == [t |-> "size", v |-> v]
Val(v) == [t |-> "val", v |-> v]

\* ---- concrete store helpers ---------------------------------------------------------
Has(s, k) == k \in DOMAIN s
Put(s, k, e) == [x \in DOMAIN s \cup {k} |-> IF x = k THEN e ELSE s[x]]
Del(s, k) == [x \in DOMAIN s \ {k} |-> s[x]]
GetV(s, k) == IF Has(s, k) THEN s[k].v ELSE None          \* Value getter: nil -> 0
CSize(s, c) == GetV(s, Key(Base(c)))                        \* ArrayDB.Size(): a.size.Int64()
EKey(c, i) == Key(Base(c) \o <<IntPart(i)>>)

\* ---- ideal store: what the store must contain, given the ideal contents -------------
IdealPairsOf(ar, di, va) ==
  LET elems == {p \in {<<c, i>> : c \in Arrays, i \in 1..MaxLen} : p[2] <= Len(ar[p[1]])} IN
  {<<Key(Base(c)), Size(Len(ar[c]))>> : c \in {x \in Arrays : Len(ar[x]) > 0}}
  \cup {<<EKey(p[1], p[2] - 1), Val(ar[p[1]][p[2]])>> : p \in elems}
  \cup UNION {{<<Key(Base(d) \o ks), Val(di[d][ks])>> : ks \in {x \in KeySeqs(DepthOf(d)) : di[d][x] # None}} : d \in Dicts}
  \cup {<<Key(Base(v)), Val(va[v])>> : v \in {x \in Vars : va[x] # None}}
IdealStorePairs == IdealPairsOf(arr, dict, var)
StorePairs(s) == {<<k, s[k]>> : k \in DOMAIN s}

Rec(op, c, i, ks, v, via) == [op |-> op, c |-> c, i |-> i, ks |-> ks, v |-> v, via |-> via,
                              kb |-> [type |-> BType, raw |-> BRaw, parts |-> Base(c)], api |-> Universe]   \* the container's key builder
\* res = result predicted from the concrete transcription, ires = result of the ideal container
FullProj(s) == {[k |-> k, e |-> s[k]] : k \in DOMAIN s}
NoProj(s) == {}
LogOnly(r, res, ires) == hist' = Append(hist, r @@ [res |-> res, ires |-> ires, store |-> Proj(store')])
Log(r, res, ires) == LogOnly(r, res, ires) /\ UNCHANGED <<snap, sideal>>

Init == /\ store = << >>
        /\ arr = [c \in Arrays |-> <<>>]
        /\ dict = [d \in Dicts |-> [ks \in KeySeqs(DepthOf(d)) |-> None]]
        /\ var = [v \in Vars |-> None]
        /\ snap = [on |-> FALSE, s |-> << >>] /\ sideal = <<>>
        /\ hist = <<>>

\* ---- ArrayDB ------------------------------------------------------------------------
ArrPut(c, v) ==
  /\ Len(arr[c]) < Cap(c)
  /\ LET idx == CSize(store, c)
         s1 == Put(store, EKey(c, idx), Val(v)) IN
     store' = Put(s1, Key(Base(c)), Size(idx + 1))
  /\ arr' = [arr EXCEPT ![c] = Append(@, v)]
  /\ UNCHANGED <<dict, var>>
  /\ Log(Rec("put", c, 0, <<>>, v, <<>>), "ok", "ok")
ArrPop(c) ==
  LET idx == CSize(store, c) IN
  /\ IF idx = 0 THEN UNCHANGED store
     ELSE LET s1 == Del(store, EKey(c, idx - 1)) IN
          store' = IF idx > 1 THEN Put(s1, Key(Base(c)), Size(idx - 1)) ELSE Del(s1, Key(Base(c)))
  /\ arr' = [arr EXCEPT ![c] = IF @ = <<>> THEN @ ELSE SubSeq(@, 1, Len(@) - 1)]
  /\ UNCHANGED <<dict, var>>
  /\ Log(Rec("pop", c, 0, <<>>, None, <<>>),
         IF idx = 0 THEN None ELSE GetV(store, EKey(c, idx - 1)),
         IF arr[c] = <<>> THEN None ELSE arr[c][Len(arr[c])])
ArrSet(c, i, v) ==
  LET ok == i < CSize(store, c) IN
  /\ store' = IF ok THEN Put(store, EKey(c, i), Val(v)) ELSE store
  /\ arr' = IF i < Len(arr[c]) THEN [arr EXCEPT ![c][i + 1] = v] ELSE arr
  /\ UNCHANGED <<dict, var>>
  /\ Log(Rec("aset", c, i, <<>>, v, <<>>), IF ok THEN "ok" ELSE "error", IF i < Len(arr[c]) THEN "ok" ELSE "error")
ArrGet(c, i) ==
  /\ UNCHANGED <<store, arr, dict, var>>
  /\ Log(Rec("aget", c, i, <<>>, None, <<>>), GetV(store, EKey(c, i)), IF i < Len(arr[c]) THEN arr[c][i + 1] ELSE None)
ArrSize(c) ==
  /\ UNCHANGED <<store, arr, dict, var>>
  /\ Log(Rec("size", c, 0, <<>>, None, <<>>), CSize(store, c), Len(arr[c]))

\* ---- DictDB (via = TRUE: through GetDB(k1) for the depth-2 dictionary) ---------------
DictSet(d, ks, v, via) ==
  /\ store' = Put(store, Key(Base(d) \o ks), Val(v))
  /\ dict' = [dict EXCEPT ![d][ks] = v]
  /\ UNCHANGED <<arr, var>>
  /\ Log(Rec("dset", d, 0, ks, v, via), "ok", "ok")
DictDelete(d, ks, via) ==
  /\ store' = Del(store, Key(Base(d) \o ks))
  /\ dict' = [dict EXCEPT ![d][ks] = None]
  /\ UNCHANGED <<arr, var>>
  /\ Log(Rec("ddel", d, 0, ks, None, via), "ok", "ok")
DictGet(d, ks, via) ==
  /\ UNCHANGED <<store, arr, dict, var>>
  /\ Log(Rec("dget", d, 0, ks, None, via), GetV(store, Key(Base(d) \o ks)), dict[d][ks])
\* wrong number of keys: Set/Delete fail, Get and GetDB return nil, nothing changes
DictBadArity(d, ks, op) ==
  /\ UNCHANGED <<store, arr, dict, var>>
  /\ LET r == IF op \in {"dget", "getdb"} THEN None ELSE "error" IN Log(Rec(op, d, 0, ks, 1, <<>>), r, r)

\* ---- VarDB --------------------------------------------------------------------------
VarSet(x, v) ==
  /\ store' = Put(store, Key(Base(x)), Val(v))
  /\ var' = [var EXCEPT ![x] = v]
  /\ UNCHANGED <<arr, dict>>
  /\ Log(Rec("vset", x, 0, <<>>, v, <<>>), "ok", "ok")
VarDelete(x) ==
  /\ store' = Del(store, Key(Base(x)))
  /\ var' = [var EXCEPT ![x] = None]
  /\ UNCHANGED <<arr, dict>>
  /\ Log(Rec("vdel", x, 0, <<>>, None, <<>>), GetV(store, Key(Base(x))), var[x])   \* Delete returns the old value
VarGet(x) ==
  /\ UNCHANGED <<store, arr, dict, var>>
  /\ Log(Rec("vget", x, 0, <<>>, None, <<>>), GetV(store, Key(Base(x))), var[x])

\* ---- read-only snapshot ------------------------------------------------------------
OnSnap(r) == r @@ [on |-> "snap"]
Freeze ==
  /\ Snaps /\ snap' = [on |-> TRUE, s |-> store] /\ sideal' = <<arr, dict, var>>
  /\ UNCHANGED <<store, arr, dict, var>>
  /\ LogOnly(Rec("freeze", "A1", 0, <<>>, None, <<>>), "ok", "ok")     \* (the container name is a dummy)
\* reads on containers opened on the snapshot see the frozen contents, whatever was written to the live store since
SnapRead(op, c, i, ks) ==
  /\ snap.on /\ UNCHANGED <<store, arr, dict, var>>
  /\ LET sa == sideal[1] sd == sideal[2] sv == sideal[3] IN
     Log(OnSnap(Rec(op, c, i, ks, None, <<>>)),
         CASE op = "aget" -> GetV(snap.s, EKey(c, i)) [] op = "size" -> CSize(snap.s, c)
           [] op = "dget" -> GetV(snap.s, Key(Base(c) \o ks)) [] op = "vget" -> GetV(snap.s, Key(Base(c))),
         CASE op = "aget" -> (IF i < Len(sa[c]) THEN sa[c][i + 1] ELSE None) [] op = "size" -> Len(sa[c])
           [] op = "dget" -> sd[c][ks] [] op = "vget" -> sv[c])
\* writes through a snapshot store fail and change nothing (Pop is left out: ArrayDB.Pop panics when the store refuses)
SnapWrite(op, c, i, ks, v) ==
  /\ snap.on /\ UNCHANGED <<store, arr, dict, var>>
  /\ Log(OnSnap(Rec(op, c, i, ks, v, <<>>)), "error", "error")
AnySnapRead == \/ \E c \in Arrays, i \in 0..MaxLen : SnapRead("aget", c, i, <<>>)
               \/ \E c \in Arrays : SnapRead("size", c, 0, <<>>)
               \/ \E d \in Dicts : \E ks \in KeySeqs(DepthOf(d)) : SnapRead("dget", d, 0, ks)
               \/ \E x \in Vars : SnapRead("vget", x, 0, <<>>)
AnySnapWrite == \/ \E c \in Arrays, v \in Vals : SnapWrite("put", c, 0, <<>>, v)
                \/ \E c \in Arrays, v \in Vals : SnapWrite("aset", c, 0, <<>>, v)
                \/ \E d \in Dicts, v \in Vals : \E ks \in KeySeqs(DepthOf(d)) : SnapWrite("dset", d, 0, ks, v)
                \/ \E d \in Dicts : \E ks \in KeySeqs(DepthOf(d)) : SnapWrite("ddel", d, 0, ks, None)
                \/ \E x \in Vars, v \in Vals : SnapWrite("vset", x, 0, <<>>, v)
                \/ \E x \in Vars : SnapWrite("vdel", x, 0, <<>>, None)

Can == Len(hist) < MaxOps
\* (the bound is tested before the arguments are enumerated)
AnyDictSet == \E d \in Dicts, v \in Vals : \E ks \in KeySeqs(DepthOf(d)), via \in ViaOpts(d) : DictSet(d, ks, v, via)
AnyDictDelete == \E d \in Dicts : \E ks \in KeySeqs(DepthOf(d)), via \in ViaOpts(d) : DictDelete(d, ks, via)
AnyDictGet == \E d \in Dicts : \E ks \in KeySeqs(DepthOf(d)), via \in ViaOpts(d) : DictGet(d, ks, via)
AnyDictBadArity == \E d \in Dicts, op \in {"dset", "ddel", "dget", "getdb"} : \E n \in DepthOf(d) - 1 .. DepthOf(d) + 1 :
                      \E ks \in KeySeqs(n) : (IF op = "getdb" THEN n >= DepthOf(d) ELSE n # DepthOf(d)) /\ DictBadArity(d, ks, op)
Next == \/ Can /\ \E c \in Arrays, v \in Vals : ArrPut(c, v)
        \/ Can /\ \E c \in Arrays : ArrPop(c)
        \/ Can /\ \E c \in Arrays, i \in 0..MaxLen, v \in Vals : ArrSet(c, i, v)
        \/ Can /\ \E c \in Arrays, i \in 0..MaxLen : ArrGet(c, i)
        \/ Can /\ \E c \in Arrays : ArrSize(c)
        \/ Can /\ AnyDictSet
        \/ Can /\ AnyDictDelete
        \/ Can /\ AnyDictGet
        \/ Can /\ AnyDictBadArity
        \/ Can /\ \E x \in Vars, v \in Vals : VarSet(x, v)
        \/ Can /\ \E x \in Vars : VarDelete(x)
        \/ Can /\ \E x \in Vars : VarGet(x)
        \/ Can /\ Freeze
        \/ Can /\ AnySnapRead
        \/ Can /\ AnySnapWrite
Spec == Init /\ [][Next]_vars

----------------------------------------------------------------------------
(* Properties (C21, container part) *)
\* all storage paths of the universe, as part tuples
Paths == {Base(c) : c \in Arrays} \cup {Base(c) \o <<IntPart(i)>> : c \in Arrays, i \in 0..MaxLen}
         \cup UNION {{Base(d) \o ks : ks \in KeySeqs(DepthOf(d))} : d \in Dicts}
         \cup {Base(v) : v \in Vars}
NPaths == 2 + 2 * (MaxLen + 1) + 4 + 2 + 2 + (IF Deep THEN 8 ELSE 0)
\* the universe has pairwise distinct paths (otherwise containers alias by design) ...
PathsDistinct == Cardinality(Paths) = NPaths
\* ... and distinct paths have distinct storage keys
KeysDistinct == Cardinality({Key(p) : p \in Paths}) = NPaths
\* the concrete store holds exactly the ideal contents: no entry lost, overwritten or leaked
Refines == /\ StorePairs(store) = IdealStorePairs
           /\ snap.on => StorePairs(snap.s) = IdealPairsOf(sideal[1], sideal[2], sideal[3])
\* every result equals the result of an independent array / map / cell
ResultsIdeal == [][hist' # hist => hist'[Len(hist')].res = hist'[Len(hist')].ires]_vars
=============================================================================
