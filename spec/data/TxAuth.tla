------------------------------- MODULE TxAuth -------------------------------
(* Who can authorize a transaction (service/transaction/transaction_v3.go:verifySignature,
   common/crypto/signature.go, common/signature.go).  Cryptography is symbolic:
     - Sign(k, m) is the term [k, m] decorated with how its 65-byte wire form [R|S|V] was
       treated afterwards (V changed, a bit of R or S flipped, S negated mod N, truncated ...);
     - recovering the public key from a signature and a message hash yields the signer's key k
       iff the term is (an equivalent of) an untouched Sign(k, m') with m' = the message;
       anything else yields an error or a key unrelated to every known key ("stranger");
     - Verify(sig, m, pub) (no recovery, V ignored) holds iff R,S are (an equivalent of) k's over m.
   Submit = Transaction.Verify(): accepted iff the recovered key's account address equals the
   `from` field, all 21 address bytes.  One action per call. *)
EXTENDS Integers, Sequences, FiniteSets, TLC
CONSTANTS DTypes,         \* data types of version-3 transactions: "none" (plain transfer), "message", "call", "deploy",
                          \* "deposit_add", "deposit_withdraw", "patch" -- each with the minimal well-formed data its own checks in
                          \* Verify() demand; the signature rule is the same for every one of them
          TxKinds,        \* transaction formats with a signature: "v3", "v2" (same rule: verifySignature of either)
          Keys,           \* key pairs, e.g. {"k1", "k2"}
          Msgs,           \* message hashes (transaction ids), e.g. {"this", "other"}
          VForms, RForms, SForms, Lens,   \* signature treatments (see below)
          FromForms,      \* how the from field relates to the claimed sender's address
          HashLens,       \* lengths of the message hash given to the primitives
          MaxTreat,       \* at most this many simultaneous treatments of one signature (4 = all combinations)
          MaxOps
\* VForms: "ok" | "flip" (0<->1) | "hi" (+2: x-overflow flag) | "comp" (+4: the compact format's "compressed
\*         public key" flag, same recovery id, hence the same key) | "bad" (>= 8)
\* RForms: "ok" | "flip" (one bit);  SForms: "ok" | "flip" | "neg" (N - S: the malleable twin)
\* Lens:   65 | 64 (no V) | 63 | 66 | 0 (empty string)
\* FromForms: "addr" (the account address of the key) | "lastbyte" / "firstbyte" (one id byte differs) |
\*            "contract" (same 20 id bytes, contract type)
\* HashLens: 32 | 31 | 1 (accepted by the primitives) | 0 | 33 (rejected)

VARIABLES hist
vars == <<hist>>

Sig(k, m, v, r, s, len) == [k |-> k, m |-> m, v |-> v, r |-> r, s |-> s, len |-> len]
B2N(b) == IF b THEN 1 ELSE 0
Treats(sg) == B2N(sg.v # "ok") + B2N(sg.r # "ok") + B2N(sg.s # "ok") + B2N(sg.len # 65)
Sigs == {sg \in {Sig(k, m, v, r, s, len) : k \in Keys, m \in Msgs, v \in VForms, r \in RForms, s \in SForms, len \in Lens} :
           Treats(sg) <= MaxTreat}
\* the wire form parses (ParseSignature: 64 or 65 bytes; the JSON/RLP decoders reject other non-empty lengths)
Parses(sg) == sg.len \in {64, 65, 0}
\* R,S still are (an equivalent of) the signer's R,S
RSGood(sg) == sg.r = "ok" /\ sg.s \in {"ok", "neg"}
\* the recovery flag matches R,S: negating S mirrors the curve point, so it needs the flipped flag
VGood(sg) == (sg.s = "ok" /\ sg.v \in {"ok", "comp"}) \/ (sg.s = "neg" /\ sg.v = "flip")
\* RecoverPublicKey(sig, m): the signer, an error, or a stranger (a key nobody holds)
Recover(sg, m, hlen) ==
  IF sg.len # 65 \/ hlen \notin {1, 31, 32} THEN "error"                   \* no V / illegal hash length
  ELSE IF sg.v = "bad" THEN "error"
  ELSE IF RSGood(sg) /\ VGood(sg) /\ sg.m = m /\ hlen = 32 THEN sg.k
  ELSE "stranger-or-error"
\* Signature.Verify(msg, pub)
VerifyWith(sg, m, k, hlen) ==
  sg.len \in {64, 65} /\ hlen \in {1, 31, 32} /\ RSGood(sg) /\ sg.m = m /\ sg.k = k /\ hlen = 32
Untouched(sg) == sg.v = "ok" /\ sg.r = "ok" /\ sg.s = "ok" /\ sg.len = 65
\* definite predictions vs. library latitude: s = "neg" relies on the library accepting high-S values, v = "comp" on
\* its accepting the compressed-key flag; rejecting those equivalent encodings would be stricter, not wrong
Definite(sg) == sg.s # "neg" /\ sg.v # "comp"

\* data types whose own checks in Verify() fail, whatever the signature: call without data / without a method, deploy without
\* data / with a value, patch without data / of an unknown type, deposit without data, negative value or step limit
IllFormed == {"call_nodata", "call_nomethod", "deploy_nodata", "deploy_value", "patch_nodata", "patch_badtype", "deposit_nodata",
              "neg_value", "neg_step"}
\* Transaction.Verify() of a transaction with id m, from field derived from key `claimed`, carrying sg
Accepts(claimed, ff, m, sg) ==
  /\ Parses(sg) /\ sg.len = 65
  /\ Recover(sg, m, 32) = claimed                \* the recovered key is the claimed sender's ...
  /\ ff = "addr"                                 \* ... and the from field is exactly its account address

Rec(op, claimed, ff, m, sg, k, hlen, res, definite) ==
  [kind |-> "", dt |-> "none", op |-> op, claimed |-> claimed, ff |-> ff, m |-> m, sig |-> sg, k |-> k, hlen |-> hlen, res |-> res, definite |-> definite]
NoSig == Sig("", "", "ok", "ok", "ok", 65)
Init == hist = <<>>
Can == Len(hist) < MaxOps
\* a transaction with id m claims sender `claimed` (from field in form ff) and carries signature sg
\* (version 2 has no data types; the full product of signature treatments is enumerated for plain transfers, the
\* other data types get the untouched signature and every single treatment)
Submit(kind, dt, claimed, ff, m, sg) ==
  /\ kind = "v2" => dt = "none"
  /\ dt # "none" => Treats(sg) <= 1
  /\ hist' = Append(hist, [Rec("submit", claimed, ff, m, sg, "", 32,
                               IF ~Parses(sg) THEN "reject-parse" ELSE IF Accepts(claimed, ff, m, sg) /\ dt \notin IllFormed THEN "accept" ELSE "reject",
                               Definite(sg) \/ ~Accepts(claimed, ff, m, sg) \/ dt \in IllFormed) EXCEPT !.kind = kind, !.dt = dt])
\* crypto.NewSignature(hash, key) then RecoverPublicKey(hash') and Verify(hash', pub)
RecoverOp(sg, m, hlen) ==
  /\ Parses(sg) /\ sg.len # 0
  /\ hist' = Append(hist, Rec("recover", "", "addr", m, sg, "", hlen, Recover(sg, m, hlen), Definite(sg)))
VerifyOp(sg, m, k, hlen) ==
  /\ Parses(sg) /\ sg.len # 0
  /\ hist' = Append(hist, Rec("verify", "", "addr", m, sg, k, hlen, VerifyWith(sg, m, k, hlen), Definite(sg)))
\* serialization round trips of an untouched signature: [R|S|V], [V|R|S], [R|S] (loses V)
RoundTrip(k, m, fmt) ==
  /\ hist' = Append(hist, Rec("roundtrip", "", "addr", m, Sig(k, m, "ok", "ok", "ok", IF fmt = "rs" THEN 64 ELSE 65), fmt, 32,
                              IF fmt = "rs" THEN "error" ELSE k, TRUE))       \* res: what Recover yields afterwards

\* (the bound is tested before the arguments are enumerated)
Next == \/ Can /\ \E kd \in TxKinds, dt \in DTypes, c \in Keys, ff \in FromForms, m \in Msgs, sg \in Sigs : Submit(kd, dt, c, ff, m, sg)
        \/ Can /\ \E sg \in Sigs, m \in Msgs, h \in HashLens : RecoverOp(sg, m, h)
        \/ Can /\ \E sg \in Sigs, m \in Msgs, k \in Keys, h \in HashLens : VerifyOp(sg, m, k, h)
        \/ Can /\ \E k \in Keys, m \in Msgs, f \in {"rsv", "vrs", "rs"} : RoundTrip(k, m, f)
Spec == Init /\ [][Next]_vars

\* ---- histories on ONE process: the same transaction content (same id) verified again with another signature ---------
\* Verify() must judge every call on its own arguments: an earlier accepted verification of a transaction with this id
\* (e.g. a cache of verified ids) must not let a same-id twin with a foreign / malformed / missing signature pass,
\* and an earlier rejection must not block the genuine one.  First call: any well-formed submission with an untreated signature
\* (by the sender or a foreign key, over this id or another: accepted or rejected); second call: the SAME kind, data type, sender, from form and id with another signature.
Resubmit(sg2) ==
  LET f == hist[1] IN
  /\ hist' = Append(hist, [Rec("submit", f.claimed, f.ff, f.m, sg2, "", 32,
                               IF ~Parses(sg2) THEN "reject-parse" ELSE IF Accepts(f.claimed, f.ff, f.m, sg2) THEN "accept" ELSE "reject",
                               Definite(sg2) \/ ~Accepts(f.claimed, f.ff, f.m, sg2))
                           EXCEPT !.kind = f.kind, !.dt = f.dt] @@ [twin |-> TRUE])
TwinNext ==
  \/ /\ Len(hist) = 0
     /\ \E kd \in TxKinds, dt \in DTypes \ IllFormed, c \in Keys, m \in Msgs, sg \in Sigs :
           Treats(sg) = 0 /\ Submit(kd, dt, c, "addr", m, sg)
  \/ /\ Len(hist) = 1
     /\ \E sg2 \in Sigs : Treats(sg2) <= 1 /\ Resubmit(sg2)
TwinSpec == Init /\ [][TwinNext]_vars

----------------------------------------------------------------------------
(* Properties (C13) *)
Twin(sg) == sg.v = "flip" /\ sg.r = "ok" /\ sg.s = "neg" /\ sg.len = 65     \* the (R, N-S, V') twin of an untouched signature
CompFlag(sg) == sg.v = "comp" /\ sg.r = "ok" /\ sg.s = "ok" /\ sg.len = 65  \* same R, S, recovery id; only the key-format flag set
\* only the sender's key authorizes: an accepted transaction carries a signature made with the claimed sender's key
\* over exactly this transaction's id (or its malleable twin), and its from field is that key's account address
OnlySender ==
  \A i \in 1..Len(hist) :
     (hist[i].op = "submit" /\ hist[i].res = "accept") =>
        /\ hist[i].sig.k = hist[i].claimed /\ hist[i].sig.m = hist[i].m /\ hist[i].ff = "addr"
        /\ (Untouched(hist[i].sig) \/ Twin(hist[i].sig) \/ CompFlag(hist[i].sig))
\* ... for every data type: each one was submitted with a foreign key, over another id, with a near-miss from field and
\* with every single malformation, and (by OnlySender) none of those rows is predicted "accept"
EveryTypeGuarded ==
  \A i \in 1..Len(hist) :
     (hist[i].op = "submit" /\ (hist[i].sig.k # hist[i].claimed \/ hist[i].sig.m # hist[i].m \/ hist[i].ff # "addr")) => hist[i].res # "accept"
\* an ill-formed payload is never accepted, not even with the sender's genuine signature
IllFormedRejected == \A i \in 1..Len(hist) : (hist[i].op = "submit" /\ hist[i].dt \in IllFormed) => hist[i].res # "accept"
\* and the genuine signature is always accepted
SenderAccepted ==
  \A i \in 1..Len(hist) :
     (hist[i].op = "submit" /\ Untouched(hist[i].sig) /\ hist[i].sig.k = hist[i].claimed /\ hist[i].sig.m = hist[i].m
        /\ hist[i].ff = "addr" /\ hist[i].dt \notin IllFormed) => hist[i].res = "accept"
\* no memory: in every history the verdict of a submission is the one its own arguments give, whatever was verified before
NoMemory ==
  \A i \in 1..Len(hist) :
     hist[i].op = "submit" =>
        (hist[i].res = "accept") = (Parses(hist[i].sig) /\ Accepts(hist[i].claimed, hist[i].ff, hist[i].m, hist[i].sig) /\ hist[i].dt \notin IllFormed)
\* signing and recovery round-trip for every key and message
RoundTrips ==
  \A i \in 1..Len(hist) :
     /\ (hist[i].op = "recover" /\ Untouched(hist[i].sig) /\ hist[i].sig.m = hist[i].m /\ hist[i].hlen = 32) => hist[i].res = hist[i].sig.k
     /\ (hist[i].op = "recover" /\ hist[i].res \in Keys) => (hist[i].res = hist[i].sig.k /\ hist[i].sig.m = hist[i].m)
     /\ (hist[i].op = "verify" /\ hist[i].res = TRUE) => (hist[i].k = hist[i].sig.k /\ hist[i].sig.m = hist[i].m /\ RSGood(hist[i].sig))
=============================================================================
