SPECIFICATION Spec
CONSTANTS
  BloomIds = {"r1", "r2", "blk"}
  Block = "blk"
  AddrIds = {"a1", "a2"}
  ValIds = {"x", "e"}
  MaxPos = 1
  Kinds = {"compress", "bytes", "logbytes", "json", "rlp"}
  Prefill = FALSE
  Reads = TRUE
  MaxOps = 1000
  Proj <- NoProj
VIEW ViewState
INVARIANTS NoFalseNegative Exact
PROPERTIES QueriesSound MergeKeeps CollectCovers NoStaleSerialization Monotone
