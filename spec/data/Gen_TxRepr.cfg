SPECIFICATION Spec
CONSTANTS
  ValueOpts = {"absent", "a", "a_lz"}
  NidOpts = {"absent", "1"}
  NonceOpts = {"absent", "1"}
  StepOpts = {"1f4"}
  TsOpts = {"icx"}
  FromOpts = {"canon"}
  ToOpts = {"canon", "cx"}
  DataOpts = {"absent", "hex"}
  DTypeOpts = {"absent", "message"}
  MemoOpts = {FALSE}
  HashOpts = {FALSE}
  Starts = {"json", "rlp"}
  MaxOps = 4
  Depth = 4
  Compare = TRUE
INVARIANT Emit
