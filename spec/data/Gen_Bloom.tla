---- MODULE Gen_Bloom ----
EXTENDS Bloom, Json
CONSTANT Depth
Emit == (Len(hist) = Depth) => PrintT(<<"B", ToJson(hist)>>)
====
