------------------------------ MODULE TxReprRaw ------------------------------
(* The transaction kinds of service/transaction that exist as JSON text only: version-2
   transactions (transaction_v2.go: no "version" field, fixed fee, "tx_hash" field) and the genesis
   transaction (genesis_v3.go: "accounts" field; ICON serialization when it has "nid" or "chain",
   the legacy serialization of the ICON main net genesis otherwise).  Their stored form IS the
   compact JSON text, so every representation carries the submitted document:

      JSON --ParseJSON--> object --Bytes--> JSON bytes --ParseStored--> object --ToJSON--> JSON ...

   The id is SHA3-256 of  salt ++ serialization(document minus excluded keys)  (hash symbolic,
   serialization transcribed: serializeDict / legacySerializeMap).  Version-2 Verify() additionally
   demands fee = 10^16 loop, an EOA recipient, tx_hash = id and the sender's signature over the id.
   Address placeholders as in TxRepr (@F, @T, @UF ...); @ID = lower-case hex of the predicted id. *)
EXTENDS Integers, Sequences, FiniteSets, TLC
CONSTANTS Kinds,                                   \* subset of {"v2", "gen", "genlegacy"}
          ValueOpts, FeeOpts, TsOpts, NonceOpts, MethodOpts, HashOpts, FromOpts, ToOpts,   \* version 2
          MsgOpts, NidOpts, ChainOpts, AcctOpts,   \* genesis
          MaxOps, Compare

VARIABLES desc, rep, hist
vars == <<desc, rep, hist>>

\* ---- strings / serialization (as in TxRepr) -------------------------------------------
RECURSIVE JoinS(_)
JoinS(ss) == IF ss = <<>> THEN "" ELSE Head(ss) \o JoinS(Tail(ss))
RECURSIVE JoinDot(_)
JoinDot(ss) == IF ss = <<>> THEN "" ELSE IF Len(ss) = 1 THEN ss[1] ELSE ss[1] \o "." \o JoinDot(Tail(ss))
Special == {"\\", "{", "}", "[", "]", "."}
EscChars(cs) == JoinS([i \in 1..Len(cs) |-> IF cs[i] \in Special THEN "\\" \o cs[i] ELSE cs[i]])
Str(cs) == [k |-> "str", cs |-> cs]
Null == [k |-> "null"]
List(items) == [k |-> "list", items |-> items]
Dict(es) == [k |-> "dict", es |-> es]                 \* entries in SORTED key order
E(key, val) == [key |-> key, val |-> val]
RECURSIVE SerVal(_), SerItems(_, _, _), SerEntries(_, _, _)
SerVal(t) ==
  CASE t.k = "null" -> "\\0"
    [] t.k = "str"  -> EscChars(t.cs)
    [] t.k = "list" -> "[" \o SerItems(t.items, 1, "") \o "]"
    [] t.k = "dict" -> "{" \o SerEntries(t.es, 1, "") \o "}"
SerItems(items, i, buf) ==
  IF i > Len(items) THEN buf ELSE SerItems(items, i + 1, (IF buf # "" THEN buf \o "." ELSE buf) \o SerVal(items[i]))
SerEntries(es, i, buf) ==
  IF i > Len(es) THEN buf
  ELSE SerEntries(es, i + 1, (IF buf # "" THEN buf \o "." ELSE buf) \o EscChars(es[i].key) \o "." \o SerVal(es[i].val))
\* legacySerializeValue: "." ++ string, lists and maps flattened, no escaping, no brackets
RECURSIVE Legacy(_), LegacyItems(_, _), LegacyEntries(_, _)
Legacy(t) ==
  CASE t.k = "str"  -> "." \o JoinS(t.cs)
    [] t.k = "list" -> LegacyItems(t.items, 1)
    [] t.k = "dict" -> LegacyEntries(t.es, 1)
LegacyItems(items, i) == IF i > Len(items) THEN "" ELSE Legacy(items[i]) \o LegacyItems(items, i + 1)
LegacyEntries(es, i) == IF i > Len(es) THEN "" ELSE "." \o JoinS(es[i].key) \o Legacy(es[i].val) \o LegacyEntries(es, i + 1)

C(s) == s      \* (documentation only)
Chars(k) ==    \* character sequences used below
  CASE k = "name" -> <<"n", "a", "m", "e">> [] k = "address" -> <<"a", "d", "d", "r", "e", "s", "s">>
    [] k = "balance" -> <<"b", "a", "l", "a", "n", "c", "e">> [] k = "god" -> <<"g", "o", "d">>
    [] k = "treasury" -> <<"t", "r", "e", "a", "s", "u", "r", "y">> [] k = "accounts" -> <<"a", "c", "c", "o", "u", "n", "t", "s">>
    [] k = "message" -> <<"m", "e", "s", "s", "a", "g", "e">> [] k = "nid" -> <<"n", "i", "d">>
    [] k = "chain" -> <<"c", "h", "a", "i", "n">> [] k = "revision" -> <<"r", "e", "v", "i", "s", "i", "o", "n">>
    [] k = "hxF" -> <<"h", "x", "@", "F">> [] k = "hxT" -> <<"h", "x", "@", "T">> [] k = "hxX" -> <<"h", "x", "@", "X">>
    [] k = "0x10" -> <<"0", "x", "1", "0">> [] k = "0x20" -> <<"0", "x", "2", "0">> [] k = "0x0" -> <<"0", "x", "0">>
    [] k = "0x3" -> <<"0", "x", "3">> [] k = "0x4" -> <<"0", "x", "4">> [] k = "0x5" -> <<"0", "x", "5">>
    [] k = "plain" -> <<"h", "e", "l", "l", "o", " ", "w", "o", "r", "l", "d">>
    [] k = "esc" -> <<"a", ".", "b", " ", "{", "c", "}", "[", "d", "]", "\\">>
    [] k = "other" -> <<"b", "y", "e">>

\* ---- descriptors ----------------------------------------------------------------------
V2Descs == [kind : {"v2"} \cap Kinds, value : ValueOpts, fee : FeeOpts, ts : TsOpts, nonce : NonceOpts, method : MethodOpts,
            txhash : HashOpts, from : FromOpts, to : ToOpts, fromw : {"F"}, tow : {"T"}]
GenDescs == [kind : {"gen", "genlegacy"} \cap Kinds, msg : MsgOpts, nid : NidOpts, chain : ChainOpts, acct : AcctOpts, god : {"hxF"}, bal : {"0x10"}]
\* "gen" must have nid or chain (ICON serialization); "genlegacy" has neither
Descs == V2Descs \cup {d \in GenDescs : IF d.kind = "gen" THEN (d.nid # "absent" \/ d.chain) ELSE (d.nid = "absent" /\ ~d.chain)}

\* version 2: textual forms
ValueText(o) == CASE o = "icx" -> "0xde0b6b3a7640000" [] o = "icx_lz" -> "0x0de0b6b3a7640000" [] o = "0" -> "0x0" [] o = "1f4" -> "0x1f4"
ValueNum(o) == CASE o \in {"icx", "icx_lz"} -> "0xde0b6b3a7640000" [] o = "0" -> "0x0" [] o = "1f4" -> "0x1f4"
FeeText(o) == CASE o = "fee" -> "0x2386f26fc10000" [] o = "fee_up" -> "0x2386F26FC10000" [] o = "fee_lz" -> "0x02386f26fc10000" [] o = "wrong" -> "0x2386f26fc10001"
FeeOK(o) == o \in {"fee", "fee_up", "fee_lz"}
TsText(o) == CASE o = "dec" -> "1516942975500598" [] o = "hex" -> "0x563a6cf330136" [] o = "hex2" -> "0x5d0"
TsNum(o) == CASE o \in {"dec", "hex"} -> "0x563a6cf330136" [] o = "hex2" -> "0x5d0"       \* 1516942975500598 = 0x563a6cf330136
AddrText(who, form) == CASE form = "canon" -> "hx@" \o who [] form = "upper" -> "hx@U" \o who [] form = "cx" -> "cx@" \o who
AddrCanon(who, form) == IF form = "cx" THEN "cx@" \o who ELSE "hx@" \o who
JStr(key, text) == [key |-> key, jk |-> "str", text |-> text, tree |-> Null, signed |-> TRUE]
Unsigned(e) == [e EXCEPT !.signed = FALSE]
\* JSON entries of a version-2 document in sorted key order; method / tx_hash (and signature) are not part of the id
V2Entries(d) ==
  <<JStr("fee", FeeText(d.fee)), JStr("from", AddrText(d.fromw, d.from))>>
  \o (IF d.method THEN <<Unsigned(JStr("method", "icx_sendTransaction"))>> ELSE <<>>)
  \o (IF d.nonce = "absent" THEN <<>> ELSE <<JStr("nonce", "0x" \o d.nonce)>>)
  \o <<JStr("timestamp", TsText(d.ts)), JStr("to", AddrText(d.tow, d.to))>>
  \o (CASE d.txhash = "absent" -> <<>> [] d.txhash = "ok" -> <<Unsigned(JStr("tx_hash", "@ID"))>>
        [] d.txhash = "ok0x" -> <<Unsigned(JStr("tx_hash", "0x@ID"))>> [] d.txhash = "wrong" -> <<Unsigned(JStr("tx_hash", "0x00@ID"))>>)
  \o <<JStr("value", ValueText(d.value))>>
\* genesis document as a tree
Account(name, addr, bal) == Dict(<<E(Chars("address"), Str(Chars(addr))), E(Chars("balance"), Str(Chars(bal))), E(Chars("name"), Str(Chars(name)))>>)
Accounts(d) == List((IF d.acct = "notreasury" THEN <<>> ELSE <<Account("treasury", "hxT", "0x0")>>) \o <<Account("god", d.god, d.bal)>>)
GenTree(d) == Dict(<<E(Chars("accounts"), Accounts(d))>>
                   \o (IF d.chain THEN <<E(Chars("chain"), Dict(<<E(Chars("revision"), Str(Chars("0x5")))>>))>> ELSE <<>>)
                   \o <<E(Chars("message"), Str(Chars(d.msg)))>>
                   \o (IF d.nid = "absent" THEN <<>> ELSE <<E(Chars("nid"), Str(Chars(d.nid)))>>))
GenEntries(d) == LET t == GenTree(d) IN [i \in 1..Len(t.es) |-> [key |-> JoinS(t.es[i].key), jk |-> "tree", text |-> "", tree |-> t.es[i].val, signed |-> TRUE]]
Entries(d) == IF d.kind = "v2" THEN V2Entries(d) ELSE GenEntries(d)

\* ---- ids -------------------------------------------------------------------------------
SignedOf(es) == SelectSeq(es, LAMBDA e : e.signed)
Pre(d) ==
  CASE d.kind = "v2" -> LET es == SignedOf(V2Entries(d)) IN "icx_sendTransaction." \o JoinDot([i \in 1..Len(es) |-> es[i].key \o "." \o es[i].text])
    [] d.kind = "gen" -> "genesis_tx." \o SerEntries(GenTree(d).es, 1, "")
    [] d.kind = "genlegacy" -> LET s == Legacy(GenTree(d)) IN "genesis_tx" \o s      \* the leading "." of the flattening is the separator
\* Verify(): version 2 rules; genesis needs the god and treasury accounts
Verdict(d) ==
  IF d.kind = "v2" THEN (IF FeeOK(d.fee) /\ d.to # "cx" /\ d.txhash \in {"ok", "ok0x"} THEN "accept" ELSE "reject")
  ELSE (IF d.acct = "notreasury" THEN "reject" ELSE "accept")
Obs(d) == IF d.kind = "v2"
          THEN [from |-> AddrCanon(d.fromw, d.from), to |-> AddrCanon(d.tow, d.to), value |-> ValueNum(d.value), ts |-> TsNum(d.ts),
                nonce |-> IF d.nonce = "absent" THEN "" ELSE "0x" \o d.nonce, version |-> 2, nid |-> ""]
          ELSE [from |-> "", to |-> "", value |-> "", ts |-> "0x0", nonce |-> "", version |-> 3, nid |-> IF d.nid = "absent" THEN "" ELSE JoinS(Chars(d.nid))]

\* ---- representation machine --------------------------------------------------------------
Rec(op, r) == [op |-> op, rep |-> r, pre |-> Pre(desc)]
Init == /\ desc \in Descs
        /\ rep = "json"
        /\ hist = <<[op |-> "start", rep |-> "json", pre |-> Pre(desc), desc |-> desc, render |-> Entries(desc), obs |-> Obs(desc),
                     verdict |-> Verdict(desc)]>>
Can == Len(hist) <= MaxOps /\ hist[Len(hist)].op # "compare"
\* NewTransactionFromJSON (genesis also: NewGenesisTransaction)
ParseJSON == /\ Can /\ rep = "json" /\ rep' = "obj" /\ hist' = Append(hist, Rec("parsejson", "obj")) /\ UNCHANGED desc
\* Bytes(): the compact JSON text
Bytes == /\ Can /\ rep = "obj" /\ rep' = "bytes" /\ hist' = Append(hist, Rec("bytes", "bytes")) /\ UNCHANGED desc
\* NewTransaction(bytes)
ParseStored == /\ Can /\ rep = "bytes" /\ rep' = "obj" /\ hist' = Append(hist, Rec("parsestored", "obj")) /\ UNCHANGED desc
\* ToJSON(): the document again
ToJSON == /\ Can /\ rep = "obj" /\ rep' = "json" /\ hist' = Append(hist, Rec("tojson", "json")) /\ UNCHANGED desc

\* single-field changes: signed fields change the id, excluded fields (method, tx_hash) do not
Changes ==
  IF desc.kind = "v2"
  THEN {[what |-> "value", d |-> [desc EXCEPT !.value = IF @ = "1f4" THEN "0" ELSE "1f4"], same |-> FALSE],
        [what |-> "fee", d |-> [desc EXCEPT !.fee = IF @ = "wrong" THEN "fee" ELSE "wrong"], same |-> FALSE],
        [what |-> "timestamp", d |-> [desc EXCEPT !.ts = IF @ = "hex2" THEN "dec" ELSE "hex2"], same |-> FALSE],
        [what |-> "nonce", d |-> [desc EXCEPT !.nonce = IF @ = "1" THEN "absent" ELSE "1"], same |-> FALSE],
        [what |-> "from", d |-> [desc EXCEPT !.fromw = "X"], same |-> FALSE],
        [what |-> "to", d |-> [desc EXCEPT !.tow = "X"], same |-> FALSE],
        [what |-> "method", d |-> [desc EXCEPT !.method = ~@], same |-> TRUE],
        [what |-> "tx_hash", d |-> [desc EXCEPT !.txhash = IF @ = "absent" THEN "wrong" ELSE "absent"], same |-> TRUE]}
  ELSE {[what |-> "message", d |-> [desc EXCEPT !.msg = IF @ = "other" THEN "plain" ELSE "other"], same |-> FALSE],
        [what |-> "balance", d |-> [desc EXCEPT !.bal = "0x20"], same |-> FALSE],
        [what |-> "god", d |-> [desc EXCEPT !.god = "hxX"], same |-> FALSE]}
       \cup (IF desc.kind = "gen" THEN {[what |-> "nid", d |-> [desc EXCEPT !.nid = IF @ = "0x3" THEN "0x4" ELSE "0x3"], same |-> FALSE]} ELSE {})
CompareWith(c) ==
  /\ Compare /\ Len(hist) = 1 /\ UNCHANGED <<desc, rep>>
  /\ hist' = Append(hist, [op |-> "compare", rep |-> rep, pre |-> Pre(c.d), desc |-> c.d, render |-> Entries(c.d), obs |-> Obs(c.d),
                           verdict |-> Verdict(c.d), what |-> c.what, same |-> c.same])
Next == \/ ParseJSON
        \/ Bytes
        \/ ParseStored
        \/ ToJSON
        \/ \E c \in Changes : CompareWith(c)
Spec == Init /\ [][Next]_vars

----------------------------------------------------------------------------
\* the id preimage is a function of the descriptor only (every representation carries the document)
IdConstant == \A i \in 1..Len(hist) : hist[i].op # "compare" => hist[i].pre = hist[1].pre
\* signed fields matter, excluded fields do not
Sensitive == Len(hist) = 1 => \A c \in Changes : (Pre(c.d) = Pre(desc)) <=> c.same
DescFixed == [][desc' = desc]_vars
=============================================================================
