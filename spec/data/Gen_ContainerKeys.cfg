SPECIFICATION Spec
CONSTANTS
  PartIds = {"e", "z", "a", "m80", "az", "x81", "L55", "L56"}
  TupleIds = {}
  RawIds = {"a", "e"}
  Types = {"hash", "phash", "rlp", "raw", "tkey"}
  MaxBuilders = 3
  MaxArgs = 1
  MaxParts = 3
  MaxOps = 3
  MaxNew = 1
  Depth = 3
  ProbeIds = {}
  Proj <- FullProj
INVARIANT Emit
