SPECIFICATION Spec
CONSTANTS
  BloomIds = {"r1", "r2", "blk"}
  Block = "blk"
  AddrIds = {"a1", "a2"}
  ValIds = {"x", "y", "e"}
  MaxPos = 2
  Kinds = {"compress", "bytes", "logbytes", "json", "rlp"}
  Prefill = FALSE
  Reads = TRUE
  MaxOps = 2
  Depth = 2
  Proj <- FullProj
INVARIANT Emit
