---------------------------- MODULE Flood ----------------------------
(* Reception of application packets by one node (network/p2p.go PeerToPeer.onPacket with the
   duplicate filter network/pool.go PacketPool), property C33.

   The node ("self") has connected peers, each with an authenticated id, a connection type and TWO
   role values: the role the peer CLAIMED in its query (Peer.RecvRole) and the RESOLVED role
   (Peer.Role) = the claimed flags that the node's own role sets allow: resolveRole drops the root
   flag when the node's validator (root) set is not empty and does not contain the peer (same for
   seed).  Only the resolved role authorizes anything.  A packet arrives through one of the
   peers ("via") and carries the originator id src, a destination class dest
   (any | root | seed | peer), a ttl (0 = flood on, otherwise one hop) and a body; the packet
   hash covers all of these (header + payload), so the packet identity for the duplicate
   filter is the whole tuple.  One action = one call of onPacket:
     - protocol unknown to that peer        -> the peer is closed, nothing delivered
     - connection type still undetermined   -> drop
     - src = self                           -> drop
     - one hop (ttl # 0 or dest = peer) and via # src          -> drop
     - broadcast (dest = any, ttl = 0) sent by its originator (via = src) who is not root -> drop
     - one hop: deliver (no duplicate filter);  flooded: deliver iff PacketPool.Put accepts.
   The pool is the ring of NB buckets of LB ids of pool.go: Put refuses an id found in the
   current or the NB-1 previous buckets; when the current bucket has LB ids the ring advances
   and the oldest bucket is emptied.  So an id is remembered for at least (NB-1)*LB newer ids. *)
EXTENDS Integers, Sequences, FiniteSets, TLC
CONSTANTS Peers,        \* connected peers, e.g. {"p1","p2","p3"}
          Srcs,         \* originator ids a packet may carry (subset of Peers \cup {"self","x"})
          Dests,        \* subset of {"any","root","seed","peer"}
          Ttls,         \* subset of {0, 1}
          Bodies,
          Protos,       \* subset of {"ok","unk"}
          RoleCfgs,     \* claimed roles: set of functions Peers -> SUBSET {"seed","root"}
          AllowCfgs,    \* the node's validator (root) set: set of subsets of Peers ({} = no restriction)
          TypeCfgs,     \* set of functions Peers -> {"none","parent","children","friend","other"}
          NB, LB,       \* pool geometry
          MaxOps,
          RecordHist

Window == (NB - 1) * LB

VARIABLES role, allow, ctype,  \* configuration, chosen initially (role = claimed role, allow = validator set)
          closed,       \* peers closed by the node
          buckets, alloc, blen, cur,   \* PacketPool (alloc[i] = FALSE: bucket i was never allocated)
          log,          \* flooded packet ids accepted by the pool, in order
          nops, hist
vars == <<role, allow, ctype, closed, buckets, alloc, blen, cur, log, nops, hist>>

\* PeerToPeer.resolveRole(claimed, id, onlyUnSet = TRUE) as applied by the query handlers
Resolved(p) == IF allow # {} /\ p \notin allow THEN role[p] \ {"root"} ELSE role[p]
Pkt(src, dest, ttl, body, proto) == [src |-> src, dest |-> dest, ttl |-> ttl, body |-> body, proto |-> proto]
IsOneHop(k) == k.ttl # 0 \/ k.dest = "peer"
IsBroadcast(k) == k.dest = "any" /\ k.ttl = 0

\* PacketPool._contains: walk back from the current bucket, stop at a bucket never allocated
RECURSIVE ContainsFrom(_, _, _)
ContainsFrom(k, c, n) ==
  IF n = 0 THEN FALSE
  ELSE IF ~alloc[c] THEN FALSE
  ELSE IF k \in buckets[c] THEN TRUE
  ELSE ContainsFrom(k, IF c < 1 THEN NB - 1 ELSE c - 1, n - 1)
Contains(k) == ContainsFrom(k, cur, NB)

\* PacketPool.Put of an id that is not contained
PutNew(k) ==
  LET full == blen[cur] + 1 >= LB
      nc == IF cur + 1 >= NB THEN 0 ELSE cur + 1
      b1 == [buckets EXCEPT ![cur] = @ \cup {k}]
      l1 == [blen EXCEPT ![cur] = @ + 1]
  IN /\ buckets' = IF full THEN [b1 EXCEPT ![nc] = {}] ELSE b1
     /\ blen' = IF full THEN [l1 EXCEPT ![nc] = 0] ELSE l1
     /\ alloc' = IF full THEN [alloc EXCEPT ![nc] = TRUE] ELSE alloc
     /\ cur' = IF full THEN nc ELSE cur

\* the decision of onPacket before the duplicate filter
Verdict(k, via) ==
  CASE k.proto # "ok" -> "close:proto"
    [] ctype[via] = "none" -> "drop:conntype"
    [] k.src = "self" -> "drop:self"
    [] IsOneHop(k) /\ via # k.src -> "drop:onehop-not-source"
    [] IsBroadcast(k) /\ via = k.src /\ "root" \notin Resolved(via) -> "drop:origin-not-root"
    [] OTHER -> "pass"

Log(e) == /\ nops' = nops + 1
          /\ hist' = IF RecordHist THEN Append(hist, e) ELSE hist

Init == /\ role \in RoleCfgs /\ allow \in AllowCfgs /\ ctype \in TypeCfgs
        /\ closed = {}
        /\ buckets = [i \in 0..(NB - 1) |-> {}] /\ alloc = [i \in 0..(NB - 1) |-> i = 0]
        /\ blen = [i \in 0..(NB - 1) |-> 0] /\ cur = 0
        /\ log = <<>> /\ nops = 0
        /\ hist = IF RecordHist THEN <<[op |-> "cfg", role |-> role, allow |-> allow, resolved |-> [p \in Peers |-> Resolved(p)],
                                      ctype |-> ctype, nb |-> NB, lb |-> LB]>> ELSE <<>>

Result(k, via) ==
  LET v == Verdict(k, via)
  IN IF v # "pass" THEN v
     ELSE IF IsOneHop(k) THEN "deliver"
     ELSE IF Contains(k) THEN "drop:duplicate" ELSE "deliver"

OnPacket(k, via) ==
  /\ via \notin closed
  /\ LET v == Verdict(k, via)
         res == Result(k, via)
         put == v = "pass" /\ ~IsOneHop(k) /\ ~Contains(k)
     IN /\ closed' = IF v = "close:proto" THEN closed \cup {via} ELSE closed
        /\ IF put THEN PutNew(k) /\ log' = Append(log, k)
           ELSE UNCHANGED <<buckets, alloc, blen, cur, log>>
        /\ UNCHANGED <<role, allow, ctype>>
        /\ Log([op |-> "pkt", via |-> via, src |-> k.src, dest |-> k.dest, ttl |-> k.ttl, body |-> k.body,
                proto |-> k.proto, res |-> res])

Can == nops < MaxOps
\* one disjunct per outcome class (vacuity guard: every class must occur in the bounded model)
AllPkts == {Pkt(src, dest, ttl, body, proto) : src \in Srcs, dest \in Dests, ttl \in Ttls, body \in Bodies, proto \in Protos}
Deliver == \E via \in Peers, k \in AllPkts : Can /\ via \notin closed /\ Result(k, via) = "deliver" /\ OnPacket(k, via)
DropDuplicate == \E via \in Peers, k \in AllPkts : Can /\ via \notin closed /\ Result(k, via) = "drop:duplicate" /\ OnPacket(k, via)
DropOneHopNotSource == \E via \in Peers, k \in AllPkts : Can /\ via \notin closed /\ Result(k, via) = "drop:onehop-not-source" /\ OnPacket(k, via)
DropOriginNotRoot == \E via \in Peers, k \in AllPkts : Can /\ via \notin closed /\ Result(k, via) = "drop:origin-not-root" /\ OnPacket(k, via)
DropSelfSrc == \E via \in Peers, k \in AllPkts : Can /\ via \notin closed /\ Result(k, via) = "drop:self" /\ OnPacket(k, via)
DropConnType == \E via \in Peers, k \in AllPkts : Can /\ via \notin closed /\ Result(k, via) = "drop:conntype" /\ OnPacket(k, via)
CloseProto == \E via \in Peers, k \in AllPkts : Can /\ via \notin closed /\ Result(k, via) = "close:proto" /\ OnPacket(k, via)
Next == \/ Deliver \/ DropDuplicate \/ DropOneHopNotSource \/ DropOriginNotRoot
        \/ DropSelfSrc \/ DropConnType \/ CloseProto
Spec == Init /\ [][Next]_vars

----------------------------------------------------------------------------
(* Properties (C33): action properties over every call OnPacket(k, via) *)
Seen(k) == \E i \in 1..Len(log) : log[i] = k
LastIdx(k) == CHOOSE i \in 1..Len(log) : log[i] = k /\ \A j \in (i + 1)..Len(log) : log[j] # k
TypeOK == /\ cur \in 0..(NB - 1) /\ alloc[cur] /\ blen[cur] < LB
          /\ \A i \in 0..(NB - 1) : Cardinality(buckets[i]) = blen[i] /\ (~alloc[i] => buckets[i] = {})
\* what must hold for one call OnPacket(k, via) (unprimed variables = state before the call)
\* a flooded packet is handed to the application at most once while it is within the pool window:
\* a second delivery needs at least Window newer ids accepted in between
AtMostOnce(k, via) == (Result(k, via) = "deliver" /\ ~IsOneHop(k) /\ Seen(k)) => Len(log) - LastIdx(k) >= Window
\* the duplicate filter refuses only what it has accepted before
RefusedWasSeen(k, via) == Result(k, via) = "drop:duplicate" => Seen(k)
\* one-hop packets are accepted only from their originating peer
OneHopFromSource(k, via) == (Result(k, via) = "deliver" /\ IsOneHop(k)) => via = k.src
\* a broadcast received directly from its originator is accepted only if that peer holds the root (validator)
\* role -- the RESOLVED one: claimed AND, when the node has a validator set, a member of it
OriginAuthorized(k, via) == (Result(k, via) = "deliver" /\ IsBroadcast(k) /\ via = k.src) =>
                              ("root" \in role[via] /\ (allow = {} \/ via \in allow))
\* never from a peer without a determined connection type, never with the node itself as originator,
\* never on a protocol the peer does not speak, never through a closed peer
Admissible(k, via) == Result(k, via) = "deliver" => (ctype[via] # "none" /\ k.src # "self" /\ k.proto = "ok" /\ via \notin closed)
\* exactly the accepted flooded packets are recorded by the filter
FilterRecords(k, via) == (Result(k, via) = "deliver" /\ ~IsOneHop(k)) <=> log' # log
StepOK(k, via) == /\ AtMostOnce(k, via) /\ RefusedWasSeen(k, via) /\ OneHopFromSource(k, via)
                  /\ OriginAuthorized(k, via) /\ Admissible(k, via) /\ FilterRecords(k, via)
FloodSafe == [][\A via \in Peers, k \in AllPkts : OnPacket(k, via) => StepOK(k, via)]_vars
\* vacuity probe (expected to be VIOLATED in the relay configuration): a flooded id is delivered a
\* second time once it has left the window
NoRedelivery == [][\A via \in Peers, k \in AllPkts :
                    OnPacket(k, via) => ~(Result(k, via) = "deliver" /\ ~IsOneHop(k) /\ Seen(k))]_vars
=============================================================================
