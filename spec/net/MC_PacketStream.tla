---- MODULE MC_PacketStream ----
EXTENDS PacketStream
\* exhaustive checker view: the history does not influence behaviour
ViewNoHist == <<sent, wire, pos, closed, eof, rs, out, dead, hit>>
====
