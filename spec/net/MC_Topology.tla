---- MODULE MC_Topology ----
EXTENDS Topology
R(x) == CASE x = "r" -> {"root"} [] x = "s" -> {"seed"} [] x = "b" -> {"seed", "root"} [] OTHER -> {}
Cfg(a, b, c) == [n \in Nodes |-> IF n = "n1" THEN R(a) ELSE IF n = "n2" THEN R(b) ELSE R(c)]
MCRoleCfgs == {Cfg("r", "r", "s"), Cfg("r", "s", "n"), Cfg("s", "s", "n"), Cfg("r", "s", "s"), Cfg("s", "n", "n")}
MCRoleCfgsQuick == {Cfg("r", "r", "s"), Cfg("s", "s", "n")}
MCRoles == {{}, {"seed"}, {"root"}}
\* the later node dialled the earlier one
MCDials == {<<"n2", "n1">>, <<"n3", "n1">>, <<"n3", "n2">>, <<"n4", "n1">>, <<"n4", "n2">>, <<"n4", "n3">>}
====
