SPECIFICATION Spec
CONSTANTS
  Peers = {"p1", "p2", "p3"}
  Srcs = {"p1", "x"}
  Dests = {"any", "root"}
  Ttls = {0, 1}
  Bodies = {1, 2}
  Protos = {"ok"}
  RoleCfgs <- RelayRoleCfgs
  AllowCfgs <- RelayAllowCfgs
  TypeCfgs <- RelayTypeCfgs
  NB = 2
  LB = 2
  MaxOps = 5
  RecordHist = FALSE
INVARIANT TypeOK
PROPERTIES FloodSafe
