---- MODULE Gen_Flood ----
EXTENDS Flood, Json
CONSTANT Depth
GenRoleCfgs == [Peers -> SUBSET {"seed", "root"}]
RelayAllowCfgs == {{}}
GenAllowCfgs == {{}, {"p1"}, {"p2", "p3"}}
GenTableAllowCfgs == {{}, {"p2"}, {"p1", "p2", "p3"}}
GenTypeCfgs == [Peers -> {"none", "parent", "friend"}]
\* relay walks: p1 and p2 are root peers, p3 relays only
GenRelayRoleCfgs == {[p \in Peers |-> IF p = "p3" THEN {} ELSE {"root"}]}
GenRelayTypeCfgs == {[p \in Peers |-> IF p = "p1" THEN "friend" ELSE IF p = "p2" THEN "parent" ELSE "children"]}
\* hist[1] is the configuration entry
\* (a run also ends when every peer has been closed)
Emit == (Len(hist) = Depth + 1 \/ (closed = Peers /\ Len(hist) > 1)) => PrintT(<<"B", ToJson(hist)>>)
\* decision table: the verdict depends on the role and connection type of the relaying peer only
GenTableRoleCfgs == {[p \in Peers |-> r] : r \in SUBSET {"seed", "root"}}
GenTableTypeCfgs == {[p \in Peers |-> t] : t \in {"none", "parent", "friend"}}
====
