SPECIFICATION Spec
CONSTANTS
  Nodes = {"n1", "n2", "n3"}
  RoleCfgs <- GenRoleCfgs
  Roles <- MCRoles
  ReqTypes = {"friend", "parent", "uncle", "none", "children", "bad"}
  RespTypes = {"friend", "children", "nephew", "other", "none", "parent"}
  LimParent = 1
  LimUncle = 1
  LimChildren = 1
  LimNephew = 1
  LimOther = 1
  MaxOps = 10
  MaxInject = 1
  MaxCloses = 2
  MaxRoleChanges = 1
  OnlyDiscover = FALSE
  Dials <- MCDials
  RecordHist = TRUE
  Depth = 10
INVARIANT Emit
