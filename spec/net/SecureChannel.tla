---------------------------- MODULE SecureChannel ----------------------------
(* The encrypted peer connection (network/secure.go: SecureConn over two SecureAead), property C31.

   Two ends A and B share a connection; direction "ab" carries what A writes, "ba" what B
   writes.  Each direction has its own key (secureKey.hkdf derives two secrets, the end with the
   lower ECDH public key reads with secret 0 and writes with secret 1, the other end the other
   way round) and its own pair of nonce counters (the writer's and the reader's, both start at 0
   and advance by one per frame).
     Write(d, n)  SecureAead.Write: the n bytes are cut into frames of at most Frame bytes, each
                  sealed with (key d, next writer nonce) and handed to the transport by ONE
                  conn.Write;
     Read(d, m)   SecureAead.Read with a buffer of m bytes: a faithful byte stream returns
                  min(m, bytes left of the current frame) bytes, in order, and keeps the rest of
                  the frame for the next Read; a frame that does not open under (key d, next
                  reader nonce) is an error and nothing of it is returned;
     attacks      the transport may once tamper with a frame, drop, duplicate, swap adjacent
                  frames, replay the last delivered frame, replay the FIRST delivered frame of the
                  connection after exactly Far more frames have gone through (Far = 2^8, 2^16,
                  2^24: a counter that wraps after 1, 2 or 3 bytes would accept it again), or
                  reflect a frame into the opposite direction.
   The nonce is a COUNTER THAT NEVER REPEATS within a connection: the k-th frame of a direction is
   sealed with nonce k and only with nonce k, for every k (no wrap-around; a connection carries far
   fewer than 2^96 frames), and the reader accepts as its k-th frame only a frame sealed with
   nonce k.  NonceUnique states this over the frame index.
   Cryptography is symbolic: a frame opens iff it is untampered, was sealed with the key of the
   direction it is read on and carries exactly the nonce the reader expects.  Stream content is
   abstract: byte k of direction d is identified by its offset k, a frame covers
   [off, off+len). *)
EXTENDS Integers, Sequences, FiniteSets, TLC
CONSTANTS WriteSizes,   \* sizes of application writes
          ReadSizes,    \* sizes of application read buffers
          Frame,        \* secureConnFrameSize
          MaxOps,       \* calls + attacks in one run
          MaxAttacks,   \* attacks in one run
          AttackKinds,  \* enabled attacks: subset of {"tamper","drop","dup","swap","replay","replayfar","reflect"}
          FarDist,      \* distances (in frames) of the far replay, e.g. {256, 65536}
          RecordHist    \* TRUE in the generator

Dirs == {"ab", "ba"}
Other(d) == IF d = "ab" THEN "ba" ELSE "ab"
Min(a, b) == IF a < b THEN a ELSE b
NoFrame == [key |-> "", nonce |-> -1, len |-> 0, off |-> 0, bad |-> FALSE]

VARIABLES sent,      \* [Dirs -> Nat] bytes written by the application so far
          wire,      \* [Dirs -> Seq(frame)] frames in transit
          wnonce,    \* [Dirs -> Nat] writer's nonce counter
          rnonce,    \* [Dirs -> Nat] reader's nonce counter
          left,      \* [Dirs -> Nat] bytes of the opened frame not yet returned
          loff,      \* [Dirs -> Nat] stream offset of the first such byte
          rcvd,      \* [Dirs -> Nat] bytes returned to the application so far
          inorder,   \* [Dirs -> BOOLEAN] every Read so far returned the bytes right after the previous ones
          dead,      \* [Dirs -> BOOLEAN] a Read failed (the peer closes the connection)
          lastf,     \* [Dirs -> frame] last frame opened (what an eavesdropper can replay)
          firstf,    \* [Dirs -> frame] first frame opened on this connection (recorded by the eavesdropper)
          opened,    \* [Dirs -> SUBSET Nat] nonces of the frames opened so far, except filler (see ReplayFar)
          filler,    \* [Dirs -> Nat] frames pumped through by ReplayFar (nonces firstFiller..)
          natt,      \* attacks so far
          nops, hist
vars == <<sent, wire, wnonce, rnonce, left, loff, rcvd, inorder, dead, lastf, firstf, opened, filler, natt, nops, hist>>

RECURSIVE Frames(_, _, _, _)
\* SecureAead.Write: frames of one Write(d, n) starting at stream offset off with nonce c
Frames(d, n, off, c) ==
  IF n = 0 THEN <<>>
  ELSE LET l == Min(n, Frame)
       IN <<[key |-> d, nonce |-> c, len |-> l, off |-> off, bad |-> FALSE]>> \o Frames(d, n - l, off + l, c + 1)
NFrames(n) == (n + Frame - 1) \div Frame

\* aead.Open with the reader's key and counter
Opens(d, f) == ~f.bad /\ f.key = d /\ f.nonce = rnonce[d]

Rec(op, d, n, i, kind, res, off) == [op |-> op, d |-> d, n |-> n, i |-> i, kind |-> kind, res |-> res, off |-> off]
Log(r) == /\ nops' = nops + 1
          /\ hist' = IF RecordHist THEN Append(hist, r @@ [wab |-> Len(wire'["ab"]), wba |-> Len(wire'["ba"])]) ELSE hist

Init == /\ sent = [d \in Dirs |-> 0] /\ wire = [d \in Dirs |-> <<>>]
        /\ wnonce = [d \in Dirs |-> 0] /\ rnonce = [d \in Dirs |-> 0]
        /\ left = [d \in Dirs |-> 0] /\ loff = [d \in Dirs |-> 0] /\ rcvd = [d \in Dirs |-> 0]
        /\ inorder = [d \in Dirs |-> TRUE] /\ dead = [d \in Dirs |-> FALSE]
        /\ lastf = [d \in Dirs |-> NoFrame] /\ firstf = [d \in Dirs |-> NoFrame]
        /\ opened = [d \in Dirs |-> {}] /\ filler = [d \in Dirs |-> 0] /\ natt = 0 /\ nops = 0 /\ hist = <<>>

Write(d, n) ==
  /\ sent' = [sent EXCEPT ![d] = @ + n]
  /\ wire' = [wire EXCEPT ![d] = @ \o Frames(d, n, sent[d], wnonce[d])]
  /\ wnonce' = [wnonce EXCEPT ![d] = @ + NFrames(n)]
  /\ UNCHANGED <<rnonce, left, loff, rcvd, inorder, dead, lastf, firstf, opened, filler, natt>>
  /\ Log(Rec("write", d, n, NFrames(n), "", n, sent[d]))

\* a Read that still has bytes of the opened frame
ReadLeft(d, m) ==
  /\ ~dead[d] /\ left[d] > 0
  /\ LET n == Min(m, left[d]) IN
     /\ left' = [left EXCEPT ![d] = @ - n]
     /\ loff' = [loff EXCEPT ![d] = @ + n]
     /\ rcvd' = [rcvd EXCEPT ![d] = @ + n]
     /\ inorder' = [inorder EXCEPT ![d] = @ /\ loff[d] = rcvd[d]]
     /\ UNCHANGED <<sent, wire, wnonce, rnonce, dead, lastf, firstf, opened, filler, natt>>
     /\ Log(Rec("read", d, m, 0, "", n, loff[d]))

\* a Read that takes the next frame from the transport and opens it
ReadFrame(d, m) ==
  /\ ~dead[d] /\ left[d] = 0 /\ wire[d] # <<>>
  /\ LET f == Head(wire[d]) IN
     IF Opens(d, f)
     THEN LET n == Min(m, f.len) IN
          /\ wire' = [wire EXCEPT ![d] = Tail(@)]
          /\ rnonce' = [rnonce EXCEPT ![d] = @ + 1]
          /\ left' = [left EXCEPT ![d] = f.len - n]
          /\ loff' = [loff EXCEPT ![d] = f.off + n]
          /\ rcvd' = [rcvd EXCEPT ![d] = @ + n]
          /\ inorder' = [inorder EXCEPT ![d] = @ /\ f.off = rcvd[d]]
          /\ lastf' = [lastf EXCEPT ![d] = f]
          /\ firstf' = [firstf EXCEPT ![d] = IF @ = NoFrame THEN f ELSE @]
          /\ opened' = [opened EXCEPT ![d] = @ \cup {f.nonce}]
          /\ UNCHANGED <<sent, wnonce, dead, filler, natt>>
          /\ Log(Rec("read", d, m, 1, "", n, f.off))
     ELSE /\ wire' = [wire EXCEPT ![d] = Tail(@)]
          /\ dead' = [dead EXCEPT ![d] = TRUE]
          /\ UNCHANGED <<sent, wnonce, rnonce, left, loff, rcvd, inorder, lastf, firstf, opened, filler, natt>>
          /\ Log(Rec("read", d, m, 1, "", -1, 0))

CanAttack == natt < MaxAttacks
Attacked(kind, d, i) == /\ natt' = natt + 1
                        /\ UNCHANGED <<sent, wnonce, rnonce, left, loff, rcvd, inorder, dead, lastf, firstf, opened, filler>>
                        /\ Log(Rec("attack", d, 0, i, kind, 0, 0))
Without(s, i) == SubSeq(s, 1, i - 1) \o SubSeq(s, i + 1, Len(s))
InsertAt(s, i, x) == SubSeq(s, 1, i - 1) \o <<x>> \o SubSeq(s, i, Len(s))
\* part: the length prefix, the ciphertext or the authentication tag of frame i is altered, or the frame is
\* cut short ("cut": somewhere after its prefix, "cuthdr": inside the 4-byte prefix) -- the reader then runs
\* into the next frame or into the end of what is in transit; in every case nothing of it is returned
Tamper(d, i, part) ==
  /\ CanAttack /\ "tamper" \in AttackKinds /\ i \in 1..Len(wire[d])
  /\ wire' = [wire EXCEPT ![d][i].bad = TRUE]
  /\ Attacked(part, d, i)
Drop(d, i) ==
  /\ CanAttack /\ "drop" \in AttackKinds /\ i \in 1..Len(wire[d])
  /\ wire' = [wire EXCEPT ![d] = Without(@, i)]
  /\ Attacked("drop", d, i)
Dup(d, i) ==
  /\ CanAttack /\ "dup" \in AttackKinds /\ i \in 1..Len(wire[d])
  /\ wire' = [wire EXCEPT ![d] = InsertAt(@, i, @[i])]
  /\ Attacked("dup", d, i)
Swap(d, i) ==
  /\ CanAttack /\ "swap" \in AttackKinds /\ i \in 1..(Len(wire[d]) - 1)
  /\ wire' = [wire EXCEPT ![d] = [@ EXCEPT ![i] = wire[d][i + 1], ![i + 1] = wire[d][i]]]
  /\ Attacked("swap", d, i)
\* the last frame the reader accepted is injected again in front of everything else
Replay(d) ==
  /\ CanAttack /\ "replay" \in AttackKinds /\ lastf[d] # NoFrame
  /\ wire' = [wire EXCEPT ![d] = <<lastf[d]>> \o @]
  /\ Attacked("replay", d, 0)
\* The eavesdropper recorded the first frame of the connection (nonce n0).  Honest traffic goes on --
\* n one-byte writes, each read at once, both ends stay in step -- until the reader expects exactly
\* nonce n0 + far; then the recorded frame is injected.  A counter that never repeats refuses it.
ReplayFar(d, far) ==
  /\ CanAttack /\ "replayfar" \in AttackKinds /\ ~dead[d]
  /\ firstf[d] # NoFrame /\ wire[d] = <<>> /\ left[d] = 0
  /\ LET n == far - (rnonce[d] - firstf[d].nonce) IN
     /\ n >= 0
     /\ sent' = [sent EXCEPT ![d] = @ + n] /\ rcvd' = [rcvd EXCEPT ![d] = @ + n]
     /\ wnonce' = [wnonce EXCEPT ![d] = @ + n] /\ rnonce' = [rnonce EXCEPT ![d] = @ + n]
     /\ filler' = [filler EXCEPT ![d] = @ + n]
     /\ wire' = [wire EXCEPT ![d] = <<firstf[d]>>]
     /\ natt' = natt + 1
     /\ UNCHANGED <<left, loff, inorder, dead, lastf, firstf, opened>>
     /\ Log(Rec("attack", d, n, far, "replayfar", 0, sent[d]))
\* frame i travelling in direction d is copied to the front of the opposite direction
Reflect(d, i) ==
  /\ CanAttack /\ "reflect" \in AttackKinds /\ i \in 1..Len(wire[d])
  /\ wire' = [wire EXCEPT ![Other(d)] = <<wire[d][i]>> \o @]
  /\ Attacked("reflect", d, i)

Can == nops < MaxOps
MaxFr == 1 + MaxOps * 3
Next == \/ \E d \in Dirs, n \in WriteSizes : Can /\ Write(d, n)
        \/ \E d \in Dirs, m \in ReadSizes : Can /\ ReadLeft(d, m)
        \/ \E d \in Dirs, m \in ReadSizes : Can /\ ReadFrame(d, m)
        \/ \E d \in Dirs, i \in 1..MaxFr, part \in {"len", "body", "tag", "cut", "cuthdr"} : Can /\ Tamper(d, i, part)
        \/ \E d \in Dirs, i \in 1..MaxFr : Can /\ Drop(d, i)
        \/ \E d \in Dirs, i \in 1..MaxFr : Can /\ Dup(d, i)
        \/ \E d \in Dirs, i \in 1..MaxFr : Can /\ Swap(d, i)
        \/ \E d \in Dirs : Can /\ Replay(d)
        \/ \E d \in Dirs, far \in FarDist : Can /\ ReplayFar(d, far)
        \/ \E d \in Dirs, i \in 1..MaxFr : Can /\ Reflect(d, i)
Spec == Init /\ [][Next]_vars

----------------------------------------------------------------------------
(* Properties (C31) *)
TypeOK == \A d \in Dirs : /\ rcvd[d] <= sent[d] /\ left[d] >= 0 /\ rnonce[d] <= wnonce[d]
                          /\ (left[d] > 0 => loff[d] + left[d] <= sent[d])
\* what the application reads is always the next bytes of what the other end wrote: no gap, no
\* reordering, no repetition -- whatever the transport does
Faithful == \A d \in Dirs : inorder[d]
\* nothing is lost: with an honest transport everything written can be read
NothingLost == \A d \in Dirs : (natt = 0 /\ wire[d] = <<>> /\ left[d] = 0) => (rcvd[d] = sent[d] /\ ~dead[d])
\* an honest transport never makes a read fail
NoSpuriousError == natt = 0 => \A d \in Dirs : ~dead[d]
\* after a failed read nothing more is delivered in that direction
DeadStays == [][\A d \in Dirs : dead[d] => (dead'[d] /\ rcvd'[d] = rcvd[d])]_vars
\* the nonce is a counter that never repeats: the reader has opened exactly one frame per frame
\* index 0..rnonce-1 (filler frames included), no index twice, whatever the distance; and the frames
\* in transit that were sealed by the writer carry pairwise different nonces below the writer's counter
NonceUnique ==
  \A d \in Dirs :
     /\ Cardinality(opened[d]) + filler[d] = rnonce[d]
     /\ \A k \in opened[d] : k < rnonce[d]
     /\ \A i \in 1..Len(wire[d]) : wire[d][i].key = d => wire[d][i].nonce < wnonce[d]
\* a frame is never accepted twice: the recorded first frame does not open again at any distance
NoReplayAccepted ==
  \A d \in Dirs : (firstf[d] # NoFrame /\ wire[d] # <<>> /\ Head(wire[d]) = firstf[d]) => ~Opens(d, Head(wire[d]))
\* the two directions never share key material: a frame sealed for one direction never opens in the other
KeySeparation == \A d \in Dirs : lastf[d] # NoFrame => lastf[d].key = d
=============================================================================
