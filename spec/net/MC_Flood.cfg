SPECIFICATION Spec
CONSTANTS
  Peers = {"p1", "p2", "p3"}
  Srcs = {"p1", "p2", "self", "x"}
  Dests = {"any", "root", "seed", "peer"}
  Ttls = {0, 1}
  Bodies = {1}
  Protos = {"ok", "unk"}
  RoleCfgs <- MCRoleCfgs
  AllowCfgs <- MCAllowCfgs
  TypeCfgs <- MCTypeCfgs
  NB = 2
  LB = 1
  MaxOps = 2
  RecordHist = FALSE
INVARIANT TypeOK
PROPERTIES FloodSafe
