---- MODULE MC_Handshake ----
EXTENDS Handshake
====
