SPECIFICATION Spec
CONSTANTS
  Peers = {"p1", "p2", "p3"}
  Srcs = {"p1", "p2", "x"}
  Dests = {"any", "root"}
  Ttls = {0, 1}
  Bodies = {1, 2}
  Protos = {"ok"}
  RoleCfgs <- GenRelayRoleCfgs
  AllowCfgs <- RelayAllowCfgs
  TypeCfgs <- GenRelayTypeCfgs
  NB = 2
  LB = 2
  MaxOps = 8
  RecordHist = TRUE
  Depth = 8
INVARIANT Emit
