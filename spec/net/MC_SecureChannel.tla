---- MODULE MC_SecureChannel ----
EXTENDS SecureChannel
====
