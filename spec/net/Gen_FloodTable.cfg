SPECIFICATION Spec
CONSTANTS
  Peers = {"p1", "p2", "p3"}
  Srcs = {"p1", "p2", "p3", "self", "x"}
  Dests = {"any", "root", "seed", "peer"}
  Ttls = {0, 1}
  Bodies = {1}
  Protos = {"ok", "unk"}
  RoleCfgs <- GenTableRoleCfgs
  AllowCfgs <- GenTableAllowCfgs
  TypeCfgs <- GenTableTypeCfgs
  NB = 2
  LB = 2
  MaxOps = 1
  RecordHist = TRUE
  Depth = 1
INVARIANT Emit
