---------------------------- MODULE Topology ----------------------------
(* P2P connection management (network/p2p.go): how connected nodes negotiate the TYPE of their
   connection.  Every node keeps, per connected peer, a connection type
       none (orphanage) | parent | children | uncle | nephew | friend | other
   in per-type sets with limits (parents, uncles, children, nephews, others), plus a set of
   peers with a request in transit ("transiting", with the requested type remembered in a peer
   attribute) and a set of rejected peers.  Roles are flag sets over {seed, root}; a node knows
   the role of a peer only through its last query exchange (view), which may be stale.

   One action = one call of the real code:
     ConnRequest(a, b, t)   tryTransitPeerConnection(peer b, t) at node a  (the discover loop calls
                            it with friend / parent / uncle / none; any wire value is allowed here
                            because handlers must cope with every request)
     DeliverReq / DeliverResp   the next packet of the FIFO connection a->b reaches
                            handleP2PConnectionRequest / handleP2PConnectionResponse at b
     InjectResp             a misbehaving peer answers whatever it likes
     RoleChange, Learn      p2p.setRole at a node; a node refreshes its view of a peer's role
     PeerClose              one side closes the connection (the other side does so independently, later)
   resolveConnectionRequest / resolveConnectionResponse / updatePeerConnectionType are transcribed
   from the code; the properties below are about their composition. *)
EXTENDS Integers, Sequences, FiniteSets, TLC
CONSTANTS Nodes,          \* e.g. {"n1","n2","n3"}
          RoleCfgs,       \* initial role assignments: set of functions Nodes -> SUBSET {"seed","root"}
          Roles,          \* roles a node may change to
          ReqTypes,       \* wire values a node may request: subset of Types \cup {"bad"}
          RespTypes,      \* connection types a misbehaving peer may put into a forged response
          LimParent, LimUncle, LimChildren, LimNephew, LimOther,
          MaxOps, MaxInject, MaxRoleChanges, MaxCloses,
          OnlyDiscover,   \* TRUE: nodes send only the requests their discover loop would send
          Dials,          \* set of pairs <<a, b>>: a dialled b (b is an outgoing connection of a)
          RecordHist

Types == {"none", "parent", "children", "uncle", "nephew", "friend", "other"}
Peers(a) == Nodes \ {a}
Lim(t) == CASE t = "parent" -> LimParent [] t = "uncle" -> LimUncle [] t = "children" -> LimChildren
            [] t = "nephew" -> LimNephew [] t = "other" -> LimOther [] OTHER -> -1
IsRoot(r) == "root" \in r
IsSeed(r) == "seed" \in r

VARIABLES role,      \* [Nodes -> role] the node's own role
          view,      \* [Nodes -> [Nodes -> role]] role of a peer as known to the node (Peer.Role / RecvRole)
          loc,       \* [Nodes -> [ct: [Nodes -> Types], trans: SUBSET Nodes, attr: [Nodes -> ReqTypes \cup {"no"}], rej: SUBSET Nodes]]
          closed,    \* [Nodes -> SUBSET Nodes] peers whose connection this node has closed / seen closed
          net,       \* [Nodes \X Nodes -> Seq(msg)] packets queued from a to b
          byz,       \* tainted pairs: a forged response was injected or a request outside the discover decisions was sent
          nrole, ninj, nops, hist
vars == <<role, view, loc, closed, net, byz, nrole, ninj, nops, hist>>

Req(t) == [k |-> "req", rt |-> t, ct |-> "none"]
Resp(rt, c) == [k |-> "resp", rt |-> rt, ct |-> c]

\* ---- resolveConnectionRequest(pr = role of the requesting peer as seen here, t) at a node with role r
ResolveReq(r, pr, t) ==
  LET res(rc) == [rc |-> rc, na |-> FALSE, inv |-> FALSE]
      notAllowed == [rc |-> "none", na |-> TRUE, inv |-> FALSE]
      invalid == [rc |-> "none", na |-> FALSE, inv |-> TRUE]
  IN IF IsRoot(r) THEN
       CASE t = "friend" -> (IF IsRoot(pr) THEN res("friend") ELSE IF IsSeed(pr) THEN res("other") ELSE notAllowed)
         [] t = "parent" -> (IF IsRoot(pr) THEN res("other") ELSE IF IsSeed(pr) THEN res("children") ELSE notAllowed)
         [] t = "uncle" -> (IF IsRoot(pr) THEN res("other") ELSE IF IsSeed(pr) THEN res("nephew") ELSE notAllowed)
         [] t = "none" -> res("none")
         [] OTHER -> invalid
     ELSE IF IsSeed(r) THEN
       CASE t = "friend" -> (IF IsRoot(pr) THEN res("parent") ELSE IF IsSeed(pr) THEN res("other") ELSE invalid)
         [] t = "parent" -> (IF IsRoot(pr) \/ IsSeed(pr) THEN res("none") ELSE res("children"))
         [] t = "uncle" -> (IF IsRoot(pr) \/ IsSeed(pr) THEN res("none") ELSE res("nephew"))
         [] t = "none" -> res("none")
         [] OTHER -> invalid
     ELSE
       CASE t = "parent" -> (IF IsRoot(pr) \/ IsSeed(pr) THEN res("none") ELSE res("children"))
         [] t = "uncle" -> (IF IsRoot(pr) \/ IsSeed(pr) THEN res("none") ELSE res("nephew"))
         [] t = "none" -> res("none")
         [] OTHER -> invalid

\* ---- resolveConnectionResponse(prr = role the peer announced, requested type, answered type)
ResolveResp(r, prr, rt, c) ==
  LET res(rc) == [rc |-> rc, rej |-> FALSE, inv |-> FALSE]
      reject == [rc |-> "none", rej |-> TRUE, inv |-> FALSE]
      invalid == [rc |-> "none", rej |-> FALSE, inv |-> TRUE]
  IN IF IsRoot(r) THEN
       (IF rt = "friend" THEN
          CASE c = "friend" -> res("friend")
            [] c \in {"other", "none"} -> (IF IsRoot(prr) THEN res("friend") ELSE res("other"))
            [] c \in {"parent", "uncle"} -> res("other")
            [] OTHER -> invalid
        ELSE invalid)
     ELSE IF IsSeed(r) THEN
       CASE rt = "parent" -> (IF c \in {"children", "other"} THEN res("parent") ELSE reject)
         [] rt = "uncle" -> (IF c \in {"nephew", "other"} THEN res("uncle") ELSE reject)
         [] OTHER -> invalid
     ELSE
       CASE rt = "parent" -> (IF c = "children" THEN res("parent") ELSE IF c = "other" THEN res("other") ELSE reject)
         [] rt = "uncle" -> (IF c = "nephew" THEN res("uncle") ELSE IF c = "other" THEN res("other") ELSE reject)
         [] OTHER -> invalid

\* ---- node-local operations; L is loc[a]
CountL(L, a, t) == Cardinality({x \in Peers(a) : x \notin closed[a] /\ L.ct[x] = t})
\* updatePeerConnectionType(peer b, t)
Upd(L, a, b, t) ==
  IF b \in closed[a] \/ t \notin Types \/ t = L.ct[b] THEN [L |-> L, ok |-> FALSE]
  ELSE LET l == Lim(t)
           cnt == CountL(L, a, t)
       IN IF l < 0 \/ l > cnt
          THEN LET L1 == [L EXCEPT !.ct[b] = t, !.trans = @ \ {b}, !.rej = @ \ {b}]
               IN [L |-> IF l = cnt + 1 /\ t \in {"parent", "uncle"} THEN [L1 EXCEPT !.rej = {}] ELSE L1, ok |-> TRUE]
          ELSE [L |-> L, ok |-> FALSE]
\* tryTransitPeerConnection(peer b, t): new local state and the packets it sends
Transit(L, a, b, t) ==
  IF t = "none" THEN [L |-> Upd(L, a, b, "none").L, send |-> <<Req("none")>>, ok |-> TRUE]
  ELSE IF b \notin closed[a] /\ b \notin L.rej /\ b \notin L.trans
       THEN [L |-> [L EXCEPT !.trans = @ \cup {b}, !.attr[b] = t], send |-> <<Req(t)>>, ok |-> TRUE]
       ELSE [L |-> L, send |-> <<>>, ok |-> FALSE]

\* handleP2PConnectionRequest at b for a request t from peer a: new local state, the response
HandleReq(b, a, t) ==
  LET L == loc[b]
      r == ResolveReq(role[b], view[b][a], t)
      L1 == IF r.na \/ r.inv THEN L
            ELSE IF r.rc = "parent"
                 THEN (LET u == Upd(L, b, a, "parent") IN IF u.ok THEN u.L ELSE Upd(L, b, a, "uncle").L)
                 ELSE Upd(L, b, a, r.rc).L
  IN [L |-> L1, send |-> <<Resp(t, L1.ct[a])>>, close |-> FALSE, verdict |-> IF r.na THEN "notallowed" ELSE IF r.inv THEN "invalid" ELSE r.rc]

\* handleP2PConnectionResponse at a for a response (rt, c) from peer b
HandleResp(a, b, rt, c) ==
  LET L == loc[a]
      same(v) == [L |-> L, send |-> <<>>, close |-> FALSE, verdict |-> v]
  IN IF rt = "none" THEN same("ignored:none")
     ELSE IF b \notin L.trans THEN same("ignored:not-transiting")
     ELSE LET L0 == [L EXCEPT !.trans = @ \ {b}] IN
          IF L.attr[b] # rt THEN [L |-> L0, send |-> <<>>, close |-> FALSE, verdict |-> "ignored:other-request"]
          ELSE LET L1 == [L0 EXCEPT !.attr[b] = "no"]
                   r == ResolveResp(role[a], view[a][b], rt, c)
               IN IF r.rej THEN [L |-> [L1 EXCEPT !.rej = @ \cup {b}], send |-> <<>>, close |-> FALSE, verdict |-> "rejected"]
                  ELSE IF r.inv THEN [L |-> L1, send |-> <<>>, close |-> FALSE, verdict |-> "invalid"]
                  ELSE IF r.rc \in {"friend", "other", "none"}
                       THEN [L |-> Upd(L1, a, b, r.rc).L, send |-> <<>>, close |-> FALSE, verdict |-> r.rc]
                  ELSE \* parent / uncle: when the slot is taken try the other upstream kind, else give the peer up
                       LET u == Upd(L1, a, b, r.rc)
                           alt == IF r.rc = "parent" THEN "uncle" ELSE "parent"
                       IN IF u.ok THEN [L |-> u.L, send |-> <<>>, close |-> FALSE, verdict |-> r.rc]
                          ELSE IF CountL(L1, a, alt) < Lim(alt)
                               THEN (LET tr == Transit(L1, a, b, alt)
                                     IN [L |-> tr.L, send |-> tr.send, close |-> FALSE, verdict |-> "retry:" \o alt])
                               ELSE [L |-> L1, send |-> <<>>, close |-> TRUE, verdict |-> "closed:upstream-full"]

\* The decisions of the discover loop (discoverRoutine / discoverFriends / discoverParents / discoverUncles):
\* which request a node with its role would send to peer b in the current state.
\*   root:           friend to every peer known as root that is not a friend yet; none to a friend that is
\*                   known as seed but not root (a friend known as neither is closed);
\*   seed (exactly): seeks ROOT peers, normal: seeks SEED peers -- as parent while a parent slot is free
\*                   (candidates: orphanage or uncle), else as uncle while an uncle slot is free; none to
\*                   every peer that is still a friend.
Sought(a) == IF role[a] = {"seed"} THEN "root" ELSE "seed"
SeeksL(L, a, b, t) ==
  IF IsRoot(role[a])
  THEN \/ t = "friend" /\ IsRoot(view[a][b]) /\ L.ct[b] # "friend"
       \/ t = "none" /\ L.ct[b] = "friend" /\ ~IsRoot(view[a][b]) /\ IsSeed(view[a][b])
  ELSE \/ t = "none" /\ L.ct[b] = "friend"
       \/ t = "parent" /\ Sought(a) \in view[a][b] /\ L.ct[b] \in {"none", "uncle"}
             /\ (Sought(a) = "seed" => <<a, b>> \in Dials)        \* seeds are sought among outgoing connections only
             /\ CountL(L, a, "parent") < LimParent
       \/ t = "uncle" /\ Sought(a) \in view[a][b] /\ CountL(L, a, "parent") >= LimParent
             /\ (Sought(a) = "seed" => <<a, b>> \in Dials)
             /\ CountL(L, a, "uncle") < LimUncle
             /\ L.ct[b] \in (IF Sought(a) = "seed" THEN {"none"} ELSE {"none", "uncle"})

Seeks(a, b, t) == SeeksL(loc[a], a, b, t)
\* peers the discover loop closes: a root closes a friend known as neither root nor seed; the others
\* close parents and uncles that are not known to hold the sought role
DiscoverCloses(a, b) ==
  IF IsRoot(role[a]) THEN loc[a].ct[b] = "friend" /\ ~IsRoot(view[a][b]) /\ ~IsSeed(view[a][b])
  ELSE \/ loc[a].ct[b] = "parent" /\ Sought(a) \notin view[a][b]
       \* uncles are looked at only in a round in which the parent slots are (still) full
       \/ /\ loc[a].ct[b] = "uncle" /\ Sought(a) \notin view[a][b]
          /\ Cardinality({x \in Peers(a) : x \notin closed[a] /\ loc[a].ct[x] = "parent" /\ Sought(a) \in view[a][x]}) >= LimParent
\* what one discover tick of node a would do in the current state (a request also needs the peer to be
\* neither in transit nor rejected: transitPeer)
\* (a node that is not root first turns its friends into orphans -- request none -- and then looks for
\* parents and uncles among the orphans, the former friends included)
Demoted(a) == IF IsRoot(role[a]) THEN loc[a]
              ELSE LET fr == {b \in Nodes : loc[a].ct[b] = "friend"}
                   IN [loc[a] EXCEPT !.ct = [b \in Nodes |-> IF b \in fr THEN "none" ELSE loc[a].ct[b]],
                                     !.trans = @ \ fr, !.rej = @ \ fr]   \* updatePeerConnectionType forgets both marks
Tick(a) == [req |-> {<<b, t>> \in Peers(a) \X {"friend", "parent", "uncle", "none"} :
                       /\ b \notin closed[a]
                       /\ IF t = "none" THEN Seeks(a, b, t) ELSE SeeksL(Demoted(a), a, b, t)
                       /\ (t # "none" => (b \notin Demoted(a).trans /\ b \notin Demoted(a).rej))},
            close |-> {b \in Peers(a) : b \notin closed[a] /\ DiscoverCloses(a, b)}]

\* ---- history
Proj == [a \in Nodes |-> [ct |-> [b \in Peers(a) |-> loc[a].ct[b]], trans |-> loc[a].trans, rej |-> loc[a].rej,
                          closed |-> closed[a], q |-> [b \in Peers(a) |-> Len(net[<<a, b>>])],
                          tick |-> Tick(a), np |-> CountL(loc[a], a, "parent"), nu |-> CountL(loc[a], a, "uncle")]]
Log(e) == /\ nops' = nops + 1
          /\ hist' = IF RecordHist THEN Append(hist, e @@ [st |-> Proj']) ELSE hist
Ev(op, a, b, t, c, v) == [op |-> op, a |-> a, b |-> b, t |-> t, c |-> c, v |-> v]

L0 == [ct |-> [b \in Nodes |-> "none"], trans |-> {}, attr |-> [b \in Nodes |-> "no"], rej |-> {}]
Init == /\ role \in RoleCfgs
        /\ view = [a \in Nodes |-> role]
        /\ loc = [a \in Nodes |-> L0] /\ closed = [a \in Nodes |-> {}]
        /\ net = [p \in Nodes \X Nodes |-> <<>>] /\ byz = {}
        /\ nrole = 0 /\ ninj = 0 /\ nops = 0
        /\ hist = IF RecordHist THEN <<[op |-> "cfg", role |-> role, lim |-> [parent |-> LimParent, uncle |-> LimUncle,
                     children |-> LimChildren, nephew |-> LimNephew, other |-> LimOther]]>> ELSE <<>>

\* closing a's peer object for b: out of every set, its send queue is dropped
CloseAt(a, b) == /\ closed' = [closed EXCEPT ![a] = @ \cup {b}]
Dropped(L, b) == [L EXCEPT !.trans = @ \ {b}, !.rej = @ \ {b}]

\* a request outside the discover decisions (a foreign implementation, a stale decision) taints the pair
ConnRequest(a, b, t) ==
  /\ b \in Peers(a) /\ b \notin closed[a] /\ (OnlyDiscover => Seeks(a, b, t))
  /\ LET tr == Transit(loc[a], a, b, t) IN
     /\ loc' = [loc EXCEPT ![a] = tr.L]
     /\ net' = [net EXCEPT ![<<a, b>>] = @ \o tr.send]
     /\ byz' = IF Seeks(a, b, t) THEN byz ELSE byz \cup {<<a, b>>, <<b, a>>}
     /\ UNCHANGED <<role, view, closed, nrole, ninj>>
     /\ Log(Ev("request", a, b, t, IF Seeks(a, b, t) THEN "discover" ELSE "foreign", IF tr.ok THEN "sent" ELSE "refused"))

\* the head packet of a->b reaches b (dropped if b has closed that connection)
Deliver(a, b) ==
  /\ b \in Peers(a) /\ net[<<a, b>>] # <<>>
  /\ LET m == Head(net[<<a, b>>])
         rest == [net EXCEPT ![<<a, b>>] = Tail(@)]
     IN IF a \in closed[b]
        THEN /\ net' = rest /\ UNCHANGED <<role, view, loc, closed, byz, nrole, ninj>>
             /\ Log(Ev("deliver", a, b, m.rt, m.ct, "dropped:closed"))
        ELSE LET h == IF m.k = "req" THEN HandleReq(b, a, m.rt) ELSE HandleResp(b, a, m.rt, m.ct) IN
             /\ loc' = [loc EXCEPT ![b] = IF h.close THEN Dropped(h.L, a) ELSE h.L]
             /\ closed' = IF h.close THEN [closed EXCEPT ![b] = @ \cup {a}] ELSE closed
             /\ net' = IF h.close THEN [rest EXCEPT ![<<b, a>>] = <<>>] ELSE [rest EXCEPT ![<<b, a>>] = @ \o h.send]
             /\ UNCHANGED <<role, view, byz, nrole, ninj>>
             /\ Log(Ev(IF m.k = "req" THEN "deliver-req" ELSE "deliver-resp", a, b, m.rt, m.ct, h.verdict))

\* a misbehaving b answers (rt, c) to a without having been asked / regardless of its state
InjectResp(b, a, rt, c) ==
  /\ a \in Peers(b) /\ ninj < MaxInject /\ b \notin closed[a] /\ a \notin closed[b]
  /\ net' = [net EXCEPT ![<<b, a>>] = Append(@, Resp(rt, c))]
  /\ byz' = byz \cup {<<b, a>>, <<a, b>>} /\ ninj' = ninj + 1
  /\ UNCHANGED <<role, view, loc, closed, nrole>>
  /\ Log(Ev("inject", b, a, rt, c, ""))

RoleChange(a, r) ==
  /\ nrole < MaxRoleChanges /\ r # role[a]
  /\ role' = [role EXCEPT ![a] = r] /\ nrole' = nrole + 1
  /\ UNCHANGED <<view, loc, closed, net, byz, ninj>>
  /\ Log(Ev("role", a, "", "", "", IF r = {} THEN "none" ELSE IF r = {"seed"} THEN "seed" ELSE IF r = {"root"} THEN "root" ELSE "seedroot"))

\* query / query result: x now knows the current role of a
Learn(x, a) ==
  /\ a \in Peers(x) /\ a \notin closed[x] /\ view[x][a] # role[a]
  /\ view' = [view EXCEPT ![x][a] = role[a]]
  /\ UNCHANGED <<role, loc, closed, net, byz, nrole, ninj>>
  /\ Log(Ev("learn", x, a, "", "", ""))

PeerClose(a, b) ==
  /\ b \in Peers(a) /\ b \notin closed[a]
  /\ Cardinality({p \in Nodes \X Nodes : p[2] \in closed[p[1]]}) < MaxCloses
  /\ closed' = [closed EXCEPT ![a] = @ \cup {b}]
  /\ loc' = [loc EXCEPT ![a] = Dropped(@, b)]
  /\ net' = [net EXCEPT ![<<a, b>>] = <<>>]
  /\ UNCHANGED <<role, view, byz, nrole, ninj>>
  /\ Log(Ev("close", a, b, "", "", ""))

Can == nops < MaxOps
Next == \/ \E a \in Nodes, b \in Nodes, t \in ReqTypes : Can /\ ConnRequest(a, b, t)
        \/ \E a \in Nodes, b \in Nodes : Can /\ Deliver(a, b)
        \/ \E a \in Nodes, b \in Nodes, rt \in ReqTypes \cap {"friend", "parent", "uncle"}, c \in RespTypes : Can /\ InjectResp(b, a, rt, c)
        \/ \E a \in Nodes, r \in Roles : Can /\ RoleChange(a, r)
        \/ \E x \in Nodes, a \in Nodes : Can /\ Learn(x, a)
        \/ \E a \in Nodes, b \in Nodes : Can /\ PeerClose(a, b)
Spec == Init /\ [][Next]_vars

----------------------------------------------------------------------------
(* Properties *)
Count(a, t) == CountL(loc[a], a, t)
TypeOK == \A a \in Nodes : /\ \A b \in Peers(a) : loc[a].ct[b] \in Types
                           /\ loc[a].trans \subseteq Peers(a) /\ loc[a].rej \subseteq Peers(a)
                           /\ loc[a].trans \cap closed[a] = {} /\ loc[a].rej \cap closed[a] = {}
\* the per-type limits are never exceeded
LimitsHold == \A a \in Nodes, t \in {"parent", "uncle", "children", "nephew", "other"} : Count(a, t) <= Lim(t)
\* a handler never creates a tree relation (parent/children/uncle/nephew) towards a peer while the
\* node is root and knows that peer as root: roots are friends (or, on a foreign request, "other")
TreeType(t) == t \in {"parent", "children", "uncle", "nephew"}
RootsNotInTree ==
  [][\A a \in Nodes, b \in Nodes :
       (b \in Peers(a) /\ loc'[a].ct[b] # loc[a].ct[b] /\ TreeType(loc'[a].ct[b]))
          => ~(IsRoot(role[a]) /\ IsRoot(view[a][b]))]_vars
\* both ends agree on complementary types once the negotiation between them is over: nothing in
\* flight or in transit between them, both sides open, only discover-loop requests and no forged
\* packets between them, no role ever changed (views accurate)
Compl(t) == CASE t = "parent" -> "children" [] t = "children" -> "parent" [] t = "uncle" -> "nephew"
              [] t = "nephew" -> "uncle" [] OTHER -> t
Quiet(a, b) == /\ net[<<a, b>>] = <<>> /\ net[<<b, a>>] = <<>>
               /\ b \notin loc[a].trans /\ a \notin loc[b].trans
               /\ b \notin closed[a] /\ a \notin closed[b]
               /\ <<a, b>> \notin byz /\ nrole = 0
Agreement == \A a \in Nodes, b \in Nodes : (b \in Peers(a) /\ Quiet(a, b)) => loc[b].ct[a] = Compl(loc[a].ct[b])
=============================================================================
