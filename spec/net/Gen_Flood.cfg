SPECIFICATION Spec
CONSTANTS
  Peers = {"p1", "p2", "p3"}
  Srcs = {"p1", "p2", "p3", "self", "x"}
  Dests = {"any", "root", "seed", "peer"}
  Ttls = {0, 1}
  Bodies = {1, 2}
  Protos = {"ok", "unk"}
  RoleCfgs <- GenRoleCfgs
  AllowCfgs <- GenAllowCfgs
  TypeCfgs <- GenTypeCfgs
  NB = 2
  LB = 2
  MaxOps = 8
  RecordHist = TRUE
  Depth = 8
INVARIANT Emit
