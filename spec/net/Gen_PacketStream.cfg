SPECIFICATION Spec
CONSTANTS
  Hdrs = {1, 2}
  Lens = {0, 1, 3}
  ELens = {0, 1, 3}
  MaxLen = 3
  MaxPkts = 2
  MaxHits = 2
  RecordHist = TRUE
  Depth = 6
INVARIANT Emit
CONSTRAINT Bound
