---- MODULE Gen_Handshake ----
EXTENDS Handshake, Json
CONSTANT Depth
Done == /\ \A s \in Dialled : dph[s] \in {"acc", "closed"} /\ aph[s] \in {"acc", "closed"}
        /\ \A t \in Replayed : aph[t] \in {"acc", "closed"}
\* a run is printed at the requested depth or when all sessions are over
Emit == (Len(hist) = Depth \/ (Done /\ Len(hist) > 0)) => PrintT(<<"B", ToJson(hist)>>)
====
