SPECIFICATION Spec
CONSTANTS
  Hdrs = {1, 2}
  Lens = {0, 1, 3}
  ELens = {0, 1, 3}
  MaxLen = 3
  MaxPkts = 2
  MaxHits = 2
  RecordHist = FALSE
VIEW ViewNoHist
INVARIANT TypeOK RoundTrip Prompt HeaderPayloadIntact CorruptionRejected CorruptionReported
