---- MODULE Gen_PacketStream ----
EXTENDS PacketStream, Json
CONSTANT Depth
\* complete runs only: a behaviour is printed when the reader has seen end-of-stream
Emit == (eof /\ Len(hist) <= Depth) => PrintT(<<"B", ToJson(hist)>>)
Bound == Len(hist) < Depth
====
