---- MODULE Gen_Topology ----
EXTENDS MC_Topology, Json
CONSTANT Depth
\* hist[1] is the configuration entry
Emit == (Len(hist) = Depth + 1) => PrintT(<<"B", ToJson(hist)>>)
GenRoleCfgs == {Cfg("r", "r", "s"), Cfg("r", "s", "n"), Cfg("s", "s", "n"), Cfg("r", "s", "s"), Cfg("s", "n", "n"),
                Cfg("r", "r", "r"), Cfg("b", "s", "n"), Cfg("n", "s", "r")}
\* limit scenarios: one upstream node, two nodes competing for its single children / nephew slot
GenLimitCfgs == {Cfg("r", "s", "s"), Cfg("s", "n", "n")}
\* upstream scenarios: one node with two candidates for its single parent slot -- the second answer finds
\* the slot taken, the node asks that peer to be its uncle instead (handleP2PConnectionResponse retry)
GenUpstreamCfgs == {Cfg("r", "r", "s"), Cfg("s", "s", "n")}
====
