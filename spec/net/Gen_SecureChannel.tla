---- MODULE Gen_SecureChannel ----
EXTENDS SecureChannel, Json
CONSTANT Depth
Emit == (Len(hist) = Depth) => PrintT(<<"B", ToJson(hist)>>)
====
