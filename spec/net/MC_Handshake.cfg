SPECIFICATION Spec
CONSTANTS
  Sessions = {1, 2, 3, 4}
  PkForms = {"comp", "uncomp", "bad"}
  SigForms = {"full", "nov", "vflip", "rflip", "empty", "short", "long"}
  MaxOps = 12
  MaxChurn = 1
  RecordHist = FALSE
INVARIANT AcceptorFresh SecretsDistinct ReplayedNeverIdentified BoundToSession NoImpersonationAtAcceptor DialerSeesSessionEnd AttackerNeverOther
PROPERTIES IdentityFinal ClosedStaysClosed
