SPECIFICATION Spec
CONSTANTS
  Sessions = {1, 2, 3, 4}
  PkForms = {"comp", "uncomp", "bad"}
  SigForms = {"full", "nov", "vflip", "rflip", "empty", "short", "long"}
  MaxOps = 12
  MaxChurn = 1
  Suites = {"none", "tls:chacha", "ecdhe:chacha"}
  DialerSelfCheck = TRUE
  RecordHist = FALSE
INVARIANT SecretExists AcceptorFresh SecretsDistinct ReplayedNeverIdentified BoundToSession NoImpersonationAtAcceptor NoIdentityWithoutKey DialerSeesSessionEnd AttackerNeverOther
PROPERTIES IdentityFinal ClosedStaysClosed
