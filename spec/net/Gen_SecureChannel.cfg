SPECIFICATION Spec
CONSTANTS
  WriteSizes = {1, 1023, 1024, 1025, 2500}
  ReadSizes = {1, 7, 1024, 4096}
  Frame = 1024
  MaxOps = 4
  MaxAttacks = 1
  AttackKinds = {"tamper", "drop", "dup", "swap", "replay", "replayfar", "reflect"}
  FarDist = {256}
  RecordHist = TRUE
  Depth = 4
INVARIANT Emit
