---------------------------- MODULE PacketStream ----------------------------
(* P2P packet framing (network/packet.go), property C30.

   A writer (PacketWriter.WritePacket -> Packet.WriteTo) puts packets on a byte stream as
        header | payload | footer | ext
   header = fixed fields (protocol, sub-protocol, src, dest, ttl) + payload length,
   footer = FNV-64a hash over header and payload + extend-info (hint, ext length).
   The transport cuts the stream into arbitrary chunks; the reader
   (PacketReader.ReadPacket -> Packet.ReadFrom -> _read loops) collects
   header, payload, footer, ext in that order across chunk boundaries, then compares the
   hash.  An attacker/fault may alter one unit of the stream in transit, and in addition the
   footer hash of the same packet (garbling it or blanking it to all zeros -- the sender-side
   convention "hash 0 = not calculated yet" must not leak into the reader).

   Abstraction: the stream is a sequence of CELLS.  The fixed header fields are one cell
   (value = abstract header id), the payload length is one cell (value = number of payload
   cells), each payload/ext cell stands for a block of bytes, the hash is one cell holding
   the symbolic term HashCell(header cell, length cell, payload cells), the extend-info is
   one cell (value = number of ext cells).  The reader sees only cell VALUES and positions
   (never the role a cell had for the writer), so a wrong length makes it mis-frame
   whatever follows, exactly like the byte-level reader.  The ext part is outside the hash
   (relays append to it: p2p.go sendToFriends), so altering it is not detected. *)
EXTENDS Integers, Sequences, FiniteSets, TLC
CONSTANTS Hdrs,        \* abstract header-field values used by the writer (positive integers < Garbled)
          Lens,        \* payload lengths (cells) used by the writer
          ELens,       \* ext lengths (cells) used by the writer
          MaxLen,      \* largest payload length the reader accepts (DefaultPacketPayloadMax)
          MaxPkts,     \* packets written in one run
          MaxHits,     \* 1: one altered cell; 2: a second alteration, of the footer hash of the same packet
          RecordHist   \* TRUE in the generator: keep the event history with predictions

SetMax(S) == CHOOSE x \in S : \A y \in S : y <= x
MaxE == SetMax(ELens)
MaxWire == MaxPkts * (4 + SetMax(Lens) + MaxE)     \* longest stream of a run, in cells
Garbled == 99                        \* value of a cell after an in-transit alteration of its bytes
PayCell(i) == i                      \* content of the i-th payload block
ExtCell(i) == 10 + i                 \* content of the i-th ext block
Data(v) == [k |-> "d", v |-> v]
HashCell(hv, pl, pay) == [k |-> "h", hv |-> hv, pl |-> pl, pay |-> pay]  \* injective symbolic hash
IsData(c) == c.k = "d"
CellVal(c) == IF IsData(c) THEN c.v ELSE -1
Nil == Data(-1)

Pkts == [hv : Hdrs, pl : Lens, el : ELens]
PayCells(p) == [i \in 1..p.pl |-> Data(PayCell(i))]
ExtCells(p) == [i \in 1..p.el |-> Data(ExtCell(i))]
\* the cells of one packet as written, tagged with their role (roles are invisible to the reader)
Tag(c, kind, n) == [c |-> c, kind |-> kind, p |-> n]
WireOf(p, n) ==
     <<Tag(Data(p.hv), "hv", n), Tag(Data(p.pl), "pl", n)>>
  \o [i \in 1..p.pl |-> Tag(Data(PayCell(i)), "pay", n)]
  \o <<Tag(HashCell(Data(p.hv), Data(p.pl), PayCells(p)), "hash", n), Tag(Data(p.el), "el", n)>>
  \o [i \in 1..p.el |-> Tag(Data(ExtCell(i)), "ext", n)]

VARIABLES sent,      \* packets handed to WritePacket, in order
          wire,      \* all cells put on the stream so far (tagged)
          pos,       \* number of cells already handed to the reader
          closed,    \* writer closed the stream
          eof,       \* the reader has seen end-of-stream
          rs,        \* reader: phase, cells still needed, collected cells, parsed parts
          out,       \* packets returned by ReadPacket, in order
          dead,      \* ReadPacket returned an error (the peer closes the connection)
          hit,       \* the alterations made in transit: sequence of [at, kind, p, v] (at most MaxHits)
          hist
vars == <<sent, wire, pos, closed, eof, rs, out, dead, hit, hist>>

R0 == [ph |-> "hdr", need |-> 2, acc |-> <<>>, hv |-> Nil, pl |-> Nil, pay |-> <<>>, hs |-> Nil, el |-> Nil]

\* ---- the reader (Packet.ReadFrom), one cell at a time; st = [rs, out, dead]
Deliver(st, ext) ==
  LET r == st.rs IN
  IF r.hs = HashCell(r.hv, r.pl, r.pay)
  THEN [rs |-> R0, dead |-> FALSE,
        out |-> Append(st.out, [hv |-> CellVal(r.hv), pay |-> [i \in 1..Len(r.pay) |-> CellVal(r.pay[i])],
                                el |-> CellVal(r.el), ext |-> [i \in 1..Len(ext) |-> CellVal(ext[i])]])]
  ELSE [st EXCEPT !.dead = TRUE]                      \* "invalid hashOfPacket"

RECURSIVE Complete(_)
\* the cells needed by the current phase are all there
Complete(st) ==
  LET r == st.rs IN
  CASE r.ph = "hdr" ->
         (IF ~IsData(r.acc[2]) \/ r.acc[2].v > MaxLen \/ r.acc[2].v < 0
          THEN [st EXCEPT !.dead = TRUE]              \* "invalid lengthOfPayload"
          ELSE LET n == [st EXCEPT !.rs = [r EXCEPT !.ph = "pay", !.need = r.acc[2].v, !.acc = <<>>,
                                                     !.hv = r.acc[1], !.pl = r.acc[2]]]
               IN IF r.acc[2].v = 0 THEN Complete(n) ELSE n)
    [] r.ph = "pay" -> [st EXCEPT !.rs = [r EXCEPT !.ph = "ftr", !.need = 2, !.acc = <<>>, !.pay = r.acc]]
    [] r.ph = "ftr" ->
         (IF ~IsData(r.acc[2]) \/ r.acc[2].v < 0
          THEN [st EXCEPT !.dead = TRUE]              \* mis-framed garbage: no packet comes out of it
          ELSE LET n == [st EXCEPT !.rs = [r EXCEPT !.ph = "ext", !.need = r.acc[2].v, !.acc = <<>>,
                                                     !.hs = r.acc[1], !.el = r.acc[2]]]
               IN IF r.acc[2].v = 0 THEN Complete(n) ELSE n)
    [] r.ph = "ext" -> Deliver(st, r.acc)

FeedCell(st, c) ==
  IF st.dead THEN st
  ELSE LET r == [st.rs EXCEPT !.acc = Append(st.rs.acc, c)]
           s == [st EXCEPT !.rs = r]
       IN IF Len(r.acc) = r.need THEN Complete(s) ELSE s

RECURSIVE Feed(_, _)
Feed(st, cells) == IF cells = <<>> THEN st ELSE Feed(FeedCell(st, Head(cells).c), Tail(cells))

\* ---- history (generator): every event with the reader's predicted output after it
Log(e) == hist' = IF RecordHist THEN Append(hist, e @@ [out |-> out', dead |-> dead', nout |-> Len(out')]) ELSE hist

Init == /\ sent = <<>> /\ wire = <<>> /\ pos = 0 /\ closed = FALSE /\ eof = FALSE
        /\ rs = R0 /\ out = <<>> /\ dead = FALSE /\ hit = <<>> /\ hist = <<>>

\* PacketWriter.WritePacket(p): the whole packet goes onto the stream
Write(p) ==
  /\ ~closed /\ Len(sent) < MaxPkts
  /\ sent' = Append(sent, p)
  /\ wire' = wire \o WireOf(p, Len(sent) + 1)
  /\ UNCHANGED <<pos, closed, eof, rs, out, dead, hit>>
  /\ Log([op |-> "write", hv |-> p.hv, pl |-> p.pl, el |-> p.el, at |-> 0, kind |-> "", v |-> 0, n |-> 0])

\* the transport hands the next j cells to the reader (one or more Read calls of _read)
Chunk(j) ==
  /\ ~eof /\ j >= 1 /\ pos + j <= Len(wire)
  /\ LET st == Feed([rs |-> rs, out |-> out, dead |-> dead], SubSeq(wire, pos + 1, pos + j))
     IN rs' = st.rs /\ out' = st.out /\ dead' = st.dead
  /\ pos' = pos + j
  /\ UNCHANGED <<sent, wire, closed, eof, hit>>
  /\ Log([op |-> "chunk", hv |-> 0, pl |-> 0, el |-> 0, at |-> 0, kind |-> "", v |-> 0, n |-> j])

\* values an altered cell can take, by the role the cell had for the writer
Zero == 0                            \* the hash cell with all bytes zero
Alter(kind, old) ==
  CASE kind = "pl" -> (0..(MaxLen + 1)) \ {old}
    [] kind = "el" -> (0..MaxE) \ {old}
    [] kind = "hash" -> {Garbled, Zero}
    [] OTHER -> {Garbled}

AlterVals == (0..(MaxLen + 1)) \cup (0..MaxE) \cup {Garbled}
\* one cell that has not reached the reader yet is altered in transit
\* (a second alteration is the footer hash of the packet that was altered first)
Corrupt(i, v) ==
  /\ i > pos /\ i <= Len(wire)
  /\ \/ hit = <<>>
     \/ /\ Len(hit) = 1 /\ MaxHits >= 2 /\ hit[1].kind # "hash"
        /\ wire[i].kind = "hash" /\ wire[i].p = hit[1].p
  /\ v \in Alter(wire[i].kind, CellVal(wire[i].c))
  /\ (hit # <<>> => v = Zero)          \* (a garbled hash on top of another alteration adds nothing)
  /\ wire' = [wire EXCEPT ![i].c = Data(v)]
  /\ hit' = Append(hit, [at |-> i, kind |-> wire[i].kind, p |-> wire[i].p, v |-> v])
  /\ UNCHANGED <<sent, pos, closed, eof, rs, out, dead>>
  /\ Log([op |-> "corrupt", hv |-> 0, pl |-> 0, el |-> 0, at |-> i, kind |-> wire[i].kind, v |-> v, n |-> wire[i].p])

Close ==
  /\ ~closed /\ closed' = TRUE
  /\ UNCHANGED <<sent, wire, pos, eof, rs, out, dead, hit>>
  /\ Log([op |-> "close", hv |-> 0, pl |-> 0, el |-> 0, at |-> 0, kind |-> "", v |-> 0, n |-> 0])

\* the reader runs into end-of-stream: inside a packet that is an error
Eof ==
  /\ closed /\ ~eof /\ pos = Len(wire)
  /\ eof' = TRUE
  /\ dead' = (dead \/ rs # R0)
  /\ UNCHANGED <<sent, wire, pos, closed, rs, out, hit>>
  /\ Log([op |-> "eof", hv |-> 0, pl |-> 0, el |-> 0, at |-> 0, kind |-> "", v |-> 0, n |-> 0])

Next == \/ \E p \in Pkts : Write(p)
        \/ \E j \in 1..MaxWire : Chunk(j)
        \/ \E i \in 1..MaxWire, v \in AlterVals : Corrupt(i, v)
        \/ Close
        \/ Eof
Spec == Init /\ [][Next]_vars

----------------------------------------------------------------------------
(* Properties (C30) *)
Proj(p) == [hv |-> p.hv, pay |-> [i \in 1..p.pl |-> PayCell(i)], el |-> p.el, ext |-> [i \in 1..p.el |-> ExtCell(i)]]
TypeOK == /\ pos <= Len(wire) /\ Len(out) <= Len(sent) /\ Len(hit) <= MaxHits
          /\ (eof => closed)
\* without alteration the reader returns exactly the written packets, in order, for every chunking
RoundTrip ==
  hit = <<>> => /\ \A i \in 1..Len(out) : out[i] = Proj(sent[i])
                /\ (eof => (~dead /\ Len(out) = Len(sent)))
                /\ (~eof => ~dead)
\* a packet is returned as soon as its last cell has arrived (no alteration)
Prompt ==
  (hit = <<>> /\ rs = R0 /\ pos = Len(wire)) => Len(out) = Len(sent)
\* whatever is altered, header fields and payload of every returned packet are those written
HeaderPayloadIntact ==
  \A i \in 1..Len(out) : out[i].hv = sent[i].hv /\ out[i].pay = Proj(sent[i]).pay
\* an altered header, payload or hash: that packet and everything after it is never returned
\* (also when the footer hash was altered as well, in particular blanked to zero)
Protected(h) == h.kind \in {"hv", "pl", "pay", "hash"}
CorruptionRejected ==
  \A i \in 1..Len(hit) : Protected(hit[i]) => Len(out) < hit[i].p
\* ... and the reader has reported the error at the latest when the stream ends
CorruptionReported ==
  ((\E i \in 1..Len(hit) : Protected(hit[i])) /\ eof) => dead
=============================================================================
