---------------------------- MODULE Handshake ----------------------------
(* Peer authentication (network/authenticator.go, network/peerid.go), property C32.

   After the key exchange (SecureRequest / SecureResponse: fresh ECDH keys on both sides, HKDF
   yields the traffic keys and a per-session secret "extra" that never travels) the dialer sends
       SignatureRequest(publicKey, Sign_key(extra))
   the acceptor verifies it (Authenticator.VerifySignature over ITS OWN extra of this
   connection), refuses its own identity, assigns the identity of the public key to the peer,
   answers SignatureResponse(publicKey, Sign_key(extra)) and hands the peer to the next
   handler; the dialer verifies the response the same way and does likewise.

   Up to three sessions run concurrently against the same acceptor node b:
       session 1: honest dialer a          session 2: dialer m, the attacker's own node
       session 3: node b itself dialling its own listener (a self-connection, e.g. through a relay).
   The attacker controls the network: it sees every signature message, delivers, replaces or
   splices them between sessions, and can sign with m's key whatever it knows (only the secret
   of its own session).  Cryptography is symbolic: a signature is the term [w, c] (signer,
   content); it verifies under public key k against content x iff w = owner(k) and c = x and
   its encoding was not damaged.  Session secrets are the session numbers. *)
EXTENDS Integers, Sequences, FiniteSets, TLC
CONSTANTS Sessions,     \* subset of {1, 2, 3}
          PkForms,      \* encodings of a public key: "comp", "uncomp" parse; "bad" does not
          SigForms,     \* "full", "nov" (64 bytes), "vflip" verify;  "rflip" does not verify;
                        \* "empty", "short", "long" do not parse
          MaxOps,
          RecordHist

Acceptor == "b"
Attacker == "m"
DialerOf(s) == CASE s = 1 -> "a" [] s = 2 -> Attacker [] OTHER -> Acceptor
Wallets == {"a", "b", "m"}
Known == {s \in Sessions : DialerOf(s) = Attacker}     \* session secrets the attacker knows

VARIABLES dph, did,     \* dialer side of each session: "idle" | "wait" | "acc" | "closed", assigned identity
          aph, aid,     \* acceptor side: "idle" | "wait" | "acc" | "closed", assigned identity
          amsg, dmsg,   \* the message on which the identity was assigned
          seen,         \* signature terms that have travelled over the network
          nops, hist
vars == <<dph, did, aph, aid, amsg, dmsg, seen, nops, hist>>

Msg(pkw, pkf, sw, sc, sf, err) == [pkw |-> pkw, pkf |-> pkf, sw |-> sw, sc |-> sc, sf |-> sf, err |-> err]
\* what the attacker can put into a signature message
\* (its own signature over the secret of its own session is among them once that session has started;
\* it cannot sign a secret it does not know)
Constructible(m) == [w |-> m.sw, c |-> m.sc] \in seen
Msgs == {Msg(pkw, pkf, sw, sc, sf, FALSE) : pkw \in Wallets, pkf \in PkForms, sw \in Wallets, sc \in Sessions, sf \in SigForms}

\* Authenticator.VerifySignature(publicKey, signature, extra of session s)
Verify(m, s) ==
  IF m.pkf = "bad" THEN "error:pubkey"
  ELSE IF m.sf \in {"empty", "short", "long"} THEN "error:sigparse"
  ELSE IF m.sf = "rflip" \/ m.sw # m.pkw \/ m.sc # s THEN "error:verify"
  ELSE "ok"

Log(e) == /\ nops' = nops + 1
          /\ hist' = IF RecordHist THEN Append(hist, e) ELSE hist
Rec(op, s, m, res, id) == [op |-> op, s |-> s, pkw |-> m.pkw, pkf |-> m.pkf, sw |-> m.sw, sc |-> m.sc, sf |-> m.sf,
                            err |-> m.err, res |-> res, id |-> id]
NoMsg == Msg("", "", "", 0, "", FALSE)

Init == /\ dph = [s \in Sessions |-> "idle"] /\ did = [s \in Sessions |-> ""]
        /\ aph = [s \in Sessions |-> "idle"] /\ aid = [s \in Sessions |-> ""]
        /\ amsg = [s \in Sessions |-> NoMsg] /\ dmsg = [s \in Sessions |-> NoMsg]
        /\ seen = {} /\ nops = 0 /\ hist = <<>>

\* connection + key exchange of session s, the dialer emits its genuine SignatureRequest
Start(s) ==
  /\ dph[s] = "idle"
  /\ dph' = [dph EXCEPT ![s] = "wait"] /\ aph' = [aph EXCEPT ![s] = "wait"]
  /\ seen' = seen \cup {[w |-> DialerOf(s), c |-> s]}
  /\ UNCHANGED <<did, aid, amsg, dmsg>>
  /\ Log(Rec("start", s, NoMsg, "ok", DialerOf(s)))

\* Authenticator.handleSignatureRequest on the acceptor's peer object of session s
ToAcceptor(s, m) ==
  /\ aph[s] = "wait" /\ Constructible(m)
  /\ LET v == Verify(m, s)
         res == IF v # "ok" THEN v ELSE IF m.pkw = Acceptor THEN "error:self" ELSE "accept"
     IN /\ aph' = [aph EXCEPT ![s] = IF res = "accept" THEN "acc" ELSE "closed"]
        /\ aid' = [aid EXCEPT ![s] = IF res = "accept" THEN m.pkw ELSE @]
        /\ amsg' = [amsg EXCEPT ![s] = IF res = "accept" THEN m ELSE @]
        \* an accepting acceptor answers with its own signature over this session's secret
        /\ seen' = IF res = "accept" THEN seen \cup {[w |-> Acceptor, c |-> s]} ELSE seen
        /\ UNCHANGED <<dph, did, dmsg>>
        /\ Log(Rec("toacc", s, m, res, IF res = "accept" THEN m.pkw ELSE ""))

\* Authenticator.handleSignatureResponse on the dialer's peer object of session s
ToDialer(s, m) ==
  /\ dph[s] = "wait" /\ (m.err \/ Constructible(m))
  /\ LET v == Verify(m, s)
         res == IF m.err THEN "error:remote" ELSE IF v # "ok" THEN v ELSE "accept"
     IN /\ dph' = [dph EXCEPT ![s] = IF res = "accept" THEN "acc" ELSE "closed"]
        /\ did' = [did EXCEPT ![s] = IF res = "accept" THEN m.pkw ELSE @]
        /\ dmsg' = [dmsg EXCEPT ![s] = IF res = "accept" THEN m ELSE @]
        /\ UNCHANGED <<aph, aid, amsg, seen>>
        /\ Log(Rec("todial", s, m, res, IF res = "accept" THEN m.pkw ELSE ""))

Can == nops < MaxOps
ErrMsg == Msg("", "", "", 0, "", TRUE)
Next == \/ \E s \in Sessions : Can /\ Start(s)
        \/ \E s \in Sessions, m \in Msgs : Can /\ ToAcceptor(s, m)
        \/ \E s \in Sessions, m \in Msgs \cup {ErrMsg} : Can /\ ToDialer(s, m)
Spec == Init /\ [][Next]_vars

----------------------------------------------------------------------------
(* Properties (C32) *)
\* who can produce a signature over the secret of session s: its two end points
Ends(s) == {DialerOf(s), Acceptor}
\* an identity is assigned only on a message whose signature is by that identity's key over the
\* secret of this very session, with intact encodings
Bound(m, s, id) == /\ m.pkw = id /\ m.sw = id /\ m.sc = s /\ ~m.err
                   /\ m.pkf \in {"comp", "uncomp"} /\ m.sf \in {"full", "nov", "vflip"}
BoundToSession == \A s \in Sessions : /\ (aph[s] = "acc" => Bound(amsg[s], s, aid[s]))
                                       /\ (dph[s] = "acc" => Bound(dmsg[s], s, did[s]))
\* consequence on the acceptor: nobody but the real dialer of the session gets an identity there --
\* the attacker cannot obtain a's identity with a signature from another session, nor b's own
NoImpersonationAtAcceptor == \A s \in Sessions : aph[s] = "acc" => (aid[s] = DialerOf(s) /\ aid[s] # Acceptor)
\* consequence on the dialer: the identity belongs to an end point of this session (the dialer side has
\* no self-identity test, so a reflected SignatureRequest yields the dialer's own identity)
DialerSeesSessionEnd == \A s \in Sessions : dph[s] = "acc" => did[s] \in Ends(s)
\* the attacker is never taken for somebody else anywhere
AttackerNeverOther == \A s \in Known : (aph[s] = "acc" => aid[s] = Attacker)
=============================================================================
