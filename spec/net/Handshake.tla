---------------------------- MODULE Handshake ----------------------------
(* Peer authentication (network/authenticator.go, network/peerid.go), property C32.

   After the key exchange (SecureRequest / SecureResponse: fresh ECDH keys on both sides, HKDF
   yields the traffic keys and a per-session secret "extra" that never travels) the dialer sends
       SignatureRequest(publicKey, Sign_key(extra))
   the acceptor verifies it (Authenticator.VerifySignature over ITS OWN extra of this
   connection), refuses its own identity, assigns the identity of the public key to the peer,
   answers SignatureResponse(publicKey, Sign_key(extra)) and hands the peer to the next
   handler; the dialer verifies the response the same way and does likewise.

   Up to three sessions run concurrently against the same acceptor node b:
       session 1: honest dialer a          session 2: dialer m, the attacker's own node
       session 3: node b itself dialling its own listener (a self-connection, e.g. through a relay).
   The session secret is derived from BOTH ephemeral ECDH contributions: Secret(s) = <<deph[s], aeph[s]>>,
   the dialer's fresh key (sent in its SecureRequest) and the acceptor's fresh key (generated in
   handleSecureRequest for every inbound connection).  So the attacker may also REPLAY A WHOLE
   RECORDED TRANSCRIPT: it opens a new connection t to the acceptor, sends the recorded SecureRequest
   bytes of session s (same dialer contribution) and then that session's recorded SignatureRequest.
   Because the acceptor contributes fresh randomness to every session the new secret differs, the
   replayed signature does not verify and the connection is never identified as the recorded peer.
   The attacker controls the network: it sees every signature message, delivers, replaces or
   splices them between sessions, and can sign with m's key whatever it knows (only the secret
   of its own session).  Cryptography is symbolic: a signature is the term [w, c] (signer,
   content); it verifies under public key k against content x iff w = owner(k) and c = x and
   its encoding was not damaged.
   The identity assigned to an accepted connection is FINAL: whatever happens afterwards -- in
   particular any number of other peer ids being created in the process (NewPeerID /
   NewPeerIDFromAddress, packets with foreign src ids passing through the packet reader; the
   environment action OtherIds) -- the connection keeps exactly the identity that was proven. *)
EXTENDS Integers, Sequences, FiniteSets, TLC
CONSTANTS Suites,           \* secure suites a run may negotiate: "none", "tls:<aead>", "ecdhe:<aead>" -- the session secret and
                            \* everything below must not depend on it: every property holds for every suite
          DialerSelfCheck,  \* TRUE: the required behaviour (a dialer refuses its own identity, as the acceptor does);
                            \* FALSE: model of a dialer without that test (used as a probe: the invariant must fail)
          MaxChurn,     \* how often the environment action OtherIds may happen in a run
          Sessions,     \* subset of {1, 2, 3} (real dialers) \cup {4, 5} (connections opened by transcript replay)
          PkForms,      \* encodings of a public key: "comp", "uncomp" parse; "bad" does not
          SigForms,     \* "full", "nov" (64 bytes), "vflip" verify;  "rflip" does not verify;
                        \* "empty", "short", "long" do not parse
          MaxOps,
          RecordHist

Acceptor == "b"
Attacker == "m"
DialerOf(s) == CASE s = 1 -> "a" [] s = 2 -> Attacker [] s = 3 -> Acceptor [] OTHER -> "nobody"
Dialled == Sessions \cap {1, 2, 3}        \* sessions with a real dialer node
Replayed == Sessions \ {1, 2, 3}          \* connections the attacker opens with a recorded SecureRequest
Wallets == {"a", "b", "m"}
Known == {s \in Sessions : DialerOf(s) = Attacker}     \* session secrets the attacker knows

VARIABLES dph, did,     \* dialer side of each session: "idle" | "wait" | "acc" | "closed", assigned identity
          aph, aid,     \* acceptor side: "idle" | "wait" | "acc" | "closed", assigned identity
          deph, aeph,   \* ephemeral key contributions of the dialer / the acceptor (0 = none yet)
          src,          \* for a replayed connection: the session whose transcript is replayed
          amsg, dmsg,   \* the message on which the identity was assigned
          seen,         \* signature terms that have travelled over the network
          suite,        \* the secure suite the nodes of this run negotiate (chosen initially)
          churn,        \* number of OtherIds events so far
          nops, hist
vars == <<dph, did, aph, aid, deph, aeph, src, amsg, dmsg, seen, suite, churn, nops, hist>>

Msg(pkw, pkf, sw, sc, sf, err) == [pkw |-> pkw, pkf |-> pkf, sw |-> sw, sc |-> sc, sf |-> sf, err |-> err]
\* what the attacker can put into a signature message
\* (its own signature over the secret of its own session is among them once that session has started;
\* it cannot sign a secret it does not know)
Constructible(m) == [w |-> m.sw, c |-> m.sc] \in seen
Msgs == {Msg(pkw, pkf, sw, sc, sf, FALSE) : pkw \in Wallets, pkf \in PkForms, sw \in Wallets, sc \in Sessions, sf \in SigForms}

\* HKDF(ECDH(dialer contribution, acceptor contribution)): equal iff both contributions are equal
Secret(s) == <<deph[s], aeph[s]>>
\* Authenticator.VerifySignature(publicKey, signature, extra of session s); m.sc names the session
\* whose secret was signed
Verify(m, s) ==
  IF m.pkf = "bad" THEN "error:pubkey"
  ELSE IF m.sf \in {"empty", "short", "long"} THEN "error:sigparse"
  ELSE IF m.sf = "rflip" \/ m.sw # m.pkw \/ Secret(m.sc) # Secret(s) THEN "error:verify"
  ELSE "ok"

\* identities currently assigned: what Peer.ID() of the acceptor's / dialer's peer object must return
AccProj == {[s |-> s, side |-> "a", id |-> aid[s]] : s \in {x \in Sessions : aph[x] = "acc"}}
           \cup {[s |-> s, side |-> "d", id |-> did[s]] : s \in {x \in Sessions : dph[x] = "acc"}}
Log(e) == /\ nops' = nops + 1
          /\ suite' = suite
          /\ hist' = IF RecordHist THEN Append(hist, e @@ [acc |-> AccProj', suite |-> suite]) ELSE hist
Rec(op, s, m, res, id) == [op |-> op, s |-> s, pkw |-> m.pkw, pkf |-> m.pkf, sw |-> m.sw, sc |-> m.sc, sf |-> m.sf,
                            err |-> m.err, res |-> res, id |-> id]
NoMsg == Msg("", "", "", 0, "", FALSE)

Init == /\ dph = [s \in Sessions |-> "idle"] /\ did = [s \in Sessions |-> ""]
        /\ aph = [s \in Sessions |-> "idle"] /\ aid = [s \in Sessions |-> ""]
        /\ deph = [s \in Sessions |-> 0] /\ aeph = [s \in Sessions |-> 0] /\ src = [s \in Sessions |-> 0]
        /\ amsg = [s \in Sessions |-> NoMsg] /\ dmsg = [s \in Sessions |-> NoMsg]
        /\ seen = {} /\ suite \in Suites /\ churn = 0 /\ nops = 0 /\ hist = <<>>

\* connection + key exchange of session s, the dialer emits its genuine SignatureRequest
\* (both sides generate a fresh ephemeral key: 10+s and 20+s stand for fresh random values)
Start(s) ==
  /\ s \in Dialled /\ dph[s] = "idle"
  /\ dph' = [dph EXCEPT ![s] = "wait"] /\ aph' = [aph EXCEPT ![s] = "wait"]
  /\ deph' = [deph EXCEPT ![s] = 10 + s] /\ aeph' = [aeph EXCEPT ![s] = 20 + s]
  /\ seen' = seen \cup {[w |-> DialerOf(s), c |-> s]}
  /\ UNCHANGED <<did, aid, src, amsg, dmsg, churn>>
  /\ Log(Rec("start", s, NoMsg, "ok", DialerOf(s)))

\* the attacker opens connection t and sends the SecureRequest recorded in session s: the dialer
\* contribution is the recorded one, the acceptor generates a fresh key as for every connection;
\* nobody holds the private key of the recorded contribution, so nobody knows Secret(t).
\* (s is a session of an honest node: replaying its own transcript is just a new session of m.)
ReplayTranscript(t, s) ==
  /\ t \in Replayed /\ aph[t] = "idle" /\ s \in Dialled /\ DialerOf(s) # Attacker /\ dph[s] # "idle"
  /\ aph' = [aph EXCEPT ![t] = "wait"] /\ dph' = [dph EXCEPT ![t] = "closed"]
  /\ deph' = [deph EXCEPT ![t] = deph[s]] /\ aeph' = [aeph EXCEPT ![t] = 20 + t]
  /\ src' = [src EXCEPT ![t] = s]
  /\ UNCHANGED <<did, aid, amsg, dmsg, seen, churn>>
  /\ Log(Rec("replaytx", t, Msg("", "", DialerOf(s), s, "", FALSE), "ok", ""))

\* Authenticator.handleSignatureRequest on the acceptor's peer object of session s
ToAcceptor(s, m) ==
  /\ aph[s] = "wait" /\ Constructible(m)
  /\ LET v == Verify(m, s)
         res == IF v # "ok" THEN v ELSE IF m.pkw = Acceptor THEN "error:self" ELSE "accept"
     IN /\ aph' = [aph EXCEPT ![s] = IF res = "accept" THEN "acc" ELSE "closed"]
        /\ aid' = [aid EXCEPT ![s] = IF res = "accept" THEN m.pkw ELSE @]
        /\ amsg' = [amsg EXCEPT ![s] = IF res = "accept" THEN m ELSE @]
        \* an accepting acceptor answers with its own signature over this session's secret
        /\ seen' = IF res = "accept" THEN seen \cup {[w |-> Acceptor, c |-> s]} ELSE seen
        /\ UNCHANGED <<dph, did, dmsg, deph, aeph, src, churn>>
        /\ Log(Rec("toacc", s, m, res, IF res = "accept" THEN m.pkw ELSE ""))

\* Authenticator.handleSignatureResponse on the dialer's peer object of session s
ToDialer(s, m) ==
  /\ dph[s] = "wait" /\ (m.err \/ Constructible(m))
  /\ LET v == Verify(m, s)
         res == IF m.err THEN "error:remote" ELSE IF v # "ok" THEN v
                ELSE IF DialerSelfCheck /\ m.pkw = DialerOf(s) THEN "error:self" ELSE "accept"
     IN /\ dph' = [dph EXCEPT ![s] = IF res = "accept" THEN "acc" ELSE "closed"]
        /\ did' = [did EXCEPT ![s] = IF res = "accept" THEN m.pkw ELSE @]
        /\ dmsg' = [dmsg EXCEPT ![s] = IF res = "accept" THEN m ELSE @]
        /\ UNCHANGED <<aph, aid, amsg, seen, deph, aeph, src, churn>>
        /\ Log(Rec("todial", s, m, res, IF res = "accept" THEN m.pkw ELSE ""))

\* Protocol misuse on an established session: the side that waits for its signature message receives
\*   "garbage"  a packet of the awaited kind whose payload does not decode, or
\*   another message kind ("securerequest", "secureresponse", "othersig" = the signature message of the opposite direction):
\* the wait-state check / the decoder refuse it, the connection is closed, no identity is assigned.
Misuses == {"garbage", "securerequest", "secureresponse", "othersig"}
Misuse(s, side, what) ==
  /\ s \in Dialled /\ what \in Misuses
  /\ IF side = "a" THEN aph[s] = "wait" ELSE dph[s] = "wait"
  /\ aph' = IF side = "a" THEN [aph EXCEPT ![s] = "closed"] ELSE aph
  /\ dph' = IF side = "d" THEN [dph EXCEPT ![s] = "closed"] ELSE dph
  /\ UNCHANGED <<did, aid, deph, aeph, src, amsg, dmsg, seen, churn>>
  /\ Log(Rec("misuse", s, Msg("", what, "", 0, side, FALSE), IF what = "garbage" THEN "error:decode" ELSE "error:sequence", ""))
\* ... and on a fresh connection t opened by the attacker, before any key exchange:
\*   "earlysig"  a SignatureRequest as the very first message (there is no session secret yet),
\*   "badparam"  a SecureRequest whose ECDH parameter is not a point of the curve,
\*   "garbage"   an undecodable SecureRequest.
FreshMisuses == {"earlysig", "badparam", "garbage"}
FreshMisuse(t, what) ==
  /\ t \in Replayed /\ aph[t] = "idle" /\ what \in FreshMisuses
  /\ aph' = [aph EXCEPT ![t] = "closed"] /\ dph' = [dph EXCEPT ![t] = "closed"]
  /\ UNCHANGED <<did, aid, deph, aeph, src, amsg, dmsg, seen, churn>>
  /\ Log(Rec("freshmisuse", t, Msg("", what, "", 0, "a", FALSE),
             CASE what = "earlysig" -> "error:sequence" [] what = "badparam" -> "error:param" [] OTHER -> "error:decode", ""))

\* the environment creates many other peer ids (more than any id cache holds) while connections are
\* established: nothing about the sessions changes, in particular no assigned identity
OtherIds ==
  /\ churn < MaxChurn /\ (\E s \in Sessions : aph[s] = "acc" \/ dph[s] = "acc")
  /\ churn' = churn + 1
  /\ UNCHANGED <<dph, did, aph, aid, deph, aeph, src, amsg, dmsg, seen>>
  /\ Log(Rec("churn", 0, NoMsg, "ok", ""))

\* Reflection: the accepting end point of session s is run by an adversary that holds NO identity key.  It completes
\* the anonymous ephemeral key exchange (so it knows the session secret), receives the dialer's SignatureRequest and
\* answers with the dialer's OWN public key and signature as its SignatureResponse.  The signature is genuine and over
\* this very session's secret -- but the peer never proved possession of any key: required outcome "error:self",
\* connection closed, no identity.
Reflect(s, pkf) ==
  /\ s \in Dialled /\ dph[s] = "wait" /\ pkf \in PkForms \ {"bad"}
  /\ LET m == Msg(DialerOf(s), pkf, DialerOf(s), s, "full", FALSE)
         res == IF DialerSelfCheck THEN "error:self" ELSE "accept"
     IN /\ dph' = [dph EXCEPT ![s] = IF res = "accept" THEN "acc" ELSE "closed"]
        /\ did' = [did EXCEPT ![s] = IF res = "accept" THEN m.pkw ELSE @]
        /\ dmsg' = [dmsg EXCEPT ![s] = IF res = "accept" THEN m ELSE @]
        /\ UNCHANGED <<aph, aid, amsg, seen, deph, aeph, src, churn>>
        /\ Log(Rec("reflect", s, m, res, IF res = "accept" THEN m.pkw ELSE ""))

Can == nops < MaxOps
ErrMsg == Msg("", "", "", 0, "", TRUE)
Next == \/ \E s \in Sessions : Can /\ Start(s)
        \/ \E t \in Sessions, s \in Sessions : Can /\ ReplayTranscript(t, s)
        \/ \E s \in Sessions, m \in Msgs : Can /\ ToAcceptor(s, m)
        \/ \E s \in Sessions, m \in Msgs \cup {ErrMsg} : Can /\ ToDialer(s, m)
        \/ Can /\ OtherIds
        \/ \E s \in Sessions, pkf \in PkForms : Can /\ Reflect(s, pkf)
        \/ \E s \in Sessions, side \in {"a", "d"}, what \in Misuses : Can /\ Misuse(s, side, what)
        \/ \E t \in Sessions, what \in FreshMisuses : Can /\ FreshMisuse(t, what)
Spec == Init /\ [][Next]_vars

----------------------------------------------------------------------------
(* Properties (C32) *)
\* who can produce a signature over the secret of session s: its two end points
Ends(s) == {DialerOf(s), Acceptor} \ {"nobody"}
\* an identity is assigned only on a message whose signature is by that identity's key over the
\* secret of this very session, with intact encodings
Bound(m, s, id) == /\ m.pkw = id /\ m.sw = id /\ Secret(m.sc) = Secret(s) /\ ~m.err
                   /\ m.pkf \in {"comp", "uncomp"} /\ m.sf \in {"full", "nov", "vflip"}
BoundToSession == \A s \in Sessions : /\ (aph[s] = "acc" => Bound(amsg[s], s, aid[s]))
                                       /\ (dph[s] = "acc" => Bound(dmsg[s], s, did[s]))
\* a connection that was closed never gets an identity (misuse, failed verification, refused key exchange)
ClosedStaysClosed ==
  [][\A s \in Sessions : /\ (aph[s] = "closed" => aph'[s] = "closed")
                         /\ (dph[s] = "closed" => dph'[s] = "closed")]_vars
\* the identity of an accepted connection never changes afterwards
IdentityFinal ==
  [][\A s \in Sessions : /\ (aph[s] = "acc" => (aph'[s] = "acc" /\ aid'[s] = aid[s]))
                         /\ (dph[s] = "acc" => (dph'[s] = "acc" /\ did'[s] = did[s]))]_vars
\* consequence on the acceptor: nobody but the real dialer of the session gets an identity there --
\* the attacker cannot obtain a's identity with a signature from another session, nor b's own
NoImpersonationAtAcceptor == \A s \in Sessions : aph[s] = "acc" => (aid[s] = DialerOf(s) /\ aid[s] # Acceptor)
\* the acceptor contributes fresh randomness to every connection ...
AcceptorFresh == \A s, t \in Sessions : (s # t /\ aeph[s] # 0 /\ aeph[t] # 0) => aeph[s] # aeph[t]
\* ... so the secrets of distinct sessions are distinct (they could be equal only if BOTH contributions were equal)
SecretsDistinct == \A s, t \in Sessions : (s # t /\ aeph[s] # 0 /\ aeph[t] # 0) =>
                      /\ (Secret(s) = Secret(t) => (deph[s] = deph[t] /\ aeph[s] = aeph[t]))
                      /\ Secret(s) # Secret(t)
\* every session that finished its key exchange HAS a secret made of both contributions, whatever the secure suite
SecretExists == \A s \in Sessions : (aph[s] # "idle" /\ aeph[s] # 0) => (deph[s] # 0 /\ aeph[s] # 0 /\ suite \in Suites)
\* ... and a connection opened by replaying a recorded transcript is never identified as anybody
ReplayedNeverIdentified == \A t \in Replayed : aph[t] # "acc"
\* an identity is assigned only to a party that holds that identity's key: a node never identifies the other end of
\* a connection as ITSELF (nobody else holds its key) -- neither the acceptor (selfAddress test) nor the dialer
NoIdentityWithoutKey == \A s \in Sessions : /\ (dph[s] = "acc" => did[s] # DialerOf(s))
                                              /\ (aph[s] = "acc" => aid[s] # Acceptor)
\* consequence on the dialer: the identity is that of the acceptor (or of the attacker's node sitting in the middle)
DialerSeesSessionEnd == \A s \in Sessions : dph[s] = "acc" => did[s] \in ((Ends(s) \cup {Attacker}) \ {DialerOf(s)})
\* the attacker is never taken for somebody else anywhere
AttackerNeverOther == \A s \in Known : (aph[s] = "acc" => aid[s] = Attacker)
=============================================================================
