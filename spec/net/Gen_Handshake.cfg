SPECIFICATION Spec
CONSTANTS
  Sessions = {1, 2, 3, 4}
  PkForms = {"comp", "uncomp", "bad"}
  SigForms = {"full", "nov", "vflip", "rflip", "empty", "short", "long"}
  MaxOps = 6
  MaxChurn = 1
  DialerSelfCheck = TRUE
  RecordHist = TRUE
  Depth = 6
INVARIANT Emit
