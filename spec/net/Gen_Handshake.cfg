SPECIFICATION Spec
CONSTANTS
  Sessions = {1, 2, 3, 4}
  PkForms = {"comp", "uncomp", "bad"}
  SigForms = {"full", "nov", "vflip", "rflip", "empty", "short", "long"}
  MaxOps = 6
  MaxChurn = 1
  Suites = {"none", "tls:chacha", "tls:aes128", "tls:aes256", "ecdhe:chacha", "ecdhe:aes128", "ecdhe:aes256"}
  DialerSelfCheck = TRUE
  RecordHist = TRUE
  Depth = 6
INVARIANT Emit
