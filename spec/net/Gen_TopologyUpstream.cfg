SPECIFICATION Spec
CONSTANTS
  Nodes = {"n1", "n2", "n3"}
  RoleCfgs <- GenUpstreamCfgs
  Roles <- MCRoles
  ReqTypes = {"friend", "parent", "uncle", "none", "children", "bad"}
  RespTypes = {"friend", "children", "nephew", "other", "none", "parent"}
  LimParent = 1
  LimUncle = 1
  LimChildren = 1
  LimNephew = 1
  LimOther = 1
  MaxOps = 8
  MaxInject = 0
  MaxCloses = 0
  MaxRoleChanges = 0
  OnlyDiscover = TRUE
  Dials <- MCDials
  RecordHist = TRUE
  Depth = 8
INVARIANT Emit
