SPECIFICATION Spec
CONSTANTS
  Nodes = {"n1", "n2", "n3"}
  RoleCfgs <- MCRoleCfgs
  Roles <- MCRoles
  ReqTypes = {"friend", "parent", "uncle", "none", "children", "bad"}
  RespTypes = {"friend", "children", "nephew", "other", "none", "parent"}
  LimParent = 1
  LimUncle = 1
  LimChildren = 1
  LimNephew = 1
  LimOther = 1
  MaxOps = 3
  MaxInject = 1
  MaxCloses = 2
  MaxRoleChanges = 1
  OnlyDiscover = FALSE
  Dials <- MCDials
  RecordHist = FALSE
INVARIANT TypeOK LimitsHold Agreement
PROPERTIES RootsNotInTree
