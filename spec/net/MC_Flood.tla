---- MODULE MC_Flood ----
EXTENDS Flood
\* p1: every role combination, connected as friend; p2: root, connection type undetermined or parent;
\* p3: no role, a child (relays only)
MCRoleCfgs == {[p \in Peers |-> IF p = "p1" THEN r ELSE IF p = "p2" THEN {"root"} ELSE {}] : r \in SUBSET {"seed", "root"}}
MCTypeCfgs == {[p \in Peers |-> IF p = "p1" THEN "friend" ELSE IF p = "p2" THEN t ELSE "children"] : t \in {"none", "parent"}}
\* relay configuration: p1 a root friend (originates and relays), p2 a parent, p3 a child (relays only)
RelayRoleCfgs == {[p \in Peers |-> IF p = "p1" THEN {"root"} ELSE {}]}
RelayTypeCfgs == {[p \in Peers |-> IF p = "p1" THEN "friend" ELSE IF p = "p2" THEN "parent" ELSE "children"]}
\* validator set of the node: none (claims stand), only p2 (the claim of p1 is not honoured)
MCAllowCfgs == {{}, {"p2"}}
RelayAllowCfgs == {{}}
====
