SPECIFICATION SliceSpec
CONSTANTS
  Accts = {"a"}
  Ext = {}
  MaxAmt = 3
  Fee = 1
  SlotMax = 2
  Periods = {1}
  UnbondPeriod = 1
  UnbondMax = 1
  MaxH = 40
  MaxTx = 3
  MaxOps = 6
  Depth = 6
  Record = TRUE
  ExtBond = 1
  ExtDeleg = 14
  PoolInit = 1
  Impl = "required"
INVARIANT Emit
