---- MODULE Gen_Reward ----
EXTENDS Reward, Json
\* a behaviour (scenario of one term) is printed when the rewards have been calculated
Emit == (phase = "done" /\ term = Terms) => PrintT(<<"B", ToJson(hist)>>)
====
