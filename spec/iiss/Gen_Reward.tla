---- MODULE Gen_Reward ----
EXTENDS Reward, Json
\* a behaviour (scenario of one term) is printed when the rewards have been calculated
Emit == (phase = "done") => PrintT(<<"B", ToJson(hist)>>)
====
