------------------------------ MODULE Staking ------------------------------
(* ICX staking of ICON 2.0 (icon/iiss/extension.go SetStake / SetDelegation / SetBond /
   RegisterPRep / UnregisterPRep / ClaimIScore, icon/iiss/icstate/account.go, unstake.go,
   unbond.go, timer.go, icon/iiss/timerhandler.go) at the current protocol revision.

   A few accounts (Accts) hold ICX, stake it, delegate and bond stake to P-Reps (Targets: the
   accounts themselves, which may register as P-Rep, and externally registered, always active
   P-Reps Ext), transfer ICX, claim rewards.  One action per transaction type plus EndBlock,
   which closes the current block: the unbonding and unstaking timers of the block height fire
   (ExtensionStateImpl.OnExecutionEnd -> handleTimerJob).  Amounts are small integers (units).

   The unstake timer of a height is a SET of accounts, exactly as in icstate/timer.go; the timer
   jobs produced by increaseUnstake / decreaseUnstake are transcribed literally (UsJobs).
   Impl = "code"     : the jobs are applied as ScheduleTimerJob does (JobTypeRemove deletes the
                       account from the height's timer even when another unstake slot of the same
                       account with the same expire height remains);
   Impl = "required" : the account stays in a height's timer as long as one of its slots expires
                       there (what "unstaked ICX returns exactly once, when its lock period ends"
                       needs).  The conformance check compares the real code with "required".
   Unbond timers are reference counted per height in account.go UpdateUnbonds; the net effect
   (an account is in the unbond timer of a height iff one of its unbonds expires there) is what
   the model states.

   The lock period of new unstakes is an environment input (in goloop a function of the
   network's stake rate): EndBlock chooses the period for the next block from Periods.
   Reward amounts are below the resolution of the model: Claim changes no abstract amount (the
   real transfer treasury -> claimer is checked for conservation on exact amounts by the driver). *)
EXTENDS Integers, Sequences, FiniteSets, TLC
CONSTANTS Accts,         \* modelled accounts (strings)
          Ext,           \* external, always active P-Reps whose bonder list contains all Accts
          MaxAmt,        \* initial balance of every account
          Fee,           \* P-Rep registration fee (burned)
          SlotMax,       \* unstake slot max (>= 1)
          Periods,       \* possible unstake lock periods (blocks)
          UnbondPeriod,  \* unbonding period (blocks)
          UnbondMax,     \* max number of unbond entries of an account
          MaxH,          \* last block height of a run (heights start at 0)
          MaxTx,         \* transactions per block
          MaxOps,        \* bound on the number of recorded steps
          Record,        \* TRUE: keep the history (generator); FALSE: exhaustive checking without it
          Impl,          \* "required" | "code"
          ExtBond,       \* bond (= stake) an external P-Rep holds from a background bonder
          ExtDeleg,      \* delegation an external P-Rep holds from background accounts
          PoolInit       \* reward quanta in the treasury that claims can pay out

Targets == Accts \cup Ext
NoUb == [val |-> 0, exp |-> 0]

VARIABLES h,        \* height of the block being filled
          ntx,      \* transactions already in this block
          lockp,    \* unstake lock period in force in this block
          bal,      \* [Accts -> Nat]
          stake,    \* [Accts -> Nat]
          slots,    \* [Accts -> Seq([val, exp])]   unstake slots in list order
          deleg,    \* [Accts -> [Targets -> Nat]]
          bond,     \* [Accts -> [Targets -> Nat]]
          unbond,   \* [Accts -> [Targets -> [val, exp]]]   val = 0: none
          ustimer,  \* [Heights -> SUBSET Accts]  unstaking timers
          ubtimer,  \* [Heights -> SUBSET Accts]  unbonding timers
          reg,      \* [Accts -> {"none", "active", "unreg", "disq"}]  P-Rep status of an account
          supply,   \* total supply (of the modelled part of the world)
          tstake, tdeleg, tbond,   \* network totals as maintained incrementally by the code
          burned,   \* ICX burned so far (registration fees, slashed bonds)
          xst,      \* [Ext -> {"active", "disq"}]  status of the external P-Reps
          xbond,    \* [Ext -> Nat]  bond of the background bonder to an external P-Rep
          pool,     \* reward quanta left in the treasury (rewards are below the unit resolution)
          rew,      \* [Accts -> Nat]  reward quanta claimed by an account
          ctimer,   \* ghost: the unstaking timers as the code's job lists leave them (= ustimer if Impl = "code")
          lostc,    \* ghost: {[a, e, cause]}: account a has a slot expiring at e but the code's timer of e lost a
          hist      \* recorded steps with the predicted results (generator / replay oracle)
vars == <<h, ntx, lockp, bal, stake, slots, deleg, bond, unbond, ustimer, ubtimer, reg, supply,
          tstake, tdeleg, tbond, ctimer, lostc, burned, xst, xbond, pool, rew, hist>>

\* sums over the (small, constant) sets Targets and Accts, by index over a fixed enumeration
SeqOf(S) == CHOOSE s \in [1..Cardinality(S) -> S] : \A x \in S : \E i \in 1..Cardinality(S) : s[i] = x
TSeq == SeqOf(Targets)
ASeq == SeqOf(Accts)
RECURSIVE SumIdx(_, _, _)
SumIdx(sq, f, i) == IF i = 0 THEN 0 ELSE f[sq[i]] + SumIdx(sq, f, i - 1)
SumT(f) == SumIdx(TSeq, f, Len(TSeq))      \* f : function on Targets
SumA(f) == SumIdx(ASeq, f, Len(ASeq))      \* f : function on Accts
RECURSIVE SumVal(_)
SumVal(s) == IF s = <<>> THEN 0 ELSE s[1].val + SumVal(Tail(s))
SetMax(S) == CHOOSE x \in S : \A y \in S : y <= x
MaxPeriod == SetMax(Periods \cup {UnbondPeriod})
Heights == 0..(MaxH + MaxPeriod)

SumVec(v) == SumT(v)
Vecs == {v \in [Targets -> 0..MaxAmt] : SumVec(v) <= MaxAmt}
ZeroVec == [t \in Targets |-> 0]

Unstaking(a) == SumVal(slots[a])
UnbondTotal(a) == SumT([t \in Targets |-> unbond[a][t].val])
Using(a) == SumVec(deleg[a]) + SumVec(bond[a]) + UnbondTotal(a)          \* accountData.UsingStake
Active(t) == IF t \in Ext THEN xst[t] = "active" ELSE reg[t] = "active"
HasBase(t) == IF t \in Ext THEN TRUE ELSE reg[t] # "none"               \* a PRepBase exists
Delegated(t) == SumA([a \in Accts |-> deleg[a][t]])
Bonded(t) == SumA([a \in Accts |-> bond[a][t]])

----------------------------------------------------------------------------
(* icstate/unstake.go *)
Job(t, e) == [t |-> t, e |-> e]
RECURSIVE DecUs(_, _, _)
\* decreaseUnstake(remain): consume from the last slot backwards; <<slots, jobs>>
DecUs(s, remain, jobs) ==
  IF s = <<>> THEN <<s, jobs>>
  ELSE LET i == Len(s)  u == s[i] IN
       IF remain > u.val THEN DecUs(SubSeq(s, 1, i - 1), remain - u.val, Append(jobs, Job("rm", u.exp)))
       ELSE IF remain = u.val THEN <<SubSeq(s, 1, i - 1), Append(jobs, Job("rm", u.exp))>>
       ELSE <<[s EXCEPT ![i] = [val |-> u.val - remain, exp |-> u.exp]], jobs>>
\* Unstakes.findIndex
FindIndex(s, e) == LET S == {i \in 1..Len(s) : e >= s[i].exp} IN IF S = {} THEN 0 ELSE SetMax(S)
InsertAt(s, k, x) == SubSeq(s, 1, k) \o <<x>> \o SubSeq(s, k + 1, Len(s))
\* increaseUnstake(v, eh): <<slots, jobs>>
IncUs(s, v, eh) ==
  IF Len(s) >= SlotMax
    THEN LET i == Len(s)  u == s[i] IN
         IF eh > u.exp
           THEN <<[s EXCEPT ![i] = [val |-> u.val + v, exp |-> eh]], <<Job("rm", u.exp), Job("add", eh)>> >>
           ELSE <<[s EXCEPT ![i] = [val |-> u.val + v, exp |-> u.exp]], <<>> >>
    ELSE <<InsertAt(s, FindIndex(s, eh), [val |-> v, exp |-> eh]), <<Job("add", eh)>> >>
\* icstate.ScheduleTimerJob applied to the job list
RECURSIVE ApplyJobs(_, _, _)
ApplyJobs(tm, a, jobs) ==
  IF jobs = <<>> THEN tm
  ELSE LET j == Head(jobs) IN
       ApplyJobs([tm EXCEPT ![j.e] = IF j.t = "add" THEN @ \cup {a} ELSE @ \ {a}], a, Tail(jobs))
ExpSet(s) == {s[i].exp : i \in 1..Len(s)}
\* heights at which the code's job list drops the account although a slot still expires there
LostHeights(tmCode, a, s) == {e \in ExpSet(s) : a \notin tmCode[e]}
TimerAfter(tm, a, s, jobs) ==
  LET c == ApplyJobs(tm, a, jobs) IN
  IF Impl = "code" THEN c
  ELSE [e \in Heights |-> IF e \in LostHeights(c, a, s) THEN c[e] \cup {a} ELSE c[e]]

----------------------------------------------------------------------------
GVars == <<burned, xst, xbond, pool, rew>>
Rec(op, a, v, to, vec, res, why, forced) ==
  [op |-> op, a |-> a, v |-> v, to |-> to, vec |-> vec, res |-> res, why |-> why, forced |-> forced,
   h |-> h, lp |-> lockp]
Log(r) == hist' = IF Record THEN Append(hist, r) ELSE hist
\* a rejected transaction stays in the block and changes nothing else
Reject(r) == /\ Log(r) /\ ntx' = ntx + 1
             /\ UNCHANGED <<h, lockp, bal, stake, slots, deleg, bond, unbond, ustimer, ubtimer, reg,
                            supply, tstake, tdeleg, tbond, ctimer, lostc, burned, xst, xbond, pool, rew>>
CanTx == ntx < MaxTx /\ Len(hist) < MaxOps

Init == /\ h = 0 /\ ntx = 0 /\ lockp \in Periods
        /\ bal = [a \in Accts |-> MaxAmt] /\ stake = [a \in Accts |-> 0]
        /\ slots = [a \in Accts |-> <<>>]
        /\ deleg = [a \in Accts |-> ZeroVec] /\ bond = [a \in Accts |-> ZeroVec]
        /\ unbond = [a \in Accts |-> [t \in Targets |-> NoUb]]
        /\ ustimer = [e \in Heights |-> {}] /\ ubtimer = [e \in Heights |-> {}]
        /\ reg = [a \in Accts |-> "none"]
        /\ supply = Cardinality(Accts) * MaxAmt + Cardinality(Ext) * ExtBond
        /\ tstake = Cardinality(Ext) * ExtBond /\ tdeleg = Cardinality(Ext) * ExtDeleg /\ tbond = Cardinality(Ext) * ExtBond
        /\ burned = 0 /\ xst = [t \in Ext |-> "active"] /\ xbond = [t \in Ext |-> ExtBond]
        /\ pool = PoolInit /\ rew = [a \in Accts |-> 0]
        /\ ctimer = [e \in Heights |-> {}] /\ lostc = {}
        /\ hist = <<>>

(* extension.go SetStake *)
SetStake(a, v) ==
  /\ CanTx
  /\ LET R(res, why, f) == Rec("stake", a, v, "", ZeroVec, res, why, f) IN
     IF v < Using(a) THEN Reject(R("reject", "using", TRUE))
     ELSE IF v = stake[a] THEN
       /\ Log(R("ok", "same", FALSE)) /\ ntx' = ntx + 1
       /\ UNCHANGED <<h, lockp, bal, stake, slots, deleg, bond, unbond, ustimer, ubtimer, reg,
                      supply, tstake, tdeleg, tbond, ctimer, lostc, burned, xst, xbond, pool, rew>>
     ELSE IF bal[a] + stake[a] + Unstaking(a) < v THEN Reject(R("reject", "balance", TRUE))
     ELSE LET inc == v - stake[a]
              r == IF inc > 0 THEN DecUs(slots[a], inc, <<>>) ELSE IncUs(slots[a], -inc, h + lockp)
              oldTotal == stake[a] + Unstaking(a)
              newTotal == v + SumVal(r[1])
              ct == ApplyJobs(ctimer, a, r[2])
              cause == IF inc > 0 THEN "increase" ELSE "extend"
          IN /\ slots' = [slots EXCEPT ![a] = r[1]]
             /\ ustimer' = TimerAfter(ustimer, a, r[1], r[2])
             /\ stake' = [stake EXCEPT ![a] = v]
             /\ tstake' = tstake + inc
             /\ bal' = [bal EXCEPT ![a] = IF newTotal > oldTotal THEN @ - (newTotal - oldTotal) ELSE @]
             \* ghost: the code's timers, and which pending slots they no longer cover (with the cause)
             /\ ctimer' = ct
             /\ lostc' = {l \in lostc : l.a # a \/ (l.e \in ExpSet(r[1]) /\ a \notin ct[l.e])}
                          \cup {[a |-> a, e |-> e, cause |-> cause] :
                                  e \in {x \in ExpSet(r[1]) : a \notin ct[x] /\ a \in ctimer[x]}}
             /\ Log(R("ok", "", FALSE))
             /\ ntx' = ntx + 1
             /\ UNCHANGED <<h, lockp, deleg, bond, unbond, ubtimer, reg, supply, tdeleg, tbond, burned, xst, xbond, pool, rew>>

(* extension.go SetDelegation: d is the complete new delegation vector *)
SetDelegation(a, d) ==
  /\ CanTx
  /\ LET R(res, why, f) == Rec("deleg", a, 0, "", d, res, why, f) IN
     IF stake[a] < SumVec(d) + UnbondTotal(a) + SumVec(bond[a]) THEN Reject(R("reject", "power", TRUE))
     ELSE /\ deleg' = [deleg EXCEPT ![a] = d]
          /\ tdeleg' = tdeleg + SumT([t \in Targets |-> IF Active(t) THEN d[t] - deleg[a][t] ELSE 0])
          /\ Log(R("ok", "", FALSE)) /\ ntx' = ntx + 1
          /\ UNCHANGED <<h, lockp, bal, stake, slots, bond, unbond, ustimer, ubtimer, reg, supply,
                         tstake, tbond, ctimer, lostc, burned, xst, xbond, pool, rew>>

(* account.go UpdateUnbonds for the bond delta b - bond[a] with expire height ubh *)
NewUnbond(a, b, ubh) ==
  [t \in Targets |->
     LET dlt == b[t] - bond[a][t]  u == unbond[a][t] IN
     IF dlt < 0 THEN [val |-> u.val - dlt, exp |-> ubh]                 \* bond decreased: (re)start unbonding
     ELSE IF dlt > 0 /\ u.val > 0 THEN (IF u.val - dlt <= 0 THEN NoUb ELSE [val |-> u.val - dlt, exp |-> u.exp])
     ELSE u]
UbTimerAfter(tm, a, nu) ==
  [e \in Heights |-> IF \E t \in Targets : nu[t].val > 0 /\ nu[t].exp = e THEN tm[e] \cup {a} ELSE tm[e] \ {a}]

(* extension.go SetBond: b is the complete new bond vector *)
SetBond(a, b) ==
  /\ CanTx
  /\ LET R(res, why, f) == Rec("bond", a, 0, "", b, res, why, f)
         nu == NewUnbond(a, b, h + UnbondPeriod)
         nuTotal == SumT([t \in Targets |-> nu[t].val])
     IN
     IF \E t \in Targets : b[t] > 0 /\ ~HasBase(t) THEN Reject(R("reject", "notprep", FALSE))
     ELSE IF stake[a] < SumVec(b) + SumVec(deleg[a]) THEN Reject(R("reject", "power", TRUE))
     ELSE IF Cardinality({t \in Targets : nu[t].val > 0}) > UnbondMax THEN Reject(R("reject", "unbondmax", FALSE))
     ELSE IF stake[a] < SumVec(b) + SumVec(deleg[a]) + nuTotal THEN Reject(R("reject", "power", TRUE))
     ELSE /\ bond' = [bond EXCEPT ![a] = b]
          /\ unbond' = [unbond EXCEPT ![a] = nu]
          /\ ubtimer' = UbTimerAfter(ubtimer, a, nu)
          /\ tbond' = tbond + SumT([t \in Targets |-> IF Active(t) THEN b[t] - bond[a][t] ELSE 0])
          /\ Log(R("ok", "", FALSE)) /\ ntx' = ntx + 1
          /\ UNCHANGED <<h, lockp, bal, stake, slots, deleg, ustimer, reg, supply, tstake, tdeleg, ctimer, lostc, burned, xst, xbond, pool, rew>>

Transfer(a, to, v) ==
  /\ CanTx /\ to # a
  /\ LET R(res, why, f) == Rec("xfer", a, v, to, ZeroVec, res, why, f) IN
     IF bal[a] < v THEN Reject(R("reject", "balance", TRUE))
     ELSE /\ bal' = [bal EXCEPT ![a] = @ - v, ![to] = @ + v]
          /\ Log(R("ok", "", FALSE)) /\ ntx' = ntx + 1
          /\ UNCHANGED <<h, lockp, stake, slots, deleg, bond, unbond, ustimer, ubtimer, reg, supply,
                         tstake, tdeleg, tbond, ctimer, lostc, burned, xst, xbond, pool, rew>>

(* extension.go RegisterPRep (fee burned) + state.go RegisterPRep; the bonder list of the new
   P-Rep is set to all accounts by a second transaction of the same sender *)
Register(a) ==
  /\ CanTx
  /\ LET R(res, why, f) == Rec("reg", a, 0, "", ZeroVec, res, why, f) IN
     IF bal[a] < Fee THEN Reject(R("reject", "balance", TRUE))
     ELSE IF reg[a] # "none" THEN Reject(R("reject", "used", FALSE))
     ELSE /\ bal' = [bal EXCEPT ![a] = @ - Fee]
          /\ supply' = supply - Fee /\ burned' = burned + Fee
          /\ reg' = [reg EXCEPT ![a] = "active"]
          /\ tdeleg' = tdeleg + Delegated(a)
          /\ Log(R("ok", "", FALSE)) /\ ntx' = ntx + 1
          /\ UNCHANGED <<h, lockp, stake, slots, deleg, bond, unbond, ustimer, ubtimer, tstake, tbond, ctimer, lostc, xst, xbond, pool, rew>>

(* extension.go UnregisterPRep -> state.go DisablePRep *)
Unregister(a) ==
  /\ CanTx
  /\ LET R(res, why, f) == Rec("unreg", a, 0, "", ZeroVec, res, why, f) IN
     IF reg[a] # "active" THEN Reject(R("reject", "state", FALSE))
     ELSE IF Bonded(a) > 0 THEN Reject(R("reject", "bonded", FALSE))
     ELSE /\ reg' = [reg EXCEPT ![a] = "unreg"]
          /\ tdeleg' = tdeleg - Delegated(a)
          /\ Log(R("ok", "", FALSE)) /\ ntx' = ntx + 1
          /\ UNCHANGED <<h, lockp, bal, stake, slots, deleg, bond, unbond, ustimer, ubtimer, supply,
                         tstake, tbond, ctimer, lostc, burned, xst, xbond, pool, rew>>

(* slash: penalty.go slash(owner, 100%) - every bond and unbond of the P-Rep's bonders is taken from
   their stake and burned *)
Disqualify(t) ==
  /\ CanTx
  /\ LET R(res, why) == Rec("disq", "", 0, t, ZeroVec, res, why, FALSE) IN
     IF ~HasBase(t) \/ ~Active(t) THEN Reject(R("reject", "state"))
     ELSE LET sl == [a \in Accts |-> bond[a][t] + unbond[a][t].val]
              nunb == [a \in Accts |-> [unbond[a] EXCEPT ![t] = NoUb]]
              xb == IF t \in Ext THEN xbond[t] ELSE 0
              xd == IF t \in Ext THEN ExtDeleg ELSE 0
              total == SumA(sl) + xb
              \* unbond timer entries that no unbond of the account needs any more
              stale == {[a |-> a, e |-> unbond[a][t].exp] : a \in {x \in Accts : unbond[x][t].val > 0 /\
                           ~\E u \in Targets : nunb[x][u].val > 0 /\ nunb[x][u].exp = unbond[x][t].exp}}
          IN /\ IF t \in Ext THEN xst' = [xst EXCEPT ![t] = "disq"] /\ xbond' = [xbond EXCEPT ![t] = 0] /\ UNCHANGED reg
                          ELSE reg' = [reg EXCEPT ![t] = "disq"] /\ UNCHANGED <<xst, xbond>>
             /\ bond' = [a \in Accts |-> [bond[a] EXCEPT ![t] = 0]]
             /\ unbond' = nunb
             /\ ubtimer' = [e \in Heights |-> {a \in ubtimer[e] : \E u \in Targets : nunb[a][u].val > 0 /\ nunb[a][u].exp = e}]
             /\ stake' = [a \in Accts |-> stake[a] - sl[a]]
             /\ tstake' = tstake - total
             /\ tbond' = tbond - (Bonded(t) + xb)
             /\ tdeleg' = tdeleg - (Delegated(t) + xd)
             /\ supply' = supply - total /\ burned' = burned + total
             /\ Log(R("ok", "") @@ [stale |-> stale]) /\ ntx' = ntx + 1
             /\ UNCHANGED <<h, lockp, bal, slots, deleg, ustimer, ctimer, lostc, pool, rew>>

(* extension.go ClaimIScore: treasury -> claimer, below the model's resolution *)
Claim(a, r) ==
  /\ CanTx /\ r <= pool
  /\ pool' = pool - r /\ rew' = [rew EXCEPT ![a] = @ + r]
  /\ Log(Rec("claim", a, r, "", ZeroVec, "ok", "", FALSE)) /\ ntx' = ntx + 1
  /\ UNCHANGED <<h, lockp, bal, stake, slots, deleg, bond, unbond, ustimer, ubtimer, reg, supply,
                 tstake, tdeleg, tbond, ctimer, lostc, burned, xst, xbond>>

\* predicted projection after the block
Proj == [a \in Accts |-> [bal |-> bal'[a], stake |-> stake'[a], slots |-> slots'[a], deleg |-> deleg'[a],
                          bond |-> bond'[a], unbond |-> unbond'[a], reg |-> reg'[a]]]
(* end of block h: timerhandler.go handleTimerJob(h), then the next block starts *)
\* rs: the node restarts from its database after this block (no effect on the state: everything the next blocks
\* read - accounts with their unstake and unbond lists, timers, P-Rep records - is decoded from the stored bytes)
EndBlock(p, rs) ==
  /\ h < MaxH /\ Len(hist) < MaxOps
  /\ LET due(a) == SelectSeq(slots[a], LAMBDA u : u.exp = h)
         keep(a) == SelectSeq(slots[a], LAMBDA u : u.exp # h)
     IN /\ unbond' = [a \in Accts |-> IF a \in ubtimer[h]
                                      THEN [t \in Targets |-> IF unbond[a][t].exp = h THEN NoUb ELSE unbond[a][t]]
                                      ELSE unbond[a]]
        /\ slots' = [a \in Accts |-> IF a \in ustimer[h] THEN keep(a) ELSE slots[a]]
        /\ bal' = [a \in Accts |-> IF a \in ustimer[h] THEN bal[a] + SumVal(due(a)) ELSE bal[a]]
        /\ ustimer' = [ustimer EXCEPT ![h] = {}]
        /\ ubtimer' = [ubtimer EXCEPT ![h] = {}]
        /\ ctimer' = [ctimer EXCEPT ![h] = {}]
        /\ lostc' = {l \in lostc : l.e # h}
  /\ h' = h + 1 /\ ntx' = 0 /\ lockp' = p
  /\ UNCHANGED <<stake, deleg, bond, reg, supply, tstake, tdeleg, tbond, burned, xst, xbond, pool, rew>>
  \* coin: an unbonding and an unstaking timer fire at this same height ("same": for one and the same account)
  /\ Log([op |-> "end", h |-> h, lp |-> lockp, st |-> Proj, lost |-> lostc, xst |-> xst, restart |-> rs,
          coin |-> [any |-> ubtimer[h] # {} /\ ustimer[h] # {}, same |-> ubtimer[h] \cap ustimer[h] # {}],
          tot |-> [supply |-> supply, tstake |-> tstake, tdeleg |-> tdeleg, tbond |-> tbond, burned |-> burned],
          tot0 |-> [supply |-> Cardinality(Accts) * MaxAmt + Cardinality(Ext) * ExtBond,
                    tstake |-> Cardinality(Ext) * ExtBond, tdeleg |-> Cardinality(Ext) * ExtDeleg,
                    tbond |-> Cardinality(Ext) * ExtBond, burned |-> 0]])

Next == \/ \E a \in Accts, v \in 0..MaxAmt : SetStake(a, v)
        \/ \E a \in Accts, d \in Vecs : SetDelegation(a, d)
        \/ \E a \in Accts, b \in Vecs : SetBond(a, b)
        \/ \E a \in Accts, to \in Accts, v \in 1..MaxAmt : Transfer(a, to, v)
        \/ \E a \in Accts : Register(a)
        \/ \E a \in Accts : Unregister(a)
        \/ \E t \in Targets : Disqualify(t)
        \/ \E a \in Accts, r \in 0..1 : Claim(a, r)
        \/ \E p \in Periods, rs \in BOOLEAN : EndBlock(p, rs)
Spec == Init /\ [][Next]_vars

----------------------------------------------------------------------------
(* C34 *)
\* total supply = balances + staked + unstaking
SumX(f) == IF Ext = {} THEN 0 ELSE SumT([t \in Targets |-> IF t \in Ext THEN f[t] ELSE 0])
Conservation == supply = SumA([a \in Accts |-> bal[a] + stake[a] + Unstaking(a)]) + SumX(xbond)
\* every ICX that left the supply was burned (registration fee, slashed bonds); nothing else changes the supply
BurnAccounted == supply + burned = Cardinality(Accts) * MaxAmt + Cardinality(Ext) * ExtBond
\* a claim moves reward from the treasury to the claimer and nowhere else
ClaimAccounted == pool + SumA(rew) = PoolInit
\* delegated + bonded + unbonding never exceeds the stake
VotingWithinStake == \A a \in Accts : Using(a) <= stake[a]
\* network totals equal the per-account sums (delegation and bond counted for active P-Reps)
TotalsConsistent ==
  /\ tstake = SumA(stake) + SumX(xbond)
  /\ tdeleg = SumT([t \in Targets |-> IF Active(t) THEN Delegated(t) + (IF t \in Ext THEN ExtDeleg ELSE 0) ELSE 0])
  /\ tbond = SumT([t \in Targets |-> IF Active(t) THEN Bonded(t) + (IF t \in Ext THEN xbond[t] ELSE 0) ELSE 0])
\* no unstake / unbond entry survives its expire height
NoOverdueUnstake == \A a \in Accts : \A i \in 1..Len(slots[a]) : slots[a][i].exp >= h
NoOverdueUnbond == \A a \in Accts, t \in Targets : unbond[a][t].val > 0 => unbond[a][t].exp >= h
\* every pending entry is covered by a timer
TimerCoversSlots == \A a \in Accts : \A i \in 1..Len(slots[a]) : a \in ustimer[slots[a][i].exp]
TimerCoversUnbonds == \A a \in Accts, t \in Targets : unbond[a][t].val > 0 => a \in ubtimer[unbond[a][t].exp]
NoNegative == \A a \in Accts : /\ bal[a] >= 0 /\ stake[a] >= 0
                                /\ \A i \in 1..Len(slots[a]) : slots[a][i].val > 0
                                /\ Len(slots[a]) <= SlotMax
\* locked ICX (stake + unstaking) of an account leaves only through the release of the entries
\* that expire at the closing block: returned exactly once, when the lock period ends
Locked(a) == stake[a] + Unstaking(a)
DueAt(a) == SumVal(SelectSeq(slots[a], LAMBDA u : u.exp = h))
ReturnedOnceWhenDue ==
  [][\A a \in Accts :
       /\ Locked(a)' >= Locked(a) - (IF h' # h THEN DueAt(a) ELSE 0) - (burned' - burned)   \* or is slashed and burned
       /\ (h' # h /\ a \in ustimer[h]) => bal'[a] = bal[a] + DueAt(a)]_vars
=============================================================================
