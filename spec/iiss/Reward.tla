------------------------------- MODULE Reward -------------------------------
(* IISS 4 reward calculation of one term (icon/iiss/calculator/iiss4.go, prep.go, voter.go).

   A term has T blocks (offsets 0..T-1, offsetLimit = T-1).  Before the term (phase "base") the
   voters hold delegations and bonds to the registered P-Reps (icreward Voted / Delegating /
   Bonding of the base snapshot).  StartTerm is iiss4Reward.loadPRepInfo: power, Sort (rank),
   InitAccumulated for the elected ranks.  During the term (phase "term") vote events and
   enable/disable events happen at the current offset (processEvents -> PRepInfo.ApplyVote /
   SetStatus and VoteEvents.AddEvent): an event at offset o counts for the remaining
   offsetLimit - o blocks.  Calculate is processPrepReward + processVoterReward:
   PRepInfo.CalculateReward / PRep.CalculateReward (power-weighted split of the term's P-Rep fund,
   commission, wage) and Voter.CalculateReward (vote-weighted split of a P-Rep's voter reward).

   The accumulated values are maintained incrementally exactly as the code does (accV, accP and
   the voters' accumulated votes AV); independently the spec sums the votes and the power that
   are in force block by block (sumV, sumVoted, sumPower) - the definition of "accumulated" - and
   AccumulatedIsBlockSum states that both agree.  Amounts are small integers; rewards are
   I-Score values computed with the code's integer divisions. *)
EXTENDS Integers, Sequences, FiniteSets, TLC
CONSTANTS NPreps,      \* number of P-Rep candidates p1 .. pN (in ascending address order)
          BaseCount,   \* the first BaseCount of them are registered in the base snapshot
          Voters,      \* voters (strings, disjoint from P-Reps)
          T,           \* blocks of the term
          Elected,     \* electedPRepCount
          BRNum, BRDen,\* bond requirement as a fraction: power = min(voted, bonded * BRDen \div BRNum); BRNum = 0: power = voted
          RewardP,     \* monthly P-Rep reward fund (Iglobal * Iprep), loop
          RewardW,     \* monthly minimum-wage fund (Iglobal * Iwage), loop
          MinBond,     \* bond needed for the wage
          Amts,        \* vote amounts / deltas
          Rates,       \* possible commission rates (1/10000)
          MaxBase,     \* number of base votes
          MaxEv,       \* number of events in the term
          Terms,       \* number of consecutive terms of a scenario (votes, statuses and I-Scores carry over)
          Record       \* keep the history (generator) or not (exhaustive checking)

PrepSeq == SubSeq(<<"p1", "p2", "p3", "p4", "p5", "p6">>, 1, NPreps)
Preps == {PrepSeq[i] : i \in 1..Len(PrepSeq)}
BasePreps == {PrepSeq[i] : i \in 1..BaseCount}
Idx(p) == CHOOSE i \in 1..Len(PrepSeq) : PrepSeq[i] = p
MonthBlock == 1296000
IScoreICXRatio == 1000
Limit == T - 1

VARIABLES phase,   \* "base" | "term" | "done"
          off,     \* current block offset
          nbase, nev,
          rate,    \* [Preps -> Rates]      commission rate
          pubkey,  \* [Preps -> BOOLEAN]
          \* PRepInfo as the code keeps it
          known,   \* [Preps -> BOOLEAN]     in PRepInfo.preps
          status,  \* [Preps -> {"enable", "disabled", "nextterm"}]
          dlg, bnd,\* [Preps -> Nat]         delegated / bonded
          power,   \* [Preps -> Nat]
          rank,    \* [Preps -> Nat]         0-based; 0 for P-Reps added after Sort
          ranked,  \* Seq(Preps)             PRepInfo.rank
          accV, accP,   \* accumulatedVoted / accumulatedPower
          \* voters
          baseD, baseB, \* [Voters -> [Preps -> Nat]]  base Delegating / Bonding
          curD, curB,   \* votes in force now
          AV,           \* [Voters -> [Preps -> Int]]  Voter.accumulatedVotes as the code accumulates them
          touched,      \* [Voters -> SUBSET Preps]    keys present in Voter.accumulatedVotes
          \* block-by-block sums (definition of "accumulated")
          sumV, sumVoted, sumPower,
          res,     \* results of Calculate (of the current term)
          term,    \* number of the current term (1..Terms)
          iscore,  \* [Preps \cup Voters -> Nat]  I-Score an account holds (credited in all terms, minus claims)
          newrate, \* [Preps -> Rates \cup {-1}]  commission rate set during the term (in force from the next term), -1: none
          claim,   \* [Preps \cup Voters -> Nat]  I-Score claimed during the term (taken off at the calculation)
          claimed, \* total I-Score ever claimed
          hist
vars == <<phase, off, nbase, nev, rate, pubkey, known, status, dlg, bnd, power, rank, ranked, accV, accP,
          baseD, baseB, curD, curB, AV, touched, sumV, sumVoted, sumPower, res, term, iscore, newrate, claim, claimed, hist>>
XVars == <<newrate, claim, claimed>>

Min(a, b) == IF a < b THEN a ELSE b
RECURSIVE SumSeq(_, _, _)
SumSeq(sq, f, i) == IF i = 0 THEN 0 ELSE f[sq[i]] + SumSeq(sq, f, i - 1)
SumP(f) == SumSeq(PrepSeq, f, Len(PrepSeq))
VSeq == CHOOSE s \in [1..Cardinality(Voters) -> Voters] : \A v \in Voters : \E i \in 1..Cardinality(Voters) : s[i] = v
SumVt(f) == SumSeq(VSeq, f, Len(VSeq))

\* icutils.CalcPower
CalcPower(b, voted) == IF BRNum = 0 THEN voted ELSE Min(voted, (b * BRDen) \div BRNum)
Voted(p) == dlg[p] + bnd[p]
Electable(p) == pubkey[p] /\ status[p] = "enable"
\* PRep.Bigger: electable first, then power, then delegated, then address
Bigger(p, q) ==
  IF Electable(p) # Electable(q) THEN Electable(p)
  ELSE IF power'[p] # power'[q] THEN power'[p] > power'[q]
  ELSE IF dlg[p] # dlg[q] THEN dlg[p] > dlg[q]
  ELSE Idx(p) > Idx(q)

Log(r) == hist' = IF Record THEN Append(hist, r) ELSE hist
ZeroP == [p \in Preps |-> 0]
ZeroVP == [v \in Voters |-> ZeroP]

Init == /\ phase = "base" /\ off = 0 /\ nbase = 0 /\ nev = 0
        /\ \E r \in [BasePreps -> Rates] : rate = [p \in Preps |-> IF p \in BasePreps THEN r[p] ELSE 0]
        /\ pubkey = [p \in Preps |-> p \in BasePreps]
        /\ known = [p \in Preps |-> p \in BasePreps]
        /\ status = [p \in Preps |-> IF p \in BasePreps THEN "enable" ELSE "disabled"]
        /\ dlg = ZeroP /\ bnd = ZeroP /\ power = ZeroP /\ rank = ZeroP /\ ranked = <<>>
        /\ accV = ZeroP /\ accP = ZeroP
        /\ baseD = ZeroVP /\ baseB = ZeroVP /\ curD = ZeroVP /\ curB = ZeroVP /\ AV = ZeroVP
        /\ touched = [v \in Voters |-> {}]
        /\ sumV = ZeroVP /\ sumVoted = ZeroP /\ sumPower = ZeroP
        /\ res = [done |-> FALSE]
        /\ term = 1 /\ iscore = [x \in Preps \cup Voters |-> 0]
        /\ newrate = [p \in Preps |-> -1] /\ claim = [x \in Preps \cup Voters |-> 0] /\ claimed = 0
        /\ hist = <<>>

\* a vote held before the term starts (base snapshot)
BaseVote(v, t, p, a) ==
  /\ phase = "base" /\ nbase < MaxBase /\ p \in BasePreps
  /\ IF t = "d" THEN baseD[v][p] = 0 ELSE baseB[v][p] = 0
  /\ nbase' = nbase + 1
  /\ IF t = "d"
       THEN /\ baseD' = [baseD EXCEPT ![v][p] = a] /\ curD' = [curD EXCEPT ![v][p] = a]
            /\ dlg' = [dlg EXCEPT ![p] = @ + a] /\ UNCHANGED <<baseB, curB, bnd>>
       ELSE /\ baseB' = [baseB EXCEPT ![v][p] = a] /\ curB' = [curB EXCEPT ![v][p] = a]
            /\ bnd' = [bnd EXCEPT ![p] = @ + a] /\ UNCHANGED <<baseD, curD, dlg>>
  /\ Log([op |-> "base", v |-> v, t |-> t, p |-> p, a |-> a])
  /\ UNCHANGED <<phase, off, nev, rate, pubkey, known, status, power, rank, ranked, accV, accP, AV, touched,
                 sumV, sumVoted, sumPower, res, term, iscore>>

\* positions 1..n of the sorted rank list
Sorted(s) == \A i \in 1..(Len(s) - 1) : Bigger(s[i], s[i + 1])
(* iiss4Reward.loadPRepInfo: Add (power), Sort, InitAccumulated; Voter.ApplyVoting of the base votes *)
InBase == {p \in Preps : known[p]}          \* the P-Reps with a Voted record in the base snapshot
BaseRec == [prep |-> [p \in Preps |-> [known |-> known[p], status |-> status[p], dlg |-> dlg[p], bnd |-> bnd[p],
                                        rate |-> rate[p], pubkey |-> pubkey[p]]],
            voter |-> [v \in Voters |-> [d |-> baseD[v], b |-> baseB[v]]]]
StartTerm ==
  /\ phase = "base"
  /\ phase' = "term" /\ off' = 0
  /\ power' = [p \in Preps |-> IF known[p] THEN CalcPower(bnd[p], Voted(p)) ELSE 0]
  /\ LET n == Cardinality(InBase) IN
     \E s \in [1..n -> InBase] :
       /\ \A p \in InBase : \E i \in 1..n : s[i] = p
       /\ Sorted(s)
       /\ ranked' = s
       /\ rank' = [p \in Preps |-> IF p \in InBase THEN (CHOOSE i \in 1..n : s[i] = p) - 1 ELSE 0]
  /\ accV' = [p \in Preps |-> IF p \in InBase /\ rank'[p] < Elected THEN Voted(p) * T ELSE 0]
  /\ accP' = [p \in Preps |-> IF p \in InBase /\ rank'[p] < Elected THEN power'[p] * T ELSE 0]
  /\ AV' = [v \in Voters |-> [p \in Preps |-> (baseD[v][p] + baseB[v][p]) * T]]
  /\ touched' = [v \in Voters |-> {p \in Preps : baseD[v][p] + baseB[v][p] > 0}]
  \* block 0 is counted with the votes and the power in force at its start
  /\ sumV' = [v \in Voters |-> [p \in Preps |-> curD[v][p] + curB[v][p]]]
  /\ sumVoted' = [p \in Preps |-> Voted(p)]
  /\ sumPower' = power'
  /\ Log([op |-> "start", term |-> term, base |-> BaseRec, ranked |-> ranked', power |-> power'])
  /\ UNCHANGED <<nbase, nev, rate, pubkey, known, status, dlg, bnd, baseD, baseB, curD, curB, res, term, iscore>>

(* one vote event of the term: processEvents -> PRepInfo.ApplyVote + VoteEvents.AddEvent
   (later Voter.ApplyEvent); dlt may be negative *)
Event(v, t, p, dlt) ==
  /\ phase = "term" /\ nev < MaxEv /\ dlt # 0
  /\ (IF t = "d" THEN curD[v][p] ELSE curB[v][p]) + dlt >= 0
  /\ nev' = nev + 1
  /\ LET pr == Limit - off
         nb == IF t = "b" THEN bnd[p] + dlt ELSE bnd[p]
         nd == IF t = "d" THEN dlg[p] + dlt ELSE dlg[p]
         np == CalcPower(nb, nb + nd)
     IN /\ bnd' = [bnd EXCEPT ![p] = nb] /\ dlg' = [dlg EXCEPT ![p] = nd]
        /\ known' = [known EXCEPT ![p] = TRUE]           \* an unknown target is added as disabled P-Rep
        /\ accV' = [accV EXCEPT ![p] = @ + dlt * pr]
        /\ power' = [power EXCEPT ![p] = np]
        /\ accP' = [accP EXCEPT ![p] = @ + (np - power[p]) * pr]
        /\ AV' = [AV EXCEPT ![v][p] = @ + dlt * pr]
        /\ touched' = [touched EXCEPT ![v] = @ \cup {p}]
  /\ IF t = "d" THEN curD' = [curD EXCEPT ![v][p] = @ + dlt] /\ UNCHANGED curB
                ELSE curB' = [curB EXCEPT ![v][p] = @ + dlt] /\ UNCHANGED curD
  /\ Log([op |-> "vote", v |-> v, t |-> t, p |-> p, a |-> dlt, off |-> off])
  /\ UNCHANGED <<phase, off, nbase, rate, pubkey, status, rank, ranked, baseD, baseB, sumV, sumVoted, sumPower, res, term, iscore>>

(* EventEnable: PRepInfo.SetStatus *)
SetStatus(p, s) ==
  /\ phase = "term" /\ nev < MaxEv /\ (known[p] => status[p] # s)
  /\ nev' = nev + 1
  /\ status' = [status EXCEPT ![p] = s]
  /\ known' = [known EXCEPT ![p] = TRUE]
  /\ Log([op |-> "status", p |-> p, s |-> s, off |-> off])
  /\ UNCHANGED <<phase, off, nbase, rate, pubkey, dlg, bnd, power, rank, ranked, accV, accP, baseD, baseB, curD,
                 curB, AV, touched, sumV, sumVoted, sumPower, res, term, iscore>>

NextBlock ==
  /\ phase = "term" /\ off < Limit
  /\ off' = off + 1
  /\ sumV' = [v \in Voters |-> [p \in Preps |-> sumV[v][p] + curD[v][p] + curB[v][p]]]
  /\ sumVoted' = [p \in Preps |-> sumVoted[p] + Voted(p)]
  /\ sumPower' = [p \in Preps |-> sumPower[p] + power[p]]
  /\ Log([op |-> "block", off |-> off'])
  /\ UNCHANGED <<phase, nbase, nev, rate, pubkey, known, status, dlg, bnd, power, rank, ranked, accV, accP, baseD,
                 baseB, curD, curB, AV, touched, res, term, iscore>>

FundToPeriodIScore(reward) == (reward * T * IScoreICXRatio) \div MonthBlock
NElected == Min(Elected, Len(ranked))
ElectedSet == {ranked[i] : i \in 1..NElected}
\* PRep.IsRewardable
Rewardable(p) == known[p] /\ status[p] = "enable" /\ rank[p] < Elected /\ accP[p] > 0
TotalAP == SumP([p \in Preps |-> IF p \in ElectedSet THEN accP[p] ELSE 0])
TReward == FundToPeriodIScore(RewardP)
MinWage == FundToPeriodIScore(RewardW)
\* PRep.CalculateReward for the P-Reps reached by the loop over the elected ranks
Paid(p) == p \in ElectedSet /\ Rewardable(p)
PrepReward(p) == IF Paid(p) THEN (TReward * accP[p]) \div TotalAP ELSE 0
Commission(p) == (PrepReward(p) * rate[p]) \div 10000
VoterReward(p) == PrepReward(p) - Commission(p)
Wage(p) == IF Paid(p) /\ bnd[p] >= MinBond THEN MinWage \div Elected ELSE 0
\* Voter.CalculateReward, one term of its sum
Share(v, p) == IF p \in touched[v] /\ Rewardable(p) /\ accV[p] # 0 THEN (AV[v][p] * VoterReward(p)) \div accV[p] ELSE 0

Calculate ==
  /\ phase = "term" /\ off = Limit
  /\ phase' = "done"
  /\ iscore' = [x \in Preps \cup Voters |->
                 iscore[x] - claim[x] + (IF x \in Preps THEN Commission(x) + Wage(x) ELSE SumP([p \in Preps |-> Share(x, p)]))]
  /\ res' = [done |-> TRUE, term |-> term, treward |-> TReward, minwage |-> MinWage, totalap |-> TotalAP,
             prep |-> [p \in Preps |-> [known |-> known[p], rewardable |-> Rewardable(p), accv |-> accV[p], accp |-> accP[p],
                                        commission |-> Commission(p), vreward |-> VoterReward(p), wage |-> Wage(p),
                                        reward |-> Commission(p) + Wage(p)]],
             voter |-> [v \in Voters |-> [av |-> AV[v], share |-> [p \in Preps |-> Share(v, p)],
                                          reward |-> SumP([p \in Preps |-> Share(v, p)])]]]
  /\ claimed' = claimed + SumP([p \in Preps |-> claim[p]]) + SumVt([v \in Voters |-> claim[v]])
  /\ UNCHANGED <<newrate, claim>>
  \* ratefail: P-Reps that set a commission rate in this term but whose Voted record UpdateVoted drops (not enabled, no
  \* votes, old rate 0): processCommissionRate finds no record for them ("Non PRep set the commission rate")
  /\ Log([op |-> "calc", res |-> res',
          ratefail |-> {p \in Preps : newrate[p] >= 0 /\ status[p] \notin {"enable", "nextterm"} /\ dlg[p] = 0 /\ bnd[p] = 0 /\ rate[p] = 0}])
  /\ UNCHANGED <<off, nbase, nev, rate, pubkey, known, status, dlg, bnd, power, rank, ranked, accV, accP, baseD, baseB,
                 curD, curB, AV, touched, sumV, sumVoted, sumPower, term>>

(* the next term: the calculator's result is the next base (PRepInfo.UpdateVoted / PRep.ToVoted,
   VoteEvents.UpdateVoting): votes and statuses carry over, "enable at next term" becomes enabled *)
NextTerm ==
  /\ phase = "done" /\ term < Terms
  /\ term' = term + 1 /\ phase' = "base" /\ off' = 0 /\ nbase' = MaxBase /\ nev' = 0
  \* icreward State.SetVoted drops a record that is not enabled and has no votes and no commission rate (Voted.IsEmpty)
  /\ LET st(p) == IF status[p] = "nextterm" THEN "enable" ELSE status[p]
         nr(p) == IF newrate[p] >= 0 THEN newrate[p] ELSE rate[p]       \* processCommissionRate
         kept(p) == known[p] /\ ~(st(p) # "enable" /\ dlg[p] = 0 /\ bnd[p] = 0 /\ nr(p) = 0)
     IN /\ known' = [p \in Preps |-> kept(p)]
        /\ status' = [p \in Preps |-> IF kept(p) THEN st(p) ELSE "disabled"]
        /\ pubkey' = [p \in Preps |-> kept(p)]
        /\ rate' = [p \in Preps |-> IF kept(p) THEN nr(p) ELSE 0]
  /\ newrate' = [p \in Preps |-> -1] /\ claim' = [x \in Preps \cup Voters |-> 0] /\ UNCHANGED claimed
  /\ baseD' = curD /\ baseB' = curB
  /\ power' = ZeroP /\ rank' = ZeroP /\ ranked' = <<>> /\ accV' = ZeroP /\ accP' = ZeroP
  /\ AV' = ZeroVP /\ touched' = [v \in Voters |-> {}]
  /\ sumV' = ZeroVP /\ sumVoted' = ZeroP /\ sumPower' = ZeroP
  /\ res' = [done |-> FALSE]
  /\ Log([op |-> "next", term |-> term'])
  \* loadPRepInfo derives "has all public keys" from the base snapshot; with no DSA required (mask 0) every
  \* P-Rep with a Voted record qualifies, also those that PRepInfo.SetStatus added without key in the last term
  /\ UNCHANGED <<dlg, bnd, curD, curB, iscore>>

(* setCommissionRate of an enabled, registered P-Rep during the term (icstage CommissionRate record,
   calculator.go processCommissionRate): this term is still paid with the old rate *)
SetRate(p, r) ==
  /\ phase = "term" /\ nev < MaxEv /\ known[p] /\ status[p] = "enable" /\ r # rate[p] /\ newrate[p] # r
  /\ nev' = nev + 1
  /\ newrate' = [newrate EXCEPT ![p] = r]
  /\ Log([op |-> "rate", p |-> p, a |-> r, off |-> off])
  /\ UNCHANGED <<phase, off, nbase, rate, pubkey, known, status, dlg, bnd, power, rank, ranked, accV, accP, baseD, baseB,
                 curD, curB, AV, touched, sumV, sumVoted, sumPower, res, term, iscore, claim, claimed>>

(* claimIScore of everything the account holds (icstage IScoreClaim record, calculator.go processClaim) *)
ClaimIScore(x) ==
  /\ phase = "term" /\ nev < MaxEv /\ claim[x] = 0 /\ iscore[x] > 0
  /\ nev' = nev + 1
  /\ claim' = [claim EXCEPT ![x] = iscore[x]]
  /\ Log([op |-> "claim", x |-> x, a |-> iscore[x], off |-> off])
  /\ UNCHANGED <<phase, off, nbase, rate, pubkey, known, status, dlg, bnd, power, rank, ranked, accV, accP, baseD, baseB,
                 curD, curB, AV, touched, sumV, sumVoted, sumPower, res, term, iscore, newrate, claimed>>

Next == \/ \E v \in Voters, t \in {"d", "b"}, p \in Preps, a \in Amts : BaseVote(v, t, p, a) /\ UNCHANGED XVars
        \/ StartTerm /\ UNCHANGED XVars
        \/ \E v \in Voters, t \in {"d", "b"}, p \in Preps, a \in Amts : Event(v, t, p, a) /\ UNCHANGED XVars
        \/ \E v \in Voters, t \in {"d", "b"}, p \in Preps, a \in Amts : Event(v, t, p, -a) /\ UNCHANGED XVars
        \/ \E p \in Preps, s \in {"enable", "disabled", "nextterm"} : SetStatus(p, s) /\ UNCHANGED XVars
        \/ \E p \in Preps, r \in Rates : SetRate(p, r)
        \/ \E x \in Preps \cup Voters : ClaimIScore(x)
        \/ NextTerm
        \/ NextBlock /\ UNCHANGED XVars
        \/ Calculate
Spec == Init /\ [][Next]_vars

----------------------------------------------------------------------------
(* C35 *)
Done == res.done
\* over all terms so far no more than the terms' funds was credited
\* (what the accounts hold plus what they claimed is what was credited)
CumulativeBudget == SumP([p \in Preps |-> iscore[p]]) + SumVt([v \in Voters |-> iscore[v]]) + claimed
                      <= (IF Done THEN term ELSE term - 1) * (TReward + MinWage)
\* the I-Score credited to P-Reps and voters never exceeds the term's funds
PRepBudget == Done => SumP([p \in Preps |-> res.prep[p].commission + res.prep[p].vreward]) <= res.treward
WageBudget == Done => SumP([p \in Preps |-> res.prep[p].wage]) <= res.minwage
VoterBudget == Done => \A p \in Preps : SumVt([v \in Voters |-> res.voter[v].share[p]]) <= res.prep[p].vreward
TotalBudget == Done => SumP([p \in Preps |-> res.prep[p].reward]) + SumVt([v \in Voters |-> res.voter[v].reward])
                        <= res.treward + res.minwage
\* a voter's reward from a P-Rep is its share of that P-Rep's voter reward in proportion to its
\* accumulated votes (the block-by-block sum sumV), rounded down
Proportional ==
  Done => \A v \in Voters, p \in Preps :
            LET s == res.voter[v].share[p] IN
            IF res.prep[p].rewardable /\ sumV[v][p] > 0
              THEN /\ s * sumVoted[p] <= sumV[v][p] * res.prep[p].vreward
                   /\ sumV[v][p] * res.prep[p].vreward < (s + 1) * sumVoted[p]
              ELSE s = 0
\* the incrementally accumulated values are the block-by-block sums, projected to the end of the term
AccumulatedIsBlockSum ==
  phase # "base" =>
    /\ \A v \in Voters, p \in Preps : AV[v][p] = sumV[v][p] + (curD[v][p] + curB[v][p]) * (Limit - off)
    /\ \A p \in ElectedSet : /\ accV[p] = sumVoted[p] + Voted(p) * (Limit - off)
                             /\ accP[p] = sumPower[p] + power[p] * (Limit - off)
\* (a registered P-Rep outside the elected ranks is not initialised by InitAccumulated: its accumulated values are
\* only the sum of the term's events, may be negative and are never used)
RankedSet == {ranked[i] : i \in 1..Len(ranked)}
NonNegative == \A p \in Preps : /\ power[p] >= 0 /\ power[p] <= Voted(p)
                                 /\ (p \in ElectedSet \/ p \notin RankedSet) => (accV[p] >= 0 /\ accP[p] >= 0 /\ accP[p] <= accV[p])
\* Voter.CalculateReward never divides by zero
NoDivZero == phase = "term" => \A v \in Voters, p \in Preps : (p \in touched[v] /\ Rewardable(p)) => accV[p] > 0
=============================================================================
