---- MODULE MC_Staking ----
EXTENDS Staking
\* exhaustive checker view: the recorded history does not influence behaviour; the run is
\* bounded by MaxH blocks of MaxTx transactions (MaxOps is set above that bound)
ViewNoHist == <<h, ntx, lockp, bal, stake, slots, deleg, bond, unbond, ustimer, ubtimer, reg, supply,
                tstake, tdeleg, tbond, burned, xst, xbond, pool, rew>>
====
