SPECIFICATION Spec
CONSTANTS
  NPreps = 3
  BaseCount = 2
  Voters = {"v1", "v2"}
  T = 3
  Elected = 2
  BRNum = 1
  BRDen = 2
  RewardP = 431999
  RewardW = 43200
  MinBond = 1
  Amts = {1, 2}
  Rates = {0, 1500}
  MaxBase = 2
  MaxEv = 2
  Terms = 1
  Record = TRUE
INVARIANT Emit
