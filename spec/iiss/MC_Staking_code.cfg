\* the unstake timer jobs applied literally as the code does (Impl = "code"), stake-only slice of one
\* account: TLC is expected to find a history in which an unstake slot survives its expire height
SPECIFICATION Spec
CONSTANTS
  Accts = {"a"}
  Ext = {}
  MaxAmt = 3
  Fee = 1
  SlotMax = 2
  Periods = {1, 2}
  UnbondPeriod = 1
  UnbondMax = 1
  MaxH = 4
  MaxTx = 2
  MaxOps = 100
  Record = FALSE
  ExtBond = 1
  ExtDeleg = 14
  PoolInit = 1
  Impl = "code"
VIEW ViewNoHist
INVARIANT Conservation
INVARIANT VotingWithinStake
INVARIANT TotalsConsistent
INVARIANT NoOverdueUnstake
