SPECIFICATION Spec
CONSTANTS
  Accts = {"a", "b"}
  Ext = {"p"}
  MaxAmt = 2
  Fee = 1
  SlotMax = 2
  Periods = {1, 2}
  UnbondPeriod = 1
  UnbondMax = 1
  MaxH = 3
  MaxTx = 2
  MaxOps = 100
  Record = FALSE
  ExtBond = 1
  ExtDeleg = 14
  PoolInit = 1
  Impl = "required"
VIEW ViewNoHist
INVARIANT Conservation
INVARIANT BurnAccounted
INVARIANT ClaimAccounted
INVARIANT VotingWithinStake
INVARIANT TotalsConsistent
INVARIANT NoOverdueUnstake
INVARIANT NoOverdueUnbond
INVARIANT TimerCoversSlots
INVARIANT TimerCoversUnbonds
INVARIANT NoNegative
PROPERTY ReturnedOnceWhenDue
