SPECIFICATION CoinSpec
CONSTANTS
  Accts = {"a", "b"}
  Ext = {"p"}
  MaxAmt = 2
  Fee = 1
  SlotMax = 2
  Periods = {1, 2}
  UnbondPeriod = 1
  UnbondMax = 2
  MaxH = 40
  MaxTx = 4
  MaxOps = 12
  Depth = 12
  Record = TRUE
  ExtBond = 1
  ExtDeleg = 14
  PoolInit = 1
  Impl = "required"
INVARIANT EmitCoin
