---- MODULE MC_Reward ----
EXTENDS Reward
ViewNoHist == <<phase, off, nbase, nev, rate, pubkey, known, status, dlg, bnd, power, rank, ranked, accV, accP,
                baseD, baseB, curD, curB, AV, touched, sumV, sumVoted, sumPower, res, term, iscore, newrate, claim, claimed>>
====
