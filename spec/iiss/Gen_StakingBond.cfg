SPECIFICATION BondSliceSpec
CONSTANTS
  Accts = {"a"}
  Ext = {"p", "q"}
  MaxAmt = 3
  Fee = 1
  SlotMax = 2
  Periods = {1}
  UnbondPeriod = 2
  UnbondMax = 2
  MaxH = 40
  MaxTx = 2
  MaxOps = 16
  Depth = 16
  Record = TRUE
  ExtBond = 1
  ExtDeleg = 14
  PoolInit = 1
  Impl = "required"
INVARIANT Emit
