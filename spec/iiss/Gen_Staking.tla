---- MODULE Gen_Staking ----
EXTENDS Staking, Json
CONSTANT Depth
\* a behaviour is printed when it has Depth recorded steps; every "end" step carries the
\* predicted projection of all accounts and the predicted network totals
Emit == (Len(hist) = Depth) => PrintT(<<"B", ToJson(hist)>>)

(* Generator relation: a sub-relation of Next (every step is a step of Spec) that keeps the
   argument choices close to the accept/reject boundary, so that random walks are not dominated
   by trivially rejected transactions: vectors and amounts exceed what the account can afford by
   at most one unit. *)
Room(a) == stake[a] + 1
GenNext ==
        \/ \E a \in Accts, v \in 0..MaxAmt : SetStake(a, v)
        \/ \E a \in Accts, d \in Vecs :
              SumVec(d) + SumVec(bond[a]) + UnbondTotal(a) <= Room(a) /\ SetDelegation(a, d)
        \/ \E a \in Accts, b \in Vecs :
              /\ SumVec(b) + SumVec(deleg[a]) <= Room(a)
              /\ (SumVec(b) = 1 \/ \A t \in Targets : b[t] > 0 => HasBase(t)) = TRUE
              /\ SetBond(a, b)
        \/ \E a \in Accts, to \in Accts, v \in 1..MaxAmt : v <= bal[a] + 1 /\ Transfer(a, to, v)
        \/ \E a \in Accts : Register(a)
        \/ \E a \in Accts : Unregister(a)
        \/ \E t \in Targets : Disqualify(t)
        \/ \E a \in Accts, r \in 0..1 : Claim(a, r)
        \/ \E p \in Periods, rs \in BOOLEAN : EndBlock(p, rs)
GenSpec == Init /\ [][GenNext]_vars

(* Stake/unstake slice: only effective SetStake calls and block ends; enumerated exhaustively (BFS)
   for one account, it contains every short history of unstake slots and their timers. *)
SliceNext ==
        \/ \E a \in Accts, v \in 0..MaxAmt : v # stake[a] /\ SetStake(a, v)
        \/ \E p \in Periods : EndBlock(p, h % 2 = 1)        \* restart from the database after every odd block
SliceSpec == Init /\ [][SliceNext]_vars

(* Bond/unbond slice: stake once, then only effective SetBond calls (bond, partial and full
   unbonding, re-bonding while unbonding) and block ends, so that random walks spend their steps on
   unbond entries and their timers. *)
BondSliceNext ==
        \/ \E a \in Accts : stake[a] = 0 /\ SetStake(a, MaxAmt)
        \/ \E a \in Accts, b \in Vecs :
              /\ stake[a] > 0 /\ b # bond[a]
              /\ (\A t \in Targets : b[t] > 0 => HasBase(t)) = TRUE
              /\ SetBond(a, b)
        \/ \E a \in Accts, d \in Vecs : stake[a] > 0 /\ d # deleg[a] /\ SumVec(d) <= 1 /\ SetDelegation(a, d)
        \/ \E t \in Targets : HasBase(t) /\ Active(t) /\ Disqualify(t)
        \/ \E p \in Periods, rs \in BOOLEAN : EndBlock(p, rs)
BondSliceSpec == Init /\ [][BondSliceNext]_vars

(* Coinciding timers: every account stakes, then only bonds to external P-Reps, unbonding, stake
   decreases (unstakes) and block ends.  With the lock period equal to the unbonding period an unstake
   and an unbond created in the same block expire at exactly the same height, for one account or
   for two different ones.  EmitCoin prints only behaviours in which an unbonding and an unstaking
   timer fired at the same height and at least one more block followed (so that the replay observes
   the state after that height). *)
AllStaked == \A x \in Accts : stake[x] > 0
CoinNext ==
        \* block 0: every account stakes everything and may bond part of it to an external P-Rep
        \/ \E a \in Accts : h = 0 /\ stake[a] = 0 /\ SetStake(a, MaxAmt)
        \/ \E a \in Accts, b \in Vecs :
              /\ h = 0 /\ AllStaked /\ bond[a] = ZeroVec /\ b # ZeroVec /\ (\A t \in Accts : b[t] = 0) = TRUE
              /\ SetBond(a, b)
        \* blocks 1 and 2: only decreases - of bonds (unbonding starts) and of stakes (unstaking starts)
        \/ \E a \in Accts, b \in Vecs :
              /\ h \in {1, 2} /\ b # bond[a] /\ (\A t \in Targets : b[t] <= bond[a][t]) = TRUE
              /\ SetBond(a, b)
        \/ \E a \in Accts, v \in 0..MaxAmt : h \in {1, 2} /\ v < stake[a] /\ v >= Using(a) /\ SetStake(a, v)
        \/ \E p \in Periods, rs \in BOOLEAN : AllStaked /\ EndBlock(p, rs)
CoinSpec == Init /\ [][CoinNext]_vars
CoinSeen == \E i \in 1..(Len(hist) - 1) : hist[i].op = "end" /\ hist[i].coin.any
EmitCoin == (Len(hist) = Depth /\ hist[Len(hist)].op = "end" /\ CoinSeen) => PrintT(<<"B", ToJson(hist)>>)
====
