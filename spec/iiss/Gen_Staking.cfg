SPECIFICATION GenSpec
CONSTANTS
  Accts = {"a", "b"}
  Ext = {"p"}
  MaxAmt = 3
  Fee = 1
  SlotMax = 2
  Periods = {1, 2}
  UnbondPeriod = 1
  UnbondMax = 1
  MaxH = 40
  MaxTx = 2
  MaxOps = 4
  Record = TRUE
  Depth = 4
  ExtBond = 1
  ExtDeleg = 14
  PoolInit = 1
  Impl = "required"
INVARIANT Emit
