SPECIFICATION GenSpec
CONSTANTS
  MaxN = 7
  Whats = {"ok", "block", "round", "psid", "type", "ts", "forged", "garbage"}
  MaxExtra = 2
  MaxOver = 1
  MinN = 0
  Ops = {"list", "vector"}
  Ns = {1, 2, 3, 4, 5, 6, 7}
  MaxAnom = 1
  Family = "table"
  Ns2 = {1, 2, 3}
  NsPerm = {1, 2, 3, 4}
  Form = "list"
