---- MODULE MC_QuorumCert ----
EXTENDS QuorumCert
\* the history only records the verdict of the closing verification
ViewNoHist == <<ctx, n, cert, proof, done>>
IntersectionOnce == (hist = <<>> /\ cert = <<>>) => QuorumIntersection
====
