---------------------------- MODULE DoubleSign ----------------------------
(* Double-sign evidence (C06): consensus/doublesigndata.go, consensus/dsmlog.go,
   service/transaction/doublesignreport.go:PreValidate.

   A signed consensus message is abstracted to the fields that its signature covers:
     kind    prevote | precommit | proposal          (vote type / message type)
     signer  the key that signed it
     height, round
     nid     network id carried inside the signed bytes; 0 = unspecified (old format)
     body    the decided value: block id + part-set id ("nil" = nil vote, votes only)
     aux     the remaining signed field (vote timestamp / proposal POL round)
   and one component that the signature does NOT cover:
     u       the BTP part a precommit carries next to its signed bytes (NTSVoteBases / NTSDProofParts:
             0 = none, 1, 2 = two different lists); the signed bytes of a vote are its height, round, type,
             block id, part-set id and timestamp only.  Prevotes and proposals have no unsigned part.
   Signatures are symbolic: two messages have the same signed hash iff the seven signed fields agree;
   anybody can re-encode a genuine vote with another u and the same signature.

   State: the double-sign-message log of one node (dsmLog), a partial map from
   (kind, signer, height, round) to the last logged message.  Actions:
     Receive(m)      dsmLog.LogAndCheckVoteMessage / LogAndCheckProposalMessage
     Check(m1, m2)   DoubleSignData.IsConflictWith of two decoded messages, the predicate used by
                     doubleSignReportTx.PreValidate for a report found in a transaction. *)
EXTENDS Integers, Sequences, FiniteSets, TLC
CONSTANTS Signers, Heights, Rounds, Nids, Bodies, Auxes, Us, MaxOps,
          Ops      \* enabled calls, a subset of {"recv", "check"} (bounds the exhaustive runs)

BadNid == 9      \* a value of Nids that stands for "bytes that are not a network id"
Kinds == {"prevote", "precommit", "proposal"}
NoMsg == [kind |-> "none"]
Msgs == {m \in [kind : Kinds, signer : Signers, height : Heights, round : Rounds, nid : Nids,
                body : Bodies, aux : Auxes, u : Us] :
             /\ m.kind = "proposal" => m.body # "nil"
             /\ m.kind # "precommit" => m.u = 0
             /\ m.nid = BadNid => (m.body = "nil" /\ m.kind # "proposal")}
\* a nil vote carries its network id in place of the block id; BadNid stands for bytes there that are not a network id
\* (old or malformed nil votes): the network of such a vote is unspecified, like 0
\* what the signature covers
Signed(m) == [m EXCEPT !.u = 0]
Keys == [kind : Kinds, signer : Signers, height : Heights, round : Rounds]
KeyOf(m) == [kind |-> m.kind, signer |-> m.signer, height |-> m.height, round |-> m.round]

VARIABLES log,     \* [Keys -> Msgs \cup {NoMsg}]
          hist     \* calls with predicted results
vars == <<log, hist>>

\* network ids are compatible when equal or when one of them is unspecified (matchNID)
Eff(a) == IF a = BadNid THEN 0 ELSE a
MatchNid(a, b) == Eff(a) = 0 \/ Eff(b) = 0 \/ Eff(a) = Eff(b)
\* the conflict predicate exactly as property C06 states it
Conflict(m1, m2) ==
  /\ m1.kind = m2.kind
  /\ m1.signer = m2.signer
  /\ m1.height = m2.height
  /\ m1.round = m2.round
  /\ MatchNid(m1.nid, m2.nid)
  /\ Signed(m1) # Signed(m2)      \* signed contents differ (symbolic hash); the unsigned part is irrelevant

Init == log = [k \in Keys |-> NoMsg] /\ hist = <<>>

\* LogAndCheck*: a conflicting message is reported together with the logged one and is not
\* logged; otherwise a vote replaces the logged message, a proposal is logged only if the
\* slot is empty.
Receive(m) ==
  LET old == log[KeyOf(m)]
      ev == old # NoMsg /\ Conflict(old, m) IN
  /\ log' = IF ev THEN log
            ELSE IF m.kind = "proposal" /\ old # NoMsg THEN log
            ELSE [log EXCEPT ![KeyOf(m)] = m]
  /\ hist' = Append(hist, [op |-> "recv", m |-> m, ev |-> ev, old |-> old])

Check(m1, m2) ==
  /\ UNCHANGED log
  /\ hist' = Append(hist, [op |-> "check", m |-> m1, m2 |-> m2, ev |-> Conflict(m1, m2)])

\* DecodeDoubleSignData of bytes found in a report that are not a correctly signed message of the stated type:
\* signature from which no key can be recovered, truncated encoding, a type name that does not exist ("error": they
\* can never become evidence); the bytes of a vote presented as a proposal or vice versa must at least not crash
Defects == {"badsig", "trunc", "unknowntype", "wrongtype"}
Decode(m, d) ==
  /\ UNCHANGED log
  /\ hist' = Append(hist, [op |-> "decode", m |-> m, d |-> d, ev |-> FALSE,
                           res |-> IF d = "wrongtype" THEN "nocrash" ELSE "error"])

Can == Len(hist) < MaxOps
Next == \/ Can /\ "recv" \in Ops /\ \E m \in Msgs : Receive(m)
        \/ Can /\ "check" \in Ops /\ \E m1, m2 \in Msgs : Check(m1, m2)
        \/ Can /\ "decode" \in Ops /\ \E m \in Msgs, d \in Defects : Decode(m, d)
Spec == Init /\ [][Next]_vars

----------------------------------------------------------------------------
TypeOK == \A k \in Keys : log[k] = NoMsg \/ (log[k] \in Msgs /\ KeyOf(log[k]) = k)

\* the step just taken and the pair of messages it reports when it bears evidence
Last == hist'[Len(hist')]
Stepped == hist' # hist
Pair(s) == IF s.op = "recv" THEN <<s.old, s.m>> ELSE <<s.m, s.m2>>
Reports == Stepped /\ Last.ev

\* C06, clause by clause: evidence only for the same signer, height, round and type ...
SameSlot == [][Reports => KeyOf(Pair(Last)[1]) = KeyOf(Pair(Last)[2])]_vars
\* ... on the same network or an unspecified one ...
SameNetwork == [][Reports => LET p == Pair(Last) IN
                               ~(Eff(p[1].nid) # 0 /\ Eff(p[2].nid) # 0 /\ p[1].nid # p[2].nid)]_vars
\* undecodable bytes never bear evidence
GarbageIsNoEvidence == [][(Stepped /\ Last.op = "decode") => ~Last.ev]_vars
\* ... whose signed contents differ.
Differ == [][Reports => Signed(Pair(Last)[1]) # Signed(Pair(Last)[2])]_vars
\* the log reports and keeps only messages it has been given: a slot changes only to the
\* received message, and the reported old message is the one that was logged
LogFromInputs ==
  [][(Stepped /\ Last.op = "recv") =>
        /\ \A k \in Keys : log'[k] # log[k] => (k = KeyOf(Last.m) /\ log'[k] = Last.m)
        /\ Last.ev => (Last.old = log[KeyOf(Last.m)] /\ Last.old # NoMsg /\ log' = log)]_vars
\* a message repeated verbatim, or re-encoded with another unsigned part, never yields evidence
RepeatIsSilent ==
  [][(Stepped /\ Last.op = "recv" /\ log[KeyOf(Last.m)] # NoMsg
              /\ Signed(log[KeyOf(Last.m)]) = Signed(Last.m)) => ~Last.ev]_vars
\* one genuine message can never be turned into evidence against its signer, and the unsigned part
\* cannot hide a genuine conflict either
UnsignedIrrelevant == \A m1, m2 \in Msgs : Conflict(m1, m2) = Conflict(Signed(m1), Signed(m2))
\* the predicate does not depend on the argument order (a report [a,b] is as good as [b,a])
Symmetric == \A m1, m2 \in Msgs : Conflict(m1, m2) = Conflict(m2, m1)
=============================================================================
