---- MODULE Gen_DoubleSign ----
EXTENDS DoubleSign, Json
CONSTANT Depth, Mode
\* Mode "table": the whole decision table of the conflict predicate, one row per message: the
\*   set of partner messages for which Check(m, m2) reports evidence (every other message of the
\*   alphabet is predicted not to be evidence); the alphabet is printed once.
\* Mode "pairs": one Check per behaviour.   Mode "log": sequences of Receive on one log.
\* A behaviour is printed by the closing step Done, which TLC evaluates once per explored state
\* of length Depth (BFS: every behaviour once; -simulate: once per walk).
Partners(m) == {m2 \in Msgs : Conflict(m, m2)}
Done == /\ Len(hist) = Depth /\ Mode # "table"
        /\ PrintT(<<"B", ToJson(hist)>>)
        /\ hist' = Append(hist, [op |-> "done"]) /\ UNCHANGED log
GenNext == \/ Can /\ Mode = "pairs" /\ \E m1, m2 \in Msgs : Check(m1, m2)
           \/ Can /\ Mode = "log" /\ \E m \in Msgs : Receive(m)
           \/ Can /\ Mode = "decode" /\ \E m \in Msgs, d \in Defects : Decode(m, d)
           \/ Done
GenSpec == Init /\ [][GenNext]_vars
Emit == (Mode = "table" /\ hist = <<>>) =>
              /\ PrintT(<<"A", ToJson(Msgs)>>)
              /\ \A m \in Msgs : PrintT(<<"R", ToJson([m |-> m, evs |-> Partners(m)])>>)
====
