---------------------------- MODULE QuorumCert ----------------------------
(* Quorum certificates with symbolic cryptography.
   C05  commit vote lists   consensus/commitvotelist.go: blockCommitVoteList.VerifyBlock, enoughVote
                            (used by block/block.go:verifyProofForLastBlock on propose/import and by
                            consensus.processBlock on fast sync)
   C29  BTP proofs          btp/ntm/secp256k1proof.go: secp256k1Proof.Add, VerifyPart, Verify

   There are n validators 1..n; 0 stands for a key that is not a validator.  A signature is the
   symbolic term [who, what]: `who' signed, and `what' tells what the signed bytes were:
     "ok"      exactly the target (this block id, round, part-set id, precommit, the item's timestamp /
               this BTP decision)
     "block" "round" "psid" "type" "ts"   a correct signature of `who', but over another block id,
               another round, another part-set id, a prevote instead of a precommit, or a timestamp other
               than the one stored next to it (C05) - "other": over another decision (C29)
     "forged"  random signature bytes (a bit flipped, random r and s, the other recovery flag)
     "garbage" bytes from which no key can be recovered at all (empty signature, r = s = 0)
   Recovering the signer of a signature that is not "ok" yields a key unrelated to every validator, or
   no key; both are "not a validator" (0) and the certificate must be rejected, not crash the verifier.

   List form (C05): a commit vote list is a sequence of items in any order, built by AppendItem.
   Vector form (C29): a proof is a vector of slots; Add(part) stores the part at the index the part
   claims, overwriting the slot.  A proof made by the context (NewProof) has one slot per validator, but
   a proof decoded from bytes (NewProofFromBytes) has whatever WIDTH the sender chose: fewer slots than
   validators, as many, or more.  The property counts against the validators of the CONTEXT: more than
   two thirds of n, each at its own index; a filled slot beyond the validator list belongs to nobody. *)
EXTENDS Integers, Sequences, FiniteSets, TLC
CONSTANTS MaxN,        \* validator set sizes 1..MaxN
          Whats,       \* kinds of signed content in use, "ok" included
          MaxExtra,    \* a list has at most n + MaxExtra items
          Ops,         \* enabled forms, subset of {"list", "vector"}
          MaxOver,     \* a proof vector has 0..n+MaxOver slots
          MinN         \* smallest validator set: 0 = the certified block designates no voters (the genesis block, or a
                       \* nil / empty validator list): only the empty list is a certificate then

None == [who |-> -1, what |-> "none"]
Sig(n) == [who : 0..n, what : Whats]

VARIABLES ctx,     \* how the proof context came to be: "new" (NewProofContext(keys)) or "restored" (from its bytes, as a node reads it from state)
          n,       \* size of the validator set designated by the parent
          cert,    \* list form: Seq(Sig(n))
          proof,   \* vector form: Seq(Sig(n) \cup {None}) of any width 0..n+MaxOver
          done,    \* the behaviour has ended with a verification
          hist
vars == <<ctx, n, cert, proof, done, hist>>

\* the key recovered from a signature checked against the target: a validator index, or 0 (unrelated key)
Recovered(s) == IF s.what = "ok" THEN s.who ELSE 0

-----------------------------------------------------------------------------
(* Operational definitions, following the loops of the code *)

\* VerifyBlock: scan the items; unknown signer -> reject; signer seen before -> reject; finally the count
RECURSIVE ScanList(_, _, _, _)
ScanList(nn, c, i, seen) ==
  IF i > Len(c) THEN (IF nn = 0 \/ Len(c) > (nn * 2) \div 3 THEN "ok" ELSE "few")
  ELSE LET k == Recovered(c[i]) IN
       IF k = 0 THEN "badvoter"
       ELSE IF k \in seen THEN "duplicate"
       ELSE ScanList(nn, c, i + 1, seen \cup {k})
VerifyListRes(nn, c) == ScanList(nn, c, 1, {})

\* VerifyPart: index in range, the recovered key is the validator at that index
PartRes(nn, idx, s) ==
  IF idx < 1 \/ idx > nn THEN "range"
  ELSE IF Recovered(s) = idx THEN "ok"
  ELSE IF Recovered(s) # 0 THEN "wrongindex" ELSE "notvalidator"

\* Verify: every filled slot of the proof (whatever its width) must verify at its own index; the verified
\* slots must be more than two thirds of the validators of the context
RECURSIVE ScanVec(_, _, _, _)
ScanVec(nn, p, i, valid) ==
  IF i > Len(p) THEN (IF valid <= (2 * nn) \div 3 THEN "few" ELSE "ok")
  ELSE IF p[i] = None THEN ScanVec(nn, p, i + 1, valid)
  ELSE IF PartRes(nn, i, p[i]) # "ok" THEN PartRes(nn, i, p[i])
  ELSE ScanVec(nn, p, i + 1, valid + 1)
VerifyProofRes(nn, p) == ScanVec(nn, p, 1, 0)

-----------------------------------------------------------------------------
Widths(nn) == IF "vector" \in Ops THEN 0..(nn + MaxOver) ELSE {nn}
Init == /\ ctx \in (IF "vector" \in Ops THEN {"new", "restored"} ELSE {"new"}) /\ n \in MinN..MaxN /\ cert = <<>> /\ proof \in {[i \in 1..w |-> None] : w \in Widths(n)}
        /\ done = FALSE /\ hist = <<>>

\* NewCommitVoteList(msgs...): one more precommit signature goes into the list
AppendItem(s) == /\ ~done /\ Len(cert) < n + MaxExtra
             /\ cert' = Append(cert, s)
             /\ UNCHANGED <<ctx, n, proof, done, hist>>
\* CommitVoteSet.VerifyBlock(block, validators)
VerifyList == /\ ~done /\ done' = TRUE
              /\ hist' = Append(hist, [op |-> "verifylist", n |-> n, cert |-> cert,
                                       res |-> VerifyListRes(n, cert)])
              /\ UNCHANGED <<ctx, n, cert, proof>>
\* BTPProof.Add(part) of a part claiming index idx / slot idx of a serialized proof
AddPart(idx, s) == /\ ~done /\ idx \in 1..Len(proof) /\ proof' = [proof EXCEPT ![idx] = s]
                   /\ UNCHANGED <<ctx, n, cert, done, hist>>
\* BTPProofContext.VerifyPart(hash, part)
VerifyPart(idx, s) == /\ ~done /\ done' = TRUE
                      /\ \A i \in 1..Len(proof) : proof[i] = None     \* stateless: explored once per context
                      /\ hist' = Append(hist, [op |-> "verifypart", ctx |-> ctx, n |-> n, idx |-> idx, part |-> s,
                                               res |-> PartRes(n, idx, s)])
                      /\ UNCHANGED <<ctx, n, cert, proof>>
\* BTPProofContext.Verify(hash, proof)
VerifyProof == /\ ~done /\ done' = TRUE
               /\ hist' = Append(hist, [op |-> "verifyproof", ctx |-> ctx, n |-> n, proof |-> proof,
                                        res |-> VerifyProofRes(n, proof)])
               /\ UNCHANGED <<ctx, n, cert, proof>>

\* The context lives as long as the validators' keys: it verifies many proofs for many decisions.  A signature made for
\* decision d1 ("ok") or for decision d2 ("other") verifies for that decision only, whatever the context has verified before.
SignedFor(s) == IF s.what = "ok" THEN "d1" ELSE IF s.what = "other" THEN "d2" ELSE "none"
PartResFor(nn, idx, s, t) ==
  IF idx < 1 \/ idx > nn THEN "range"
  ELSE IF SignedFor(s) = t /\ s.who = idx THEN "ok"
  ELSE IF SignedFor(s) = t /\ s.who # 0 THEN "wrongindex" ELSE "notvalidator"
RECURSIVE ScanVecFor(_, _, _, _, _)
ScanVecFor(nn, p, i, valid, t) ==
  IF i > Len(p) THEN (IF valid <= (2 * nn) \div 3 THEN "few" ELSE "ok")
  ELSE IF p[i] = None THEN ScanVecFor(nn, p, i + 1, valid, t)
  ELSE IF PartResFor(nn, i, p[i], t) # "ok" THEN PartResFor(nn, i, p[i], t)
  ELSE ScanVecFor(nn, p, i + 1, valid + 1, t)
\* after a verification for d1, the SAME context is asked again about the SAME proof and its parts, for d1 or for d2
Reverify(t) == /\ done /\ Len(hist) = 1 /\ hist[1].op = "verifyproof"
               /\ hist' = Append(hist, [op |-> "reverify", ctx |-> ctx, n |-> n, target |-> t, proof |-> proof,
                                        res |-> ScanVecFor(n, proof, 1, 0, t),
                                        parts |-> [i \in 1..Len(proof) |->
                                                     IF proof[i] = None THEN "none" ELSE PartResFor(n, i, proof[i], t)]])
               /\ UNCHANGED <<ctx, n, cert, proof, done>>

\* BTPProofContext.NewProofPart(hash, wallet): a validator gets a part at its own index, anybody else an error (res 0)
NewPart(who) == /\ ~done /\ done' = TRUE
                /\ \A i \in 1..Len(proof) : proof[i] = None
                /\ hist' = Append(hist, [op |-> "newpart", ctx |-> ctx, n |-> n, who |-> who,
                                         res |-> IF who \in 1..n THEN who ELSE 0])
                /\ UNCHANGED <<ctx, n, cert, proof>>
\* NewProofFromBytes / NewProofPartFromBytes of bytes that are not an encoding of a proof / a part: an error, and
\* nothing to verify
DecodeGarbage(kind, defect) ==
                /\ ~done /\ done' = TRUE
                /\ \A i \in 1..Len(proof) : proof[i] = None
                /\ hist' = Append(hist, [op |-> "decode", ctx |-> ctx, n |-> n, kind |-> kind, defect |-> defect,
                                         res |-> "malformed"])
                /\ UNCHANGED <<ctx, n, cert, proof>>

\* NewCommitVoteSetFromBytes of bytes that are not an encoding of a vote list: no vote set, nothing to accept
DecodeGarbageList(defect) ==
                /\ ~done /\ done' = TRUE /\ cert = <<>>
                /\ hist' = Append(hist, [op |-> "decodelist", n |-> n, defect |-> defect, res |-> "malformed"])
                /\ UNCHANGED <<ctx, n, cert, proof>>

Next == \/ "list" \in Ops /\ \E s \in Sig(n) : AppendItem(s)
        \/ "list" \in Ops /\ VerifyList
        \/ "list" \in Ops /\ \E d \in {"trunc", "scalar", "baditem"} : DecodeGarbageList(d)
        \/ "vector" \in Ops /\ \E i \in 1..(n + MaxOver), s \in Sig(n) : AddPart(i, s)
        \/ "vector" \in Ops /\ \E i \in 0..(n + 1), s \in Sig(n) : VerifyPart(i, s)
        \/ "vector" \in Ops /\ VerifyProof
        \/ "vector" \in Ops /\ \E t \in {"d1", "d2"} : Reverify(t)
        \/ "vector" \in Ops /\ \E w \in 0..n : NewPart(w)
        \/ "vector" \in Ops /\ \E k \in {"proof", "part"}, d \in {"trunc", "scalar", "badsig"} : DecodeGarbage(k, d)
Spec == Init /\ [][Next]_vars

-----------------------------------------------------------------------------
(* Properties.  The statements of C05 and C29, independent of the loops above. *)
TypeOK == /\ n \in MinN..MaxN /\ cert \in Seq(Sig(n)) /\ Len(cert) <= n + MaxExtra
          /\ Len(proof) \in Widths(n) /\ \A i \in 1..Len(proof) : proof[i] \in Sig(n) \cup {None}

\* validators that really signed the target in a list
GoodSigners(c) == {c[i].who : i \in {j \in 1..Len(c) : c[j].what = "ok" /\ c[j].who # 0}}
ListStatement(nn, c) ==
  /\ \A i \in 1..Len(c) : c[i].what = "ok" /\ c[i].who \in 1..nn      \* nothing forged, foreign, wrong-target
  /\ \A i, j \in 1..Len(c) : i # j => c[i].who # c[j].who            \* no duplicated signer
  /\ (3 * Len(c) > 2 * nn \/ (nn = 0 /\ c = <<>>))                  \* more than two thirds; no voters: no votes
\* validators whose own signature of the decision sits at their own index
GoodSlots(nn, p) == {i \in (1..nn) \cap (1..Len(p)) : p[i] # None /\ p[i].what = "ok" /\ p[i].who = i}
ProofStatement(nn, p) ==
  /\ \A i \in 1..Len(p) : p[i] # None => i \in GoodSlots(nn, p)    \* also: nothing beyond the validator list
  /\ 3 * Cardinality(GoodSlots(nn, p)) > 2 * nn

Last == hist'[Len(hist')]
Stepped == hist' # hist
\* acceptance is exactly the statement ...
ListAcceptIffStatement ==
  [][(Stepped /\ Last.op = "verifylist") => ((Last.res = "ok") <=> ListStatement(Last.n, Last.cert))]_vars
ProofAcceptIffStatement ==
  [][(Stepped /\ Last.op = "verifyproof") => ((Last.res = "ok") <=> ProofStatement(Last.n, Last.proof))]_vars
PartAcceptIffOwnIndex ==
  [][(Stepped /\ Last.op = "verifypart") =>
       ((Last.res = "ok") <=> (Last.idx \in 1..Last.n /\ Last.part.what = "ok" /\ Last.part.who = Last.idx))]_vars
\* earlier verifications do not change later verdicts: asked again for d1 the answer is the same, and signatures that made a
\* proof of d1 never make a proof (or a part) of d2
SameAnswerAgain ==
  [][(Stepped /\ Last.op = "reverify" /\ Last.target = "d1") => Last.res = hist[1].res]_vars
ReplayRejected ==
  [][(Stepped /\ Last.op = "reverify" /\ Last.target = "d2" /\ hist[1].res = "ok") =>
        (Last.res # "ok" /\ \A i \in 1..Len(Last.proof) : Last.parts[i] # "ok")]_vars
\* a part made by the context carries its maker's own index, so it verifies there
NewPartOwnIndex ==
  [][(Stepped /\ Last.op = "newpart" /\ Last.res # 0) => PartRes(Last.n, Last.res, [who |-> Last.who, what |-> "ok"]) = "ok"]_vars
\* ... and an accepted certificate is backed by more than 2n/3 distinct validators that signed the target
ListQuorum ==
  [][(Stepped /\ Last.op = "verifylist" /\ Last.res = "ok" /\ Last.n > 0) => 3 * Cardinality(GoodSigners(Last.cert)) > 2 * Last.n]_vars
ProofQuorum ==
  [][(Stepped /\ Last.op = "verifyproof" /\ Last.res = "ok") =>
        3 * Cardinality(GoodSlots(Last.n, Last.proof)) > 2 * Last.n]_vars
\* the width of the proof is not evidence: a proof narrower than two thirds of the context is never accepted
NarrowRejected ==
  [][(Stepped /\ Last.op = "verifyproof" /\ 3 * Len(Last.proof) <= 2 * Last.n) => Last.res # "ok"]_vars
\* why the threshold matters: any two accepted signer sets share more than n/3 validators, i.e. at least
\* one correct validator when fewer than a third are faulty (checked on all subsets, constant level)
QuorumIntersection ==
  \A nn \in 1..MaxN : \A A, B \in SUBSET (1..nn) :
      (3 * Cardinality(A) > 2 * nn /\ 3 * Cardinality(B) > 2 * nn) => 3 * Cardinality(A \cap B) > nn
=============================================================================
