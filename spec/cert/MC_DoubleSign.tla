---- MODULE MC_DoubleSign ----
EXTENDS DoubleSign
\* the history does not influence behaviour: the properties are action properties on the last step
ViewNoHist == <<log, Len(hist)>>
SymmetricOnce == (hist = <<>>) => (Symmetric /\ UnsignedIrrelevant)
====
