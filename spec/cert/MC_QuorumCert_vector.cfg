SPECIFICATION Spec
CONSTANTS
  MaxN = 4
  Whats = {"ok", "other", "garbage"}
  MaxExtra = 0
  MaxOver = 1
  MinN = 1
  Ops = {"vector"}
VIEW ViewNoHist
INVARIANTS TypeOK
PROPERTIES ProofAcceptIffStatement PartAcceptIffOwnIndex ProofQuorum NarrowRejected NewPartOwnIndex SameAnswerAgain ReplayRejected
