SPECIFICATION Spec
CONSTANTS
  MaxN = 4
  Whats = {"ok", "block", "garbage"}
  MaxExtra = 1
  MaxOver = 0
  MinN = 0
  Ops = {"list"}
VIEW ViewNoHist
INVARIANTS TypeOK IntersectionOnce
PROPERTIES ListAcceptIffStatement ListQuorum
