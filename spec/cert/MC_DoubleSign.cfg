SPECIFICATION Spec
CONSTANTS
  Signers = {"s1", "s2"}
  Heights = {1}
  Rounds = {0, 1}
  Nids = {0, 1, 2}
  Bodies = {"x", "nil"}
  Auxes = {1, 2}
  Us = {0, 1}
  MaxOps = 3
  Ops = {"recv"}
VIEW ViewNoHist
INVARIANTS TypeOK SymmetricOnce
PROPERTIES SameSlot SameNetwork Differ LogFromInputs RepeatIsSilent
