SPECIFICATION Spec
CONSTANTS
  Signers = {"s1", "s2"}
  Heights = {1, 2}
  Rounds = {0, 1}
  Nids = {0, 1, 2}
  Bodies = {"x", "y", "nil"}
  Auxes = {1, 2}
  Us = {0, 1}
  MaxOps = 1
  Ops = {"recv", "check", "decode"}
INVARIANTS TypeOK
PROPERTIES SameSlot SameNetwork Differ LogFromInputs RepeatIsSilent GarbageIsNoEvidence
