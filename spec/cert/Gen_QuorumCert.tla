---- MODULE Gen_QuorumCert ----
(* Case generator for QuorumCert: the decision table of certificates.
   Family "table" = "canon" + "perm".  "canon": for every n in Ns and every subset S of the validators the list of the valid
   signatures of S in index order, with at most MaxAnom anomalous items inserted at the front, in
   the middle or at the end (list form) / with at most MaxAnom slots overwritten by anomalous parts
   (vector form).  Family "perm" (list form): every ordering of the valid signatures of S, plus
   one anomaly in front or at the end.  Family "walk": random construction sequences of the
   spec's own actions (-simulate).
   Every behaviour ends with a verification step that carries the predicted verdict; it is printed
   by Done, which TLC evaluates once per explored end state. *)
EXTENDS QuorumCert, Json
CONSTANTS Ns, MaxAnom, Family, Form,
          Ns2,      \* sizes that get MaxAnom + 1 anomalies (family "table")
          NsPerm    \* sizes whose orderings are enumerated (family "table")

Ok(i) == [who |-> i, what |-> "ok"]
RECURSIVE Sorted(_, _, _)
Sorted(S, i, nn) == IF i > nn THEN <<>> ELSE (IF i \in S THEN <<Ok(i)>> ELSE <<>>) \o Sorted(S, i + 1, nn)
InsAfter(s, p, x) == SubSeq(s, 1, p) \o <<x>> \o SubSeq(s, p + 1, Len(s))      \* after p items
Positions(s) == {0, Len(s) \div 2, Len(s)}

\* anomalous items for a list over validators 1..nn whose valid part is signed by S:
\* a second signature of a member of S, a non-validator, a validator that signed something else
Anomalies(nn, S) == {Ok(j) : j \in S} \cup {Ok(0)}
                    \cup [who : {1, nn}, what : Whats \ {"ok"}] \cup [who : {0}, what : {"forged"} \cap Whats]
RECURSIVE WithAnomalies(_, _, _, _)
WithAnomalies(nn, S, cs, k) ==
  IF k = 0 THEN cs
  ELSE cs \cup WithAnomalies(nn, S, {InsAfter(c, p, a) : c \in cs, p \in UNION {Positions(c) : c \in cs}, a \in Anomalies(nn, S)}
                                     \cap Seq(Sig(nn)), k - 1)
CanonLists(nn) == UNION {WithAnomalies(nn, S, {Sorted(S, 1, nn)}, IF nn \in Ns2 THEN MaxAnom + 1 ELSE MaxAnom) : S \in SUBSET (1..nn)}
Perms(S) == {p \in [1..Cardinality(S) -> S] : \A i, j \in 1..Cardinality(S) : i # j => p[i] # p[j]}
PermLists(nn) == UNION {LET base == {[i \in 1..Cardinality(S) |-> Ok(p[i])] : p \in Perms(S)} IN
                        base \cup {<<a>> \o c : c \in base, a \in Anomalies(nn, S)}
                             \cup {c \o <<a>> : c \in base, a \in Anomalies(nn, S)}
                        : S \in SUBSET (1..nn)}

\* vector form: slot i holds the own signature of validator i for i in S; anomalous parts for a slot
SlotAnomalies(nn, i) == {Ok((i % nn) + 1), Ok(0)} \cup [who : {i, 0}, what : Whats \ {"ok"}]
BaseVec(nn, S) == [i \in 1..nn |-> IF i \in S THEN Ok(i) ELSE None]
RECURSIVE VecWith(_, _, _)
VecWith(nn, ps, k) ==
  IF k = 0 THEN ps
  ELSE ps \cup VecWith(nn, UNION {{[p EXCEPT ![i] = a] : i \in (1..Len(p)) \cap (1..nn), a \in UNION {SlotAnomalies(nn, j) : j \in 1..nn}} : p \in ps}, k - 1)
\* (a part whose signer is another validator j is the "wrong index" case; for nn = 1 it degenerates to a valid part)
\* proofs decoded from bytes with a width other than the number of validators: every subset of own-index
\* signatures in a vector of 0..nn-1 slots (with anomalies for the sizes in Ns2), and in a vector of nn+1 slots
\* whose extra slot is empty or holds a signature of a validator or of a stranger
ShortBase(nn) == UNION {{[i \in 1..w |-> IF i \in S THEN Ok(i) ELSE None] : S \in SUBSET (1..w)} : w \in 0..(nn - 1)}
ShortVecs(nn) == IF nn \in Ns2 THEN VecWith(nn, ShortBase(nn), MaxAnom) ELSE ShortBase(nn)
LongVecs(nn) == {[i \in 1..(nn + 1) |-> IF i <= nn THEN (IF i \in S THEN Ok(i) ELSE None) ELSE e] :
                     S \in SUBSET (1..nn), e \in {None, Ok(1), Ok(0)}}
CanonVecs(nn) == ShortVecs(nn) \cup LongVecs(nn) \cup UNION {VecWith(nn, {BaseVec(nn, S)}, IF nn \in Ns2 THEN MaxAnom + 1 ELSE MaxAnom) : S \in SUBSET (1..nn)}

GenInit ==
  /\ n \in Ns /\ done = FALSE /\ hist = <<>>
  \* the table is decided by contexts restored from bytes (what a node verifies with); single parts, part making,
  \* garbage and the random constructions run on both representations
  /\ ctx \in (IF Form = "list" THEN {"new"} ELSE IF Family = "table" THEN {"restored"} ELSE {"new", "restored"})
  /\ IF Family = "walk" THEN cert = <<>> /\ proof \in {[i \in 1..w |-> None] : w \in (IF Form = "vector" THEN Widths(n) ELSE {n})}
     ELSE IF Form = "list"
          THEN /\ proof = [i \in 1..n |-> None]
               /\ cert \in CanonLists(n) \cup (IF n \in NsPerm THEN PermLists(n) ELSE {})
          ELSE cert = <<>> /\ proof \in CanonVecs(n)
\* a vector-form table case is a history on one context: the verification for d1, then the same proof presented for d2
Steps == IF Form = "vector" /\ Family = "table" THEN 2 ELSE 1
Done == /\ done /\ Len(hist) = Steps
        /\ PrintT(<<"B", ToJson(hist)>>)
        /\ hist' = Append(hist, [op |-> "done"]) /\ UNCHANGED <<ctx, n, cert, proof, done>>
GenNext == \/ Family = "walk" /\ Form = "list" /\ \E s \in Sig(n) : AppendItem(s)
           \/ Family = "walk" /\ Form = "vector" /\ \E i \in 1..(n + MaxOver), s \in Sig(n) : AddPart(i, s)
           \/ Form = "list" /\ VerifyList
           \/ Form = "list" /\ Family = "table" /\ \E d \in {"trunc", "scalar", "baditem"} : DecodeGarbageList(d)
           \/ Form = "vector" /\ VerifyProof
           \/ Form = "vector" /\ Family = "table" /\ Reverify("d2")
           \/ Form = "part" /\ \E i \in 0..(n + 1), s \in Sig(n) : VerifyPart(i, s)
           \/ Form = "part" /\ \E w \in 0..n : NewPart(w)
           \/ Form = "part" /\ \E k \in {"proof", "part"}, d \in {"trunc", "scalar", "badsig"} : DecodeGarbage(k, d)
           \/ Done
GenSpec == GenInit /\ [][GenNext]_vars
====
