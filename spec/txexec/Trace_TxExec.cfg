SPECIFICATION TraceSpec
CONSTANTS
  Users = {"a", "b", "c"}
  Contracts = {"x", "y", "s", "e"}
  Hangers = {"z"}
  HxTwins = {"xh"}
  CxTwins = {"ac"}
  Ghosts = {"g"}
  Keys = {"k1", "k2"}
  Prices = {0, 1, 2}
  DefaultCost = 2
  InputCost = 0
  CallCost = 1
  InvokeLimit = 268435456
  MidPrice = TRUE
  MaxTx = 3
  MaxOps = 0
  FundVals = {}
  InitWorlds <- NoWorlds
  TxSpace <- NoSpace
