---------------------------- MODULE TxExec ----------------------------
(* Transaction execution and fee accounting of one chain (C15, C16).

   Transcribed from
     service/transaction/transactionhandler.go  Execute / DoExecute / checkBalance
     service/contract/callcontext.go            Call / pushFrame / popFrame (snapshot on push,
                                                merge logs+messages or Reset(snapshot) on pop)
     service/contract/callframe.go              deductSteps (a frame that runs out of steps has
                                                used exactly its limit)
     service/contract/transferhandler.go        DoExecuteSync (debit, credit, ICXTransfer event
                                                when the sender is a contract)
     service/contract/callhandler.go            TransferAndCallHandler (transfer first, then call;
                                                call step charged when the handler fails early)
     service/transition.go                      doExecute (gathered fee goes to the treasury at
                                                the end of the block)

   World = balances of the accounts + storage of the contracts.  One action per public call:
   ExecTx = transactionHandler.Execute for one transaction, EndBlock = the end of
   transition.doExecute, SetPrice = the governance changes the step price (between blocks, or
   between two transactions of a block: every transaction is charged at the price current when
   it executes), Fund = environment between blocks.

   Contracts are scripted: a program is a sequence of operations chosen by the specification
       set k v     store[self][k] := v
       ev          emit an event log            msg   emit a BTP message
       burn n      consume n steps (fails with out-of-step when the frame limit is exceeded)
       take n      move n from the transaction origin to this contract (what staking-like
                   system contracts do); fails when the origin cannot afford it
       xfer a n    inter-call transfer of n to the user a   (c = TRUE: a failure is caught)
       call a n    inter-call of contract a with value n and the sub-program `sub`
       revert      fail
   A call of a contract in Hangers never returns: callContext.waitResult gives up when the chain's
   transaction timeout expires, cleanUpFrames discards the waiting frames, and the Timeout status
   travels up through every calling frame (handleResult -> cleanUpFrames: each of them is reset to
   its snapshot, no logs are merged, catch flags do not apply) to transactionHandler.DoExecute,
   which then consumes all remaining steps.  The transaction fails with everything rolled back
   except the fee for the whole step limit.
   The steps a real implementation charges are implementation-defined; this model fixes them
   through the chain configuration constants (DefaultCost, InputCost, CallCost) so that it can
   predict outcomes (`exact` mode).  For validating recorded executions the same interpreter
   runs in `bound` mode: the decisions that depend on step accounting (did a step charge fit?)
   are taken from the record, and stepUsed / stepPrice / status come from the receipt. *)
EXTENDS Integers, Sequences, FiniteSets, TLC

CONSTANTS Users,          \* externally owned accounts (strings)
          Contracts,      \* scripted contracts (strings)
          Ghosts,         \* contract addresses without code
          HxTwins,        \* account-form (hx) addresses whose 20-byte id is the id of a contract account
          CxTwins,        \* contract-form (cx) addresses whose id is the id of a user account
                          \* (twins are addresses, not accounts: they have no balance of their own)
          Hangers,        \* contracts whose (asynchronous) handler never answers: a call to them ends
                          \* with the transaction timeout
          Keys,           \* storage keys
          Prices,         \* step prices the governance may set
          DefaultCost, InputCost, CallCost,   \* step costs of the chain configuration
          InvokeLimit,    \* the chain's maximum step limit of a transaction
          MaxTx,          \* transactions per block
          MaxOps          \* bound of a run (length of the history)

Treasury == "t"
Payees == Users \cup {Treasury}                 \* accounts a plain transfer may credit
WrongForm == HxTwins \cup CxTwins
Accts == Users \cup Contracts \cup Ghosts \cup Hangers \cup {Treasury}

VARIABLES w,       \* world: [bal |-> [Accts -> Int], st |-> [Contracts -> [Keys -> Int]]]
          price,   \* current step price
          fees,    \* fees gathered in the current block (not yet in the treasury)
          ntx,     \* transactions executed in the current block
          total,   \* total supply (changes only by Fund)
          hist     \* history of calls with predicted results (generator / properties)
vars == <<w, price, fees, ntx, total, hist>>

Max(a, b) == IF a > b THEN a ELSE b
Min(a, b) == IF a < b THEN a ELSE b

RECURSIVE SumBal(_, _)
SumBal(b, S) == IF S = {} THEN 0 ELSE LET a == CHOOSE x \in S : TRUE IN b[a] + SumBal(b, S \ {a})
Supply(ww) == SumBal(ww.bal, Accts)

----------------------------------------------------------------------------
(* Operations of scripted contracts. Uniform record shape so that programs serialize to JSON. *)
Op(o, a, n, sub, c) == [o |-> o, a |-> a, n |-> n, sub |-> sub, c |-> c]
OSet(k, v)   == Op("set", k, v, <<>>, FALSE)
OEv          == Op("ev", "", 0, <<>>, FALSE)
OMsg         == Op("msg", "", 0, <<>>, FALSE)
OBurn(n)     == Op("burn", "", n, <<>>, FALSE)
OTake(n)     == Op("take", "", n, <<>>, FALSE)
OXfer(a, n, c) == Op("xfer", a, n, <<>>, c)
OCall(a, n, sub, c) == Op("call", a, n, sub, c)
ORevert      == Op("revert", "", 0, <<>>, FALSE)

(* Frame state threaded through the interpreter.
     bal, st   world as seen by the running frame
     logs,msgs event logs / BTP messages collected by the running frame
     su, lim   steps used by / limit of the running frame (exact mode)
     exact     TRUE: decide step charges by accounting; FALSE: take them from orc
     orc       recorded decisions still to be consumed (bound mode)
     dec       decisions taken so far (both modes; the prediction in exact mode)
     bad       bound mode ran out of recorded decisions (control flow differs)
     tmo       a call inside timed out: the Timeout status is on its way up *)
Decide(f, n) == IF f.exact THEN f.su + n <= f.lim
                ELSE IF f.orc = <<>> THEN FALSE ELSE Head(f.orc)
\* callframe.deductSteps: over the limit => used := limit, failure
Charge(f, n) ==
  LET d == Decide(f, n) IN
  [ok |-> d,
   f  |-> [f EXCEPT !.su  = IF d THEN @ + n ELSE f.lim,
                    !.orc = IF f.exact \/ @ = <<>> THEN @ ELSE Tail(@),
                    !.dec = Append(@, d),
                    !.bad = @ \/ (~f.exact /\ f.orc = <<>>)]]
\* a charge whose outcome the caller cannot observe separately (the handler fails anyway)
ChargeSilently(f, n) == [f EXCEPT !.su = Min(f.lim, @ + n)]

\* callcontext.pushFrame: the new frame starts with the available steps and no logs
Push(f) == [f EXCEPT !.logs = 0, !.msgs = 0, !.su = 0, !.lim = f.lim - f.su]
\* callcontext.popFrame + the caller's DeductSteps(used)
Pop(f, c, ok) ==
  [f EXCEPT !.bal  = IF ok THEN c.bal ELSE f.bal,          \* Reset(frame.snapshot) on failure
            !.st   = IF ok THEN c.st ELSE f.st,
            !.logs = IF ok THEN f.logs + c.logs ELSE f.logs, \* applyFrameLogsOf on success
            !.msgs = IF ok THEN f.msgs + c.msgs ELSE f.msgs, \* applyBTPMessagesOf on success
            !.su   = Min(f.lim, f.su + c.su),
            !.orc  = c.orc, !.dec = c.dec, !.bad = c.bad, !.tmo = c.tmo]

Move(f, from, to, n) == [f EXCEPT !.bal = [@ EXCEPT ![from] = @ - n, ![to] = f.bal[to] + IF from = to THEN 0 ELSE n]]
\* TransferHandler.DoExecuteSync inside frame f; result [ok, f]
\*  - debit happens before the recipient's account kind is checked (ghost => failure after debit)
\*  - a contract sending a positive value emits the ICXTransfer event log
Transfer(f, from, to, n) ==
  IF f.bal[from] < n THEN [ok |-> FALSE, f |-> f]
  \* recipient of the wrong kind (cx address without contract account, hx address of a contract
  \* account, cx address of a user account): "InvalidAddress" after the sender was debited
  ELSE IF to \in Ghosts \cup WrongForm THEN [ok |-> FALSE, f |-> [f EXCEPT !.bal[from] = @ - n]]
  ELSE LET g == IF from = to THEN f ELSE [f EXCEPT !.bal = [@ EXCEPT ![from] = @ - n, ![to] = @ + n]]
       IN [ok |-> TRUE, f |-> IF from \in Contracts /\ n > 0 THEN [g EXCEPT !.logs = @ + 1] ELSE g]

RECURSIVE RunOps(_, _, _, _), Invoke(_, _, _, _, _, _, _)
(* Handler of a call `from -> to` carrying `val` (TransferAndCallHandler / CallHandler) run in the
   already pushed frame f.  `pay`: the handler starts with the transfer (value > 0 or a plain
   transfer to a contract).  Result [ok, f]. *)
Invoke(f, from, to, val, prog, origin, pay) ==
  LET t == IF pay THEN Transfer(f, from, to, val) ELSE [ok |-> TRUE, f |-> f] IN
  IF ~t.ok \/ to \in Ghosts \cup CxTwins
  THEN \* the handler fails before the contract runs: the call step is charged by the handler
       [ok |-> FALSE, f |-> ChargeSilently(t.f, CallCost)]
  ELSE LET c == Charge(t.f, CallCost) IN          \* the contract's own entry charge
       IF ~c.ok THEN [ok |-> FALSE, f |-> c.f]
       ELSE IF to \in Hangers THEN [ok |-> FALSE, f |-> [c.f EXCEPT !.tmo = TRUE]]   \* never answers
       ELSE RunOps(prog, c.f, to, origin)

RunOps(ops, f, self, origin) ==
  IF ops = <<>> THEN [ok |-> TRUE, f |-> f]
  ELSE LET op == Head(ops)  rest == Tail(ops) IN
    CASE op.o = "set" -> RunOps(rest, [f EXCEPT !.st[self][op.a] = op.n], self, origin)
      [] op.o = "ev"  -> RunOps(rest, [f EXCEPT !.logs = @ + 1], self, origin)
      [] op.o = "msg" -> RunOps(rest, [f EXCEPT !.msgs = @ + 1], self, origin)
      [] op.o = "revert" -> [ok |-> FALSE, f |-> f]
      [] op.o = "burn" -> (LET c == Charge(f, op.n) IN
                           IF c.ok THEN RunOps(rest, c.f, self, origin) ELSE [ok |-> FALSE, f |-> c.f])
      [] op.o = "take" -> (IF f.bal[origin] >= op.n
                           THEN RunOps(rest, Move(f, origin, self, op.n), self, origin)
                           ELSE [ok |-> FALSE, f |-> f])
      [] op.o = "xfer" -> \* inter-call of the real TransferHandler: call step, then the transfer
           (LET p == Push(f)
                c == Charge(p, CallCost)
                r == IF c.ok THEN Transfer(c.f, self, op.a, op.n) ELSE [ok |-> FALSE, f |-> c.f]
                g == Pop(f, r.f, r.ok)
            IN IF r.ok \/ op.c THEN RunOps(rest, g, self, origin) ELSE [ok |-> FALSE, f |-> g])
      [] op.o = "call" ->
           (LET r == Invoke(Push(f), self, op.a, op.n, op.sub, origin, op.n > 0)
                g == Pop(f, r.f, r.ok)
            IN IF (r.ok \/ op.c) /\ ~g.tmo THEN RunOps(rest, g, self, origin) ELSE [ok |-> FALSE, f |-> g])

----------------------------------------------------------------------------
(* Transactions.  kind: "transfer" (no data), "message" (data, to a user), "call" (to a contract
   with a program).  dlen = bytes of the data field counted for the input step cost. *)
Tx(from, to, value, limit, kind, dlen, prog) ==
  [from |-> from, to |-> to, value |-> value, limit |-> limit, kind |-> kind, dlen |-> dlen, prog |-> prog]

Frame0(ww, lim, exact, orc) ==
  [bal |-> ww.bal, st |-> ww.st, logs |-> 0, msgs |-> 0, su |-> 0, lim |-> lim,
   exact |-> exact, orc |-> orc, dec |-> <<>>, bad |-> FALSE, tmo |-> FALSE]

\* the handler of the first frame (cm.GetHandler): users get the TransferHandler, contracts
\* TransferAndCallHandler (plain transfer, or call with value) or CallHandler
TopHandler(f, tx) ==
  IF tx.to \in Payees \cup HxTwins THEN Transfer(f, tx.from, tx.to, tx.value)   \* account-form address: TransferHandler
  ELSE Invoke(f, tx.from, tx.to, tx.value, tx.prog, tx.from, tx.kind # "call" \/ tx.value > 0)

\* transactionHandler.checkBalance
Affordable(ww, p, tx) == ww.bal[tx.from] >= p * tx.limit + tx.value

(* transactionHandler.Execute in exact mode.  Result
     [w, ok, code, su, price, fee, logs, msgs, entered, orc]  *)
ExecExact(ww, p, tx) ==
  LET b0 == Frame0(ww, Min(tx.limit, InvokeLimit), TRUE, <<>>)   \* limit capped by the chain's invoke limit
      pre == Affordable(ww, p, tx)                                 \* ... but not in checkBalance
      c1 == Charge(b0, DefaultCost)
      c2 == IF c1.ok THEN Charge(c1.f, InputCost * tx.dlen) ELSE c1
      entered == pre /\ c1.ok /\ c2.ok
      r == IF entered THEN TopHandler(Push(c2.f), tx) ELSE [ok |-> FALSE, f |-> c2.f]
      b == IF ~pre THEN b0 ELSE IF entered THEN Pop(c2.f, r.f, r.ok) ELSE c2.f
      ok1 == entered /\ r.ok
      \* DoExecute: "it consumes all steps if it meets timeout"
      su == Max(IF b.tmo THEN b.lim ELSE b.su, DefaultCost)   \* "sustain minimum"
      fee == su * p
      balAfter == b.bal[tx.from]
      \* the charge loop
      rollback == ok1 /\ balAfter < fee            \* success but the fee is not affordable
      ok2 == ok1 /\ ~rollback
      bal2 == IF rollback THEN ww.bal[tx.from] ELSE balAfter
      free == ~ok2 /\ bal2 < fee                   \* failed and still not affordable: price 0
      p2 == IF free THEN 0 ELSE p
      fee2 == su * p2
      wOut == IF ok2 THEN [bal |-> b.bal, st |-> b.st] ELSE ww
  IN [w |-> [wOut EXCEPT !.bal[tx.from] = @ - fee2],
      ok |-> ok2,
      code |-> IF ok2 THEN "ok" ELSE IF ~pre \/ rollback THEN "balance"
               ELSE IF ~entered THEN "step" ELSE IF b.tmo THEN "timeout" ELSE "fail",
      su |-> su, price |-> p2, fee |-> fee2,
      logs |-> IF ok2 THEN b.logs ELSE 0, msgs |-> IF ok2 THEN b.msgs ELSE 0,
      rb |-> rollback, fr |-> free,            \* which branch of the charge loop was taken
      \* entered: the code of the called contract was reached (its entry charge was decided)
      entered |-> entered /\ Len(b.dec) > 2,
      orc |-> IF entered THEN SubSeq(b.dec, 3, Len(b.dec)) ELSE <<>>]

(* The same call with the implementation-defined parts bound from an observation
     obs = [ok, su, price, entered, orc]
   (receipt status / stepUsed / stepPrice, whether the code of the called contract was reached,
   and the recorded step-charge decisions inside the frames).  A transaction to a contract whose
   code was not reached cannot have succeeded; transfers to users have no such observation.
   Result [w, logs, msgs, frameOk, bad]. *)
ExecBound(ww, tx, obs) ==
  LET b0 == Frame0(ww, 0, FALSE, obs.orc)
      r == IF obs.entered \/ tx.to \notin Contracts THEN TopHandler(b0, tx) ELSE [ok |-> FALSE, f |-> b0]
      keep == obs.ok /\ r.ok
      wOut == IF keep THEN [bal |-> r.f.bal, st |-> r.f.st] ELSE ww
  IN [w |-> [wOut EXCEPT !.bal[tx.from] = @ - obs.su * obs.price],
      logs |-> IF keep THEN r.f.logs ELSE 0,
      msgs |-> IF keep THEN r.f.msgs ELSE 0,
      frameOk |-> r.ok,
      bad |-> r.f.bad \/ r.f.orc # <<>>]

ObsOf(res) == [ok |-> res.ok, su |-> res.su, price |-> res.price, entered |-> res.entered, orc |-> res.orc]

----------------------------------------------------------------------------
(* Verdict-bearing predicates over one executed transaction (pre-world, chain step price,
   transaction, observed result rc, post-world).  rc = [ok, su, price, logs, msgs, entered, orc,
   onlypayer].  The same definitions monitor this model (variable `viol`) and are evaluated by
   Trace_TxExec on recorded executions of the real code. *)
StepBounds(tx, su) == DefaultCost <= su /\ su <= Max(tx.limit, DefaultCost)
PriceReported(p, rprice, ok) == rprice = p \/ (rprice = 0 /\ ~ok)
\* C16: a failed transaction changes nothing but the payer's balance ...
FailedOnlyPayer(pre, tx, ok, post) ==
  ~ok => /\ post = [pre EXCEPT !.bal[tx.from] = post.bal[tx.from]]
         /\ post.bal[tx.from] <= pre.bal[tx.from]
\* C15: ... by exactly the reported fee
FailedFeeExact(pre, tx, ok, fee, post) ==
  ~ok => post.bal[tx.from] = pre.bal[tx.from] - fee
NoOutputOnFailure(ok, logs, msgs) == ~ok => (logs = 0 /\ msgs = 0)
\* plain transfer / message to a user: sender pays fee + value, recipient gets the value
PlainTransfer(pre, tx, ok, fee, post) ==
  (ok /\ tx.to \in Payees) =>
     post = [pre EXCEPT !.bal = IF tx.from = tx.to
                                 THEN [@ EXCEPT ![tx.from] = @ - fee]
                                 ELSE [@ EXCEPT ![tx.from] = @ - fee - tx.value, ![tx.to] = @ + tx.value]]
\* every executed transaction: supply shrinks by exactly the fee (held back for the treasury)
Conserved(pre, fee, post) == Supply(post) = Supply(pre) - fee
NonNegative(ww) == \A a \in Accts : ww.bal[a] >= 0

TxPredicates == {"StepBounds", "PriceReported", "FailedOnlyPayer", "FailedFeeExact", "OnlyPayerHash",
                 "NoOutputOnFailure", "PlainTransfer", "Conserved", "NonNegative", "StatusConsistent",
                 "SenderCharged", "FrameEffects", "FrameOutput", "ControlFlow"}
\* names of the predicates that fail for one executed transaction
TxFails(pre, p, tx, rc, post) ==
  LET fee == rc.su * rc.price
      e == ExecBound(pre, tx, ObsOf(rc)) IN
  {n \in TxPredicates :
     CASE n = "StepBounds" -> ~StepBounds(tx, rc.su)
       [] n = "PriceReported" -> ~PriceReported(p, rc.price, rc.ok)
       [] n = "FailedOnlyPayer" -> ~FailedOnlyPayer(pre, tx, rc.ok, post)
       [] n = "FailedFeeExact" -> ~FailedFeeExact(pre, tx, rc.ok, fee, post)
       \* the same on the complete real state: its hash equals the hash of the pre-state in which
       \* only the payer's balance was replaced (observed by the harness; TRUE in the model)
       [] n = "OnlyPayerHash" -> ~rc.ok /\ ~rc.onlypayer
       [] n = "NoOutputOnFailure" -> ~NoOutputOnFailure(rc.ok, rc.logs, rc.msgs)
       [] n = "PlainTransfer" -> ~PlainTransfer(pre, tx, rc.ok, fee, post)
       [] n = "Conserved" -> ~Conserved(pre, fee, post)
       [] n = "NonNegative" -> ~NonNegative(post)
       \* a transaction whose first frame failed must be reported as failed
       [] n = "StatusConsistent" -> rc.ok /\ ~e.frameOk
       \* successful call: the sender pays fee + value (+ what the contracts took or returned)
       [] n = "SenderCharged" -> rc.ok /\ e.frameOk /\ post.bal[tx.from] # e.w.bal[tx.from]
       \* successful transaction: effects of failed frames are discarded, of successful ones kept
       [] n = "FrameEffects" -> rc.ok /\ e.frameOk /\ post # e.w
       [] n = "FrameOutput" -> rc.ok /\ e.frameOk /\ (rc.logs # e.logs \/ rc.msgs # e.msgs)
       \* the recorded step-charge decisions do not fit the program (different control flow)
       [] n = "ControlFlow" -> rc.ok /\ e.bad}

\* end of a block: the treasury receives exactly the fees charged in the block, nothing else
\* changes, the total supply is what it was before the block
EndFails(pre, gathered, supply, post) ==
  {n \in {"TreasuryGetsFees", "TotalConserved", "NonNegative"} :
     CASE n = "TreasuryGetsFees" -> post # [pre EXCEPT !.bal[Treasury] = @ + gathered]
       [] n = "TotalConserved" -> Supply(post) # supply
       [] n = "NonNegative" -> ~NonNegative(post)}

----------------------------------------------------------------------------
CONSTANTS InitWorlds,     \* set of initial worlds
          TxSpace(_),     \* transactions that may be submitted in a world
          FundVals,       \* balances the environment may set
          MidPrice        \* the governance may change the step price between two transactions of a block

VARIABLE viol             \* monitor: predicates falsified by the last step (must stay empty)
mvars == <<vars, viol>>

Zero == [bal |-> [a \in Accts |-> 0], st |-> [c \in Contracts |-> [k \in Keys |-> 0]]]

Log(r) == hist' = Append(hist, r)

Init == /\ w \in InitWorlds /\ price \in Prices
        /\ fees = 0 /\ ntx = 0 /\ total = Supply(w) /\ viol = {}
        /\ hist = <<[op |-> "init", price |-> price, w |-> w]>>

ExecTx(tx) ==
  \E r \in {ExecExact(w, price, tx)} :     \* (a bound variable is evaluated once by TLC)
  /\ w' = r.w /\ fees' = fees + r.fee /\ ntx' = ntx + 1
  /\ UNCHANGED <<price, total>>
  /\ viol' = TxFails(w, price, tx, r @@ [onlypayer |-> TRUE], r.w)
              \cup (IF r.fee = r.su * r.price THEN {} ELSE {"FeeReported"})
  /\ Log([op |-> "tx", tx |-> tx, res |-> [k \in DOMAIN r \ {"w"} |-> r[k]], w |-> r.w])

\* transition.doExecute: "save gathered fee to treasury"
EndBlock ==
  /\ w' = [w EXCEPT !.bal[Treasury] = @ + fees]
  /\ fees' = 0 /\ ntx' = 0 /\ UNCHANGED <<price, total>>
  /\ viol' = EndFails(w, fees, total, w')
  /\ Log([op |-> "end", w |-> w'])

SetPrice(p) ==
  /\ price' = p /\ viol' = {} /\ UNCHANGED <<w, fees, ntx, total>>
  /\ Log([op |-> "price", price |-> p])

\* environment: an account is funded / drained outside of transaction execution
Fund(a, n) ==
  /\ w' = [w EXCEPT !.bal[a] = n]
  /\ total' = total - w.bal[a] + n /\ viol' = {} /\ UNCHANGED <<price, fees, ntx>>
  /\ Log([op |-> "fund", a |-> a, n |-> n, w |-> w'])

Can == Len(hist) < MaxOps
Next == \/ \E tx \in TxSpace(w) : Can /\ ntx < MaxTx /\ ExecTx(tx)
        \/ Can /\ ntx > 0 /\ EndBlock
        \/ \E p \in Prices : Can /\ (ntx = 0 \/ MidPrice) /\ p # price /\ SetPrice(p)
        \/ \E a \in Users, n \in FundVals : Can /\ ntx = 0 /\ n # w.bal[a] /\ Fund(a, n)
Spec == Init /\ [][Next]_mvars

----------------------------------------------------------------------------
(* Properties *)
TypeOK == /\ \A a \in Accts : w.bal[a] \in Int
          /\ fees >= 0 /\ ntx \in 0..MaxTx
\* C15: no balance ever becomes negative; the sum of all balances is unchanged
NoNegative == NonNegative(w)
TotalConserved == Supply(w) + fees = total
\* C15 balance equations, C16, and "binding the model's own outcome reproduces the model" (the
\* trace spec accepts every behaviour of this specification) on every executed transaction;
\* the treasury equation on every block end
NoViolation == viol = {}
=============================================================================
