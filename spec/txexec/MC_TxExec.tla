---- MODULE MC_TxExec ----
(* Exhaustive configuration: every block history of <= MaxOps calls over the catalogue. *)
EXTENDS TxCatalog
CONSTANTS MCFrom, MCBals, MCValues, MCExtras, MCCBals,
          MCShift   \* step limit = base cost + extra - MCShift (cfg files cannot hold negative numbers)
\* the history does not influence behaviour
ViewNoHist == <<w, price, fees, ntx, total, viol, Len(hist)>>
MCInit == {[Zero EXCEPT !.bal = [a \in Accts |-> IF a \in MCFrom THEN ub[a]
                                                 ELSE IF a \in Contracts THEN cb ELSE 0]]
             : ub \in [MCFrom -> MCBals], cb \in MCCBals}
MCTxSpace(ww) == {t \in {Mk(f, sh, v, Base(sh) + e - MCShift) : f \in MCFrom, sh \in Shapes, v \in MCValues, e \in MCExtras} :
                    t.to \in NoValue => t.value = 0}
====
