---- MODULE Sim_TxExec ----
(* Generator (random walks).  The choice of a transaction is staged (sender and shape, then the
   value, then the step limit) so that a walk step has few successors; value and limit choices
   are taken around the boundaries of the current world (LimitChoices / ValueChoices).
   Only the last stage is a step of TxExec (ExecTx); the others only fill `pend`. *)
EXTENDS TxCatalog, Json
CONSTANTS Depth, SimBals, SimCBals
VARIABLE pend
None == [stage |-> 0]
SimInitWorlds == {[Zero EXCEPT !.bal = [a \in Accts |-> IF a \in Users THEN ub[a]
                                                        ELSE IF a \in Contracts THEN cb[a] ELSE 0]]
                    : ub \in [Users -> SimBals], cb \in [Contracts -> SimCBals]}
NoSpace(ww) == {}
SimInit == Init /\ pend = None
Idle == pend.stage = 0
LastOp == hist[Len(hist)].op     \* keeps walks from wandering through environment steps
PickShape == /\ Idle /\ Can /\ ntx < MaxTx
             /\ \E f \in Users, sh \in Shapes : pend' = [stage |-> 1, from |-> f, sh |-> sh]
             /\ UNCHANGED mvars
PickValue == /\ pend.stage = 1
             /\ \E v \in ValueChoicesFor(w, pend.from, pend.sh.to) : pend' = [pend EXCEPT !.stage = 2] @@ [value |-> v]
             /\ UNCHANGED mvars
Fire == /\ pend.stage = 2
        /\ \E l \in LimitChoices(w, price, pend.from, pend.sh, pend.value) :
              ExecTx(Mk(pend.from, pend.sh, pend.value, l))
        /\ pend' = None
SimNext == \/ PickShape \/ PickValue \/ Fire
           \/ (Idle /\ Can /\ ntx > 0 /\ EndBlock /\ UNCHANGED pend)
           \/ (\E p \in Prices : Idle /\ Can /\ LastOp \in {"init", "end", "fund"} \cup (IF MidPrice THEN {"tx"} ELSE {}) /\ p # price
                                  /\ SetPrice(p) /\ UNCHANGED pend)
           \/ (\E a \in Users, n \in FundVals : Idle /\ Can /\ ntx = 0 /\ LastOp \in {"init", "end", "price"}
                                  /\ n # w.bal[a] /\ Fund(a, n) /\ UNCHANGED pend)
SimSpec == SimInit /\ [][SimNext]_<<mvars, pend>>
Emit == (Len(hist) = Depth /\ Idle) => PrintT(<<"B", ToJson(hist)>>)
====
