---------------------------- MODULE TxCatalog ----------------------------
(* Concrete accounts, program catalogue and transaction spaces shared by the exhaustive
   configuration (MC_TxExec), the generators (Gen_TxExec, Sim_TxExec) and the trace spec. *)
EXTENDS TxExec

CONSTANTS SyncContracts,  \* contracts whose handler is synchronous (harness: a SyncContractHandler); they and
                          \* the Hangers are only called without value
          EEContracts,    \* contracts whose handler is asynchronous in the way of an execution engine: it
                          \* answers later, asks for inter-calls by callContext.OnCall and gets their
                          \* results by SendResult (harness: an AsyncContractHandler double); no value
          WithMsg,        \* programs may emit BTP messages (needs an open BTP network in the harness)
          MsgLen, CallLen \* bytes of the data field of message / call transactions (harness encoding)

K1 == "k1"
K2 == "k2"
Out(c) == IF WithMsg THEN OMsg ELSE OEv
Hang(c) == OCall("z", 0, <<>>, c)              \* "z" \in Hangers: the call times out
Sy == "s"                                      \* the synchronous contract
Ee == "e"                                      \* the execution-engine style contract
\* programs that end in a timeout: directly, after events, one level deeper below a synchronous
\* frame, with catch flags that must not swallow the timeout
TimeoutProgs == {
  <<OSet(K1, 1), Hang(FALSE)>>,
  <<OSet(K1, 2), OEv, Out(Sy), Hang(TRUE), OSet(K2, 1)>>,
  <<OSet(K2, 1), OEv, OCall(Sy, 0, <<OSet(K1, 1), OEv, Hang(FALSE)>>, TRUE), OEv>>,
  <<OTake(1), OCall(Sy, 0, <<OSet(K2, 2), Hang(FALSE), OEv>>, FALSE)>>
}
\* programs of contract `s`; `o` is the other contract
ProgsOf(s, o) == TimeoutProgs \cup {
  <<>>,
  <<OSet(K1, 1), OEv>>,                                                     \* succeeds
  <<OSet(K1, 1), OEv, ORevert>>,                                            \* mutates then reverts
  <<OSet(K1, 2), OEv, OBurn(3), OSet(K2, 1)>>,                              \* mutates then may run out of steps
  <<Out(s), OEv, ORevert>>,
  <<OSet(K1, 1), OCall(o, 0, <<OSet(K1, 2), OEv, ORevert>>, TRUE), OEv>>,    \* inner frame fails, caught
  <<OSet(K1, 1), OCall(o, 0, <<OSet(K2, 1), OEv>>, FALSE), Out(s)>>,         \* inner frame succeeds
  <<OSet(K2, 2), OEv, OCall(o, 0, <<OSet(K1, 2), OEv, ORevert>>, FALSE)>>,   \* inner failure propagates
  <<OEv, OCall(o, 0, <<OEv, OCall(s, 0, <<OSet(K2, 1), OEv, ORevert>>, TRUE), OSet(K1, 2)>>, FALSE), OSet(K1, 1)>>,
  <<Out(s), OCall(o, 0, <<OEv, OCall(s, 0, <<OSet(K2, 2), Out(s)>>, FALSE), OBurn(1)>>, TRUE), OEv>>,
  <<OSet(K1, 1), OCall(o, 0, <<OSet(K2, 2), OBurn(2), OEv>>, TRUE), OEv>>,   \* inner out of steps, caught
  <<OXfer("b", 1, FALSE), OEv>>,                                            \* pays out
  <<OXfer("a", 2, TRUE), OSet(K1, 1)>>,                                     \* tries to pay out
  <<OTake(1), OSet(K1, 1)>>,                                                \* drains the origin
  <<OTake(2), OEv, OXfer("c", 1, FALSE)>>,
  <<OTake(3), OXfer("c", 2, FALSE), ORevert>>,
  <<OSet(K1, 1), OCall(o, 1, <<OSet(K1, 1), OEv>>, FALSE)>>,                 \* value-carrying inner call
  <<OCall(o, 1, <<OSet(K1, 2), OEv, ORevert>>, TRUE), OEv>>,
  <<OCall(o, 0, <<OTake(2), OEv>>, TRUE), OTake(1), OBurn(1)>>,
  <<OCall("g", 0, <<>>, TRUE), OSet(K2, 1), OCall("g", 1, <<>>, FALSE)>>,   \* calls a contract without code
  <<OCall(o, 0, <<OSet(K1, 1), OEv>>, FALSE), OEv, ORevert>>,                \* inner succeeds, outer reverts
  <<OCall(o, 0, <<OSet(K1, 1), Out(s)>>, FALSE), OCall(o, 0, <<OSet(K2, 2), OEv, ORevert>>, TRUE), OSet(K2, 1)>>,
  <<OCall(o, 2, <<OXfer("b", 1, FALSE), OEv>>, FALSE), OSet(K1, 2)>>,        \* callee forwards part of the value
  <<OSet(K1, 0), OSet(K2, 0), OEv>>,                                        \* deletes storage
  <<Out(s), OCall(o, 0, <<Out(s), ORevert>>, TRUE), OCall(o, 0, <<Out(s)>>, TRUE), OBurn(2)>>,
  <<OTake(1), OCall(o, 1, <<OTake(1), OXfer("a", 3, TRUE)>>, TRUE), OXfer("a", 1, TRUE)>>, \* refunds
  <<OSet(K1, 1), OCall(Ee, 0, <<OSet(K2, 2), OEv, OCall(o, 0, <<OSet(K1, 2), OEv, ORevert>>, TRUE)>>, FALSE), OEv>>,
  \* inter-call transfers to the account-form twin of a contract: fail after the debit
  <<OSet(K1, 1), OXfer("xh", 1, FALSE)>>,
  <<OXfer("xh", 1, TRUE), OEv, OXfer("b", 1, FALSE)>>
}
Other(c) == IF c = "x" THEN "y" ELSE "x"
\* the synchronous contract runs the timeout programs and a few basic ones
SyncProgs == TimeoutProgs \cup {
  <<OSet(K1, 1), OEv>>,
  <<OSet(K1, 1), OEv, ORevert>>,
  <<OSet(K1, 2), OEv, OBurn(3), OSet(K2, 1)>>,
  <<OSet(K1, 1), OCall("x", 0, <<OSet(K1, 2), OEv, ORevert>>, TRUE), OEv>>,
  <<OSet(K2, 2), OCall("x", 0, <<OSet(K2, 1), OEv>>, FALSE), OXfer("b", 1, TRUE)>>
}
\* the execution-engine style contract: calls in both directions across all three handler kinds,
\* failures of inner frames that are caught, a timeout two asynchronous frames deep
EEProgs == TimeoutProgs \cup {
  <<OSet(K1, 1), OEv>>,
  <<OSet(K1, 1), OEv, ORevert>>,
  <<OSet(K1, 2), OEv, OBurn(3), OSet(K2, 1)>>,
  <<OSet(K1, 1), OCall("x", 0, <<OSet(K1, 2), OEv, ORevert>>, TRUE), OEv>>,
  <<OSet(K2, 2), OCall(Ee, 0, <<OSet(K1, 1), OEv, OCall(Sy, 0, <<OSet(K2, 1), OEv, ORevert>>, TRUE)>>, FALSE), OXfer("b", 1, TRUE)>>,
  <<OEv, OCall(Ee, 0, <<OSet(K2, 1), OEv, Hang(FALSE)>>, TRUE), OEv>>,
  <<OSet(K1, 1), OCall("x", 1, <<OSet(K1, 1), OEv>>, FALSE), OTake(1), ORevert>>,
  <<OTake(2), OCall(Ee, 0, <<OBurn(2), OSet(K1, 2)>>, TRUE), OCall("y", 0, <<OSet(K2, 2), OEv>>, FALSE)>>
}
NoValue == SyncContracts \cup EEContracts \cup Hangers

Shape(kind, to, dlen, prog) == [kind |-> kind, to |-> to, dlen |-> dlen, prog |-> prog]
Shapes ==
  {Shape("transfer", to, 0, <<>>) : to \in Payees \cup (Contracts \ NoValue) \cup Ghosts \cup WrongForm}
  \cup {Shape("message", to, MsgLen, <<>>) : to \in Users \cup (Contracts \ NoValue) \cup WrongForm}
  \cup {Shape("call", g, CallLen, <<>>) : g \in CxTwins}
  \cup UNION {{Shape("call", c, CallLen, p) : p \in ProgsOf(c, Other(c))} : c \in Contracts \ NoValue}
  \cup {Shape("call", c, CallLen, p) : c \in SyncContracts, p \in SyncProgs}
  \cup {Shape("call", c, CallLen, p) : c \in EEContracts, p \in EEProgs}
  \cup {Shape("call", h, CallLen, <<>>) : h \in Hangers}
  \cup {Shape("call", g, CallLen, <<>>) : g \in Ghosts}

Base(sh) == DefaultCost + InputCost * sh.dlen
Mk(from, sh, value, limit) == Tx(from, sh.to, value, limit, sh.kind, sh.dlen, sh.prog)

\* steps the transaction needs when neither the limit nor the fee matters
Need(ww, from, sh, value) == ExecExact(ww, 0, Mk(from, sh, value, 1000000)).su
\* interesting step limits: around the need, around what the sender can afford, the minimum
LimitChoices(ww, p, from, sh, value) ==
  LET n == Need(ww, from, sh, value)
      aff == IF p > 0 /\ ww.bal[from] >= value THEN {(ww.bal[from] - value) \div p, (ww.bal[from] - value) \div p + 1} ELSE {}
  \* (DefaultCost - 1: a limit below the minimum charge, possible after the step costs were raised)
  IN {l \in {DefaultCost - 1, DefaultCost, n - 3, n - 2, n - 1, n, n + 1, n + 2} \cup aff : l >= DefaultCost - 1 /\ l >= 0}
ValueChoices(ww, from) == {0, 1, 2, 3} \cup {v \in {ww.bal[from] - 5, ww.bal[from] - 2, ww.bal[from], ww.bal[from] + 1} : v >= 0}
ValueChoicesFor(ww, from, to) == IF to \in NoValue THEN {0} ELSE ValueChoices(ww, from)
=============================================================================
