SPECIFICATION Spec
CONSTANTS
  Users = {"a", "b", "c"}
  Contracts = {"x", "y", "s", "e"}
  Hangers = {"z"}
  HxTwins = {"xh"}
  CxTwins = {"ac"}
  Ghosts = {"g"}
  SyncContracts = {"s"}
  EEContracts = {"e"}
  Keys = {"k1", "k2"}
  Prices = {0, 1, 2}
  DefaultCost = 2
  InputCost = 0
  CallCost = 1
  InvokeLimit = 268435456
  MidPrice = TRUE
  MsgLen = 6
  CallLen = 37
  WithMsg = FALSE
  MaxTx = 3
  MaxOps = 2
  Depth = 2
  FundVals = {}
  MCFrom = {"a"}
  MCBals = {5}
  MCShift = 0
  MCCBals = {1}
  MCValues = {0, 1}
  MCExtras = {0, 2, 5}
  InitWorlds <- MCInit
  TxSpace <- MCTxSpace
INVARIANT Emit
