SPECIFICATION SimSpec
CONSTANTS
  Users = {"a", "b", "c"}
  Contracts = {"x", "y", "s", "e"}
  Hangers = {"z"}
  HxTwins = {"xh"}
  CxTwins = {"ac"}
  Ghosts = {"g"}
  SyncContracts = {"s"}
  EEContracts = {"e"}
  Keys = {"k1", "k2"}
  Prices = {0, 1, 2}
  DefaultCost = 2
  InputCost = 0
  CallCost = 1
  InvokeLimit = 268435456
  MidPrice = TRUE
  MsgLen = 6
  CallLen = 37
  WithMsg = FALSE
  MaxTx = 3
  MaxOps = 12
  Depth = 12
  FundVals = {0, 1, 4, 7, 12, 20}
  SimBals = {0, 1, 3, 4, 6, 9, 14, 25}
  SimCBals = {0, 1, 3}
  InitWorlds <- SimInitWorlds
  TxSpace <- NoSpace
INVARIANT Emit
