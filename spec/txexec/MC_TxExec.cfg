SPECIFICATION Spec
CONSTANTS
  Users = {"a", "b", "c"}
  Contracts = {"x", "y", "s", "e"}
  Hangers = {"z"}
  HxTwins = {"xh"}
  CxTwins = {"ac"}
  Ghosts = {"g"}
  SyncContracts = {"s"}
  EEContracts = {"e"}
  Keys = {"k1", "k2"}
  Prices = {0, 1, 2}
  DefaultCost = 2
  InputCost = 0
  CallCost = 1
  InvokeLimit = 268435456
  MidPrice = TRUE
  MsgLen = 6
  CallLen = 37
  WithMsg = FALSE
  MaxTx = 2
  MaxOps = 3
  FundVals = {3}
  MCFrom = {"a", "b"}
  MCBals = {0, 3, 9}
  MCShift = 0
  MCCBals = {0, 2}
  MCValues = {0, 1}
  MCExtras = {0, 2, 5}
  InitWorlds <- MCInit
  TxSpace <- MCTxSpace
VIEW ViewNoHist
INVARIANTS TypeOK NoNegative TotalConserved NoViolation
