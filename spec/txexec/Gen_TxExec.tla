---- MODULE Gen_TxExec ----
(* Generator (BFS): every behaviour of exactly Depth calls over the MC transaction space. *)
EXTENDS MC_TxExec, Json
CONSTANT Depth
Emit == (Len(hist) = Depth) => PrintT(<<"B", ToJson(hist)>>)
====
