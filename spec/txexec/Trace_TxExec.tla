---- MODULE Trace_TxExec ----
(* Validates recorded executions of the real code (harness/txexec) against TxExec.

   trace.ndjson has one line per executed block:
     [case, blk, price, pre, txs : Seq([tx, rc, post]), end]
   pre/post/end are projected worlds, rc the observed receipt (ok, su, price, logs, msgs), the
   step-charge decisions the scripted contracts saw (entered, orc) and `onlypayer`, the result of
   the real state-hash comparison "post-state = pre-state with only the payer's balance replaced".

   The recorded block is replayed as a behaviour of TxExec: TraceBegin loads the pre-world (an
   environment step like Init/Fund), TraceTx is ExecTx with the implementation-defined values
   (status, stepUsed, stepPrice, step-charge decisions) bound from the record (ExecBound), and
   TraceEnd is EndBlock.  After every step the verdict-bearing predicates of TxExec are
   evaluated on the recorded worlds; a failing predicate is printed as a "V" line and the model
   re-synchronises with the record so that the remaining steps are still checked.  The run ends
   with a "D" line (number of blocks and transactions consumed). *)
EXTENDS TxExec, Json

Trace == ndJsonDeserialize("trace.ndjson")

VARIABLES i,    \* line (block) being replayed
          j     \* 0: block not begun, k: transaction k is next, Len+1: block end is next
tvars == <<mvars, i, j>>

NoWorlds == {}
NoSpace(ww) == {}

WorldOf(o) == [bal |-> [a \in Accts |-> o.bal[a]],
               st  |-> [c \in Contracts |-> [k \in Keys |-> o.st[c][k]]]]
TxOf(o) == Tx(o.from, o.to, o.value, o.limit, o.kind, o.dlen, o.prog)

Rec == Trace[i]

Report(k, fails, extra) ==
  IF fails = {} THEN TRUE
  ELSE PrintT(<<"V", ToJson([case |-> Rec.case, blk |-> Rec.blk, tx |-> k, fails |-> fails] @@ extra)>>)

TraceInit == /\ w = Zero /\ price = 0 /\ fees = 0 /\ ntx = 0 /\ total = 0 /\ hist = <<>> /\ viol = {}
             /\ i = 1 /\ j = 0

TraceBegin ==
  /\ i <= Len(Trace) /\ j = 0
  /\ w' = WorldOf(Rec.pre) /\ price' = Rec.price /\ fees' = 0 /\ ntx' = 0
  /\ total' = Supply(WorldOf(Rec.pre))
  /\ j' = 1 /\ UNCHANGED <<i, hist, viol>>

\* the governance transaction that changes the step price inside a block (harness transaction)
TracePrice ==
  /\ i <= Len(Trace) /\ j >= 1 /\ j <= Len(Rec.txs) /\ Rec.txs[j].tx.kind = "price"
  /\ price' = Rec.txs[j].tx.value
  /\ w' = WorldOf(Rec.txs[j].post)
  /\ j' = j + 1 /\ UNCHANGED <<i, fees, ntx, total, hist, viol>>

TraceTx ==
  /\ i <= Len(Trace) /\ j >= 1 /\ j <= Len(Rec.txs) /\ Rec.txs[j].tx.kind # "price"
  /\ LET t == Rec.txs[j]
         tx == TxOf(t.tx)
         post == WorldOf(t.post)
     IN \E fails \in {TxFails(w, price, tx, t.rc, post)} :
        /\ Report(j, fails, [kind |-> tx.kind, ok |-> t.rc.ok, pre |-> w, post |-> post, rc |-> t.rc, txd |-> t.tx])
        /\ w' = post                                    \* re-synchronise with the record
        /\ fees' = fees + t.rc.su * t.rc.price
        /\ ntx' = ntx + 1
        /\ viol' = fails
  /\ j' = j + 1 /\ UNCHANGED <<i, price, total, hist>>

TraceEnd ==
  /\ i <= Len(Trace) /\ j = Len(Rec.txs) + 1
  /\ LET end == WorldOf(Rec.end)
     IN \E fails \in {EndFails(w, fees, total, end)} :
        /\ Report(0, fails, [kind |-> "end", ok |-> TRUE, pre |-> w, post |-> end, fees |-> fees])
        /\ w' = end /\ viol' = fails
  /\ fees' = 0 /\ ntx' = 0 /\ i' = i + 1 /\ j' = 0
  /\ UNCHANGED <<price, total, hist>>

TraceDone ==
  /\ i = Len(Trace) + 1 /\ j = 0
  /\ PrintT(<<"D", ToJson([blocks |-> Len(Trace)])>>)
  /\ i' = i + 1 /\ UNCHANGED <<mvars, j>>

TraceNext == TraceBegin \/ TracePrice \/ TraceTx \/ TraceEnd \/ TraceDone
TraceSpec == TraceInit /\ [][TraceNext]_tvars
====
