------------------------------ MODULE MPTHeap ------------------------------
(* Copy-on-write refinement of MPT.tla (C17: snapshots).

   MPT.tla treats tries as values.  The code shares nodes between the mutable trie and its
   snapshots: every node has a state; GetSnapshot freezes the nodes reachable from the root
   (dirty -> frozen); set/delete update a DIRTY node in place (getChanged / getChangable /
   getKeyPrepended) and allocate a fresh dirty node for everything else.  This module adds that
   level: a heap of nodes with a dirty/frozen flag, the root address of the mutable trie and of
   every snapshot slot, and transcriptions of leaf/extension/branch set and delete that thread
   the heap and decide "in place or copy" exactly where the code does.

   Nodes also have the persistence states of the code: a frozen node that was written by Flush is
   FLUSHED ("X"); ClearCache (compact) replaces flushed nodes by hash references and rewires the
   child pointers of the nodes above them in place (also of frozen nodes: their content does
   not change); a hash reference is realized from the database (one node, its children being
   hash references again) when set/delete/get walk through it; a reloaded trie starts as a
   single hash reference.  `db` is the set of node terms in the database.

   Every action is the conjunction of the MPT action (which drives kv, trie, snaps) with the
   heap update, so the invariants below state the refinement: the tree read from the heap at
   the mutable root is the value-level trie, the tree read at a snapshot root is the value the
   snapshot had when it was taken, and a frozen node never changes. *)
EXTENDS MPT
VARIABLES heap,     \* Seq(node)  address = index; node = [t, k, v, c, n, st, ref]
                    \* st = "D" dirty | "F" frozen | "X" flushed;  t = "H": hash reference to the node term `ref`
          mroot,    \* address of the mutable trie's root (0 = nil)
          sroots,   \* [1..MaxSnaps -> address]
          db        \* node terms stored in the database
hvars == <<heap, mroot, sroots, db>>
allvars == <<kv, trie, snaps, nops, hist, heap, mroot, sroots, db>>

NoC == [i \in 0..W-1 |-> 0]
HL(k, v) == [t |-> "L", k |-> k, v |-> v, c |-> NoC, n |-> 0, st |-> "D", ref |-> Nil]
HE(k, n) == [t |-> "E", k |-> k, v |-> NoVal, c |-> NoC, n |-> n, st |-> "D", ref |-> Nil]
HB(c, v) == [t |-> "B", k |-> <<>>, v |-> v, c |-> c, n |-> 0, st |-> "D", ref |-> Nil]
HRef(t) == [t |-> "H", k |-> <<>>, v |-> NoVal, c |-> NoC, n |-> 0, st |-> "X", ref |-> t]
Flushed(x) == [x EXCEPT !.st = "X"]
RECURSIVE Tree(_, _)
Tree(h, a) == IF a = 0 THEN Nil
              ELSE LET x == h[a] IN
                   CASE x.t = "H" -> x.ref
                     [] x.t = "L" -> Leaf(x.k, x.v)
                     [] x.t = "E" -> Ext(x.k, Tree(h, x.n))
                     [] x.t = "B" -> [t |-> "B", c |-> [i \in 0..W-1 |-> Tree(h, x.c[i])], v |-> x.v]
Alloc(h, x) == [h |-> Append(h, x), a |-> Len(h) + 1]
\* getChanged / getChangable / getKeyPrepended: a dirty node is updated in place, anything else is replaced by a fresh node
Upd(h, a, x) == IF h[a].st = "D" THEN [h |-> [h EXCEPT ![a] = x], a |-> a] ELSE Alloc(h, x)
Res(h, a, d) == [h |-> h, a |-> a, d |-> d]
Set1(c, i, a) == [c EXCEPT ![i] = a]

\* realize a hash reference: one node read from the database (state flushed), its children are hash references
RECURSIVE RefCh(_, _, _, _)
RefCh(h, t, i, c) == IF i = W THEN [h |-> h, c |-> c]
                     ELSE IF t.c[i] = Nil THEN RefCh(h, t, i + 1, c)
                     ELSE LET r == Alloc(h, HRef(t.c[i])) IN RefCh(r.h, t, i + 1, Set1(c, i, r.a))
Realize(h, a) ==
  LET t == h[a].ref IN
  CASE t.t = "L" -> Alloc(h, Flushed(HL(t.k, t.v)))
    [] t.t = "E" -> LET r == Alloc(h, HRef(t.n)) IN Alloc(r.h, Flushed(HE(t.k, r.a)))
    [] t.t = "B" -> LET r == RefCh(h, t, 0, NoC) IN Alloc(r.h, Flushed(HB(r.c, t.v)))

RECURSIVE HSet(_, _, _, _)
HSet(h, a, keys, o) ==
  IF a = 0 THEN LET r == Alloc(h, HL(keys, o)) IN Res(r.h, r.a, TRUE)
  ELSE IF h[a].t = "H" THEN LET r == Realize(h, a) IN HSet(r.h, r.a, keys, o)
  ELSE LET n == h[a] IN
  CASE n.t = "L" ->
        LET cnt == CommonLen(keys, n.k)  match == (keys = n.k) IN
        IF cnt = 0 /\ ~match THEN
           LET r1 == IF keys = <<>> THEN [h |-> h, a |-> 0] ELSE Alloc(h, HL(Tail(keys), o))
               r2 == IF n.k = <<>> THEN [h |-> r1.h, a |-> 0] ELSE Upd(r1.h, a, HL(Tail(n.k), n.v))
               c1 == IF keys = <<>> THEN NoC ELSE Set1(NoC, keys[1], r1.a)
               c2 == IF n.k = <<>> THEN c1 ELSE Set1(c1, n.k[1], r2.a)
               v == IF n.k = <<>> THEN n.v ELSE IF keys = <<>> THEN o ELSE NoVal
               r3 == Alloc(r2.h, HB(c2, v))
           IN Res(r3.h, r3.a, TRUE)
        ELSE IF cnt < Len(n.k) THEN
           LET r1 == IF cnt = Len(keys) THEN [h |-> h, a |-> 0] ELSE Alloc(h, HL(Rest(keys, cnt + 2), o))
               r2 == Upd(r1.h, a, HL(Rest(n.k, cnt + 2), n.v))
               c1 == IF cnt = Len(keys) THEN NoC ELSE Set1(NoC, keys[cnt + 1], r1.a)
               r3 == Alloc(r2.h, HB(Set1(c1, n.k[cnt + 1], r2.a), IF cnt = Len(keys) THEN o ELSE NoVal))
               r4 == Alloc(r3.h, HE(SubSeq(keys, 1, cnt), r3.a))
           IN Res(r4.h, r4.a, TRUE)
        ELSE IF cnt < Len(keys) THEN
           LET r1 == Alloc(h, HL(Rest(keys, cnt + 2), o))
               r2 == Alloc(r1.h, HB(Set1(NoC, keys[cnt + 1], r1.a), n.v))
               r3 == Alloc(r2.h, HE(n.k, r2.a))
           IN Res(r3.h, r3.a, TRUE)
        ELSE IF n.v = o THEN Res(h, a, FALSE)
        ELSE LET r == Upd(h, a, HL(n.k, o)) IN Res(r.h, r.a, TRUE)
    [] n.t = "E" ->
        LET cnt == CommonLen(keys, n.k) IN
        IF cnt = 0 THEN
           LET r1 == IF keys = <<>> THEN [h |-> h, a |-> 0] ELSE Alloc(h, HL(Tail(keys), o))
               r2 == IF Len(n.k) = 1 THEN [h |-> r1.h, a |-> n.n] ELSE Upd(r1.h, a, HE(Tail(n.k), n.n))
               c1 == IF keys = <<>> THEN NoC ELSE Set1(NoC, keys[1], r1.a)
               r3 == Alloc(r2.h, HB(Set1(c1, n.k[1], r2.a), IF keys = <<>> THEN o ELSE NoVal))
           IN Res(r3.h, r3.a, TRUE)
        ELSE IF cnt < Len(n.k) THEN
           LET r1 == IF cnt + 1 = Len(n.k) THEN [h |-> h, a |-> n.n] ELSE Alloc(h, HE(Rest(n.k, cnt + 2), n.n))
               r2 == IF cnt = Len(keys) THEN [h |-> r1.h, a |-> 0] ELSE Alloc(r1.h, HL(Rest(keys, cnt + 2), o))
               c1 == Set1(NoC, n.k[cnt + 1], r1.a)
               c2 == IF cnt = Len(keys) THEN c1 ELSE Set1(c1, keys[cnt + 1], r2.a)
               r3 == Alloc(r2.h, HB(c2, IF cnt = Len(keys) THEN o ELSE NoVal))
               r4 == Upd(r3.h, a, HE(SubSeq(n.k, 1, cnt), r3.a))
           IN Res(r4.h, r4.a, TRUE)
        ELSE LET r1 == HSet(h, n.n, Rest(keys, cnt + 1), o) IN
             IF r1.d THEN LET r2 == Upd(r1.h, a, HE(n.k, r1.a)) IN Res(r2.h, r2.a, TRUE)
             ELSE Res(r1.h, a, FALSE)
    [] n.t = "B" ->
        IF keys = <<>> THEN
           (IF n.v = o THEN Res(h, a, FALSE)
            ELSE LET r == Upd(h, a, HB(n.c, o)) IN Res(r.h, r.a, TRUE))
        ELSE LET r1 == HSet(h, n.c[keys[1]], Tail(keys), o) IN
             IF r1.d THEN LET r2 == Upd(r1.h, a, HB(Set1(n.c, keys[1], r1.a), n.v)) IN Res(r2.h, r2.a, TRUE)
             ELSE Res(r1.h, a, FALSE)

\* the collapse of branch.delete on the (already changeable) branch at address a
Collapse(h, a) ==
  LET br == h[a]
      live == {i \in 0..W-1 : br.c[i] # 0} IN
  IF Cardinality(live) > 1 THEN Res(h, a, TRUE)
  ELSE IF live = {} THEN LET r == Alloc(h, HL(<<>>, br.v)) IN Res(r.h, r.a, TRUE)
  ELSE IF br.v # NoVal THEN Res(h, a, TRUE)
  ELSE LET idx == CHOOSE i \in live : TRUE
           rz == IF h[br.c[idx]].t = "H" THEN Realize(h, br.c[idx]) ELSE [h |-> h, a |-> br.c[idx]]   \* alive.realize(m)
           h1 == rz.h
           al == rz.a
           x == h1[al] IN
       CASE x.t = "E" -> LET r == Upd(h1, al, HE(<<idx>> \o x.k, x.n)) IN Res(r.h, r.a, TRUE)
         [] x.t = "L" -> LET r == Upd(h1, al, HL(<<idx>> \o x.k, x.v)) IN Res(r.h, r.a, TRUE)
         [] x.t = "B" -> LET r == Alloc(h1, HE(<<idx>>, al)) IN Res(r.h, r.a, TRUE)
RECURSIVE HDel(_, _, _)
HDel(h, a, keys) ==
  IF a = 0 THEN Res(h, 0, FALSE)
  ELSE IF h[a].t = "H" THEN LET r == Realize(h, a) IN HDel(r.h, r.a, keys)
  ELSE LET n == h[a] IN
  CASE n.t = "L" -> IF keys = n.k THEN Res(h, 0, TRUE) ELSE Res(h, a, FALSE)
    [] n.t = "E" ->
        LET cnt == CommonLen(keys, n.k) IN
        IF cnt < Len(n.k) THEN Res(h, a, FALSE)
        ELSE LET r1 == HDel(h, n.n, Rest(keys, cnt + 1)) IN
             IF ~r1.d THEN Res(r1.h, a, FALSE)
             ELSE IF r1.a = 0 THEN Res(r1.h, 0, TRUE)
             ELSE LET x == r1.h[r1.a] IN
                  (CASE x.t = "E" -> LET r == Upd(r1.h, r1.a, HE(n.k \o x.k, x.n)) IN Res(r.h, r.a, TRUE)
                     [] x.t = "L" -> LET r == Upd(r1.h, r1.a, HL(n.k \o x.k, x.v)) IN Res(r.h, r.a, TRUE)
                     [] x.t = "B" -> LET r == Upd(r1.h, a, HE(n.k, r1.a)) IN Res(r.h, r.a, TRUE))
    [] n.t = "B" ->
        IF keys = <<>> THEN
           (IF n.v = NoVal THEN Res(h, a, FALSE)
            ELSE LET r == Upd(h, a, HB(n.c, NoVal)) IN Collapse(r.h, r.a))
        ELSE IF n.c[keys[1]] = 0 THEN Res(h, a, FALSE)
        ELSE LET r1 == HDel(h, n.c[keys[1]], Tail(keys)) IN
             IF ~r1.d THEN Res(r1.h, a, FALSE)
             ELSE LET r2 == Upd(r1.h, a, HB(Set1(n.c, keys[1], r1.a), n.v)) IN Collapse(r2.h, r2.a)

\* freeze: dirty nodes reachable from a become frozen (stops at nodes that are frozen already)
RECURSIVE Reach(_, _)
Reach(h, a) == IF a = 0 \/ h[a].st # "D" THEN {}
               ELSE {a} \cup Reach(h, h[a].n) \cup UNION {Reach(h, h[a].c[i]) : i \in 0..W-1}
Freeze(h, a) == LET S == Reach(h, a) IN [i \in 1..Len(h) |-> IF i \in S THEN [h[i] EXCEPT !.st = "F"] ELSE h[i]]

\* Flush of a snapshot: every node below the root that is not flushed yet is written and becomes flushed
RECURSIVE Unflushed(_, _)
Unflushed(h, a) == IF a = 0 \/ h[a].st = "X" THEN {}
                   ELSE {a} \cup Unflushed(h, h[a].n) \cup UNION {Unflushed(h, h[a].c[i]) : i \in 0..W-1}
MarkFlushed(h, a) == LET S == Unflushed(h, a) IN [i \in 1..Len(h) |-> IF i \in S THEN Flushed(h[i]) ELSE h[i]]
RECURSIVE SubTerms(_)
SubTerms(t) == IF t = Nil THEN {}
               ELSE {t} \cup (CASE t.t = "L" -> {}
                                [] t.t = "E" -> SubTerms(t.n)
                                [] t.t = "B" -> UNION {SubTerms(t.c[i]) : i \in 0..W-1})
\* ClearCache = compact: a flushed node becomes a hash reference; above it the child pointers are rewired in place
RECURSIVE Compact(_, _), CompactCh(_, _, _)
CompactCh(h, a, i) == IF i = W THEN h
                      ELSE LET r == Compact(h, h[a].c[i]) IN CompactCh([r.h EXCEPT ![a].c[i] = r.a], a, i + 1)
Compact(h, a) ==
  IF a = 0 \/ h[a].t = "H" THEN [h |-> h, a |-> a]
  ELSE IF h[a].st = "X" THEN Alloc(h, HRef(Tree(h, a)))
  ELSE CASE h[a].t = "L" -> [h |-> h, a |-> a]
         [] h[a].t = "E" -> LET r == Compact(h, h[a].n) IN [h |-> [r.h EXCEPT ![a].n = r.a], a |-> a]
         [] h[a].t = "B" -> [h |-> CompactCh(h, a, 0), a |-> a]
\* Get through the heap: below a hash reference the node terms come from the database
RECURSIVE HGet(_, _, _)
HGet(h, a, keys) ==
  IF a = 0 THEN NoVal
  ELSE LET n == h[a] IN
  CASE n.t = "H" -> IF SubTerms(n.ref) \subseteq db THEN GetN(n.ref, keys) ELSE -1       \* -1: node missing in the database
    [] n.t = "L" -> IF keys = n.k THEN n.v ELSE NoVal
    [] n.t = "E" -> IF CommonLen(keys, n.k) < Len(n.k) THEN NoVal ELSE HGet(h, n.n, Rest(keys, Len(n.k) + 1))
    [] n.t = "B" -> IF keys = <<>> THEN n.v ELSE HGet(h, n.c[keys[1]], Tail(keys))

-----------------------------------------------------------------------------
HInit == Init /\ heap = <<>> /\ mroot = 0 /\ sroots = [i \in 1..MaxSnaps |-> 0] /\ db = {}
HNext ==
  \/ \E k \in Keys, v \in Vals : /\ Can /\ Set(k, v)
                                 /\ LET r == HSet(heap, mroot, k, v) IN heap' = r.h /\ mroot' = r.a
                                 /\ UNCHANGED <<sroots, db>>
  \/ \E k \in Keys : /\ Can /\ Del(k)
                     /\ LET r == HDel(heap, mroot, k) IN heap' = r.h /\ mroot' = IF r.d THEN r.a ELSE mroot
                     /\ UNCHANGED <<sroots, db>>
  \/ \E s \in 1..MaxSnaps : /\ Can /\ Snap(s)
                            /\ heap' = Freeze(heap, mroot) /\ sroots' = [sroots EXCEPT ![s] = mroot]
                            /\ UNCHANGED <<mroot, db>>
  \/ \E s \in 1..MaxSnaps : /\ Can /\ Reset(s)
                            /\ mroot' = sroots[s] /\ UNCHANGED <<heap, sroots, db>>
  \/ \E s \in 1..MaxSnaps : /\ Can /\ Flush(s)
                            /\ heap' = MarkFlushed(heap, sroots[s]) /\ db' = db \cup SubTerms(Tree(heap, sroots[s]))
                            /\ UNCHANGED <<mroot, sroots>>
  \/ \E s \in 0..MaxSnaps : /\ Can /\ ClearCache(s)
                            /\ LET r == Compact(heap, IF s = 0 THEN mroot ELSE sroots[s]) IN
                               /\ heap' = r.h
                               /\ mroot' = IF s = 0 THEN r.a ELSE mroot
                               /\ sroots' = IF s = 0 THEN sroots ELSE [sroots EXCEPT ![s] = r.a]
                            /\ UNCHANGED db
  \/ \E s \in 1..MaxSnaps : /\ Can /\ Reload(s, 1)          \* NewMutable(db, root hash of the flushed snapshot)
                            /\ IF snaps[s].trie = Nil THEN heap' = heap /\ mroot' = 0
                               ELSE LET r == Alloc(heap, HRef(snaps[s].trie)) IN heap' = r.h /\ mroot' = r.a
                            /\ UNCHANGED <<sroots, db>>
HSpec == HInit /\ [][HNext]_allvars

-----------------------------------------------------------------------------
\* the heap level implements the value level
RefinesMPT == Tree(heap, mroot) = trie
\* a snapshot still reads what it read when it was taken, whatever the mutable trie did afterwards
SnapshotIsolated == \A s \in 1..MaxSnaps : Tree(heap, sroots[s]) = snaps[s].trie
\* everything reachable from a snapshot root is frozen, and frozen nodes never change
SnapshotFrozen == \A s \in 1..MaxSnaps : Reach(heap, sroots[s]) = {}
\* a node that is not dirty keeps its content for ever (compaction may rewire its child pointers, nothing else)
FrozenImmutable == [][\A a \in 1..Len(heap) : heap[a].st # "D" => (Tree(heap', a) = Tree(heap, a) /\ heap'[a].st # "D")]_allvars
\* everything a hash reference or a flushed node stands for is in the database: flush/clear/reload never lose data
Resolvable == \A a \in 1..Len(heap) : heap[a].st = "X" => SubTerms(Tree(heap, a)) \subseteq db
\* lookups through the heap (realizing from the database where the cache was dropped) return the map
GetThroughCache == /\ \A k \in Keys : HGet(heap, mroot, k) = kv[k]
                   /\ \A s \in 1..MaxSnaps : \A k \in Keys : HGet(heap, sroots[s], k) = snaps[s].kv[k]
=============================================================================
