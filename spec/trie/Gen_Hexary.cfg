SPECIFICATION Spec
CONSTANTS
  A = 16
  MaxLen = 700
  Vals = {1, 2}
  MaxOps = 12
  Depth = 12
  Extras = TRUE
  HistOn = TRUE
  AddSizes = {1, 2, 15, 16, 17, 239, 256}
  RewindPoints <- RPGen
INVARIANT Emit
