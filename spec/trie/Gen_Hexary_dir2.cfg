INIT Init
NEXT DirNext
CONSTANTS
  A = 16
  MaxLen = 12
  Vals = {1, 2}
  MaxOps = 5
  Depth = 5
  Extras = FALSE
  HistOn = TRUE
  AddSizes = {1, 2}
  RewindPoints <- RPNone
INVARIANT Emit
