SPECIFICATION Spec
CONSTANTS
  A = 2
  MaxLen = 12
  Vals = {1}
  MaxOps = 0
  Extras = TRUE
  HistOn = FALSE
  AddSizes = {1}
  RewindPoints <- RPAll
INVARIANTS Deterministic ProofsOK StoreComplete SequentialSyncOK PersistedConsistent
