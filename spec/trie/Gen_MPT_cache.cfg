INIT GInit
NEXT Next
CONSTANTS
  W = 2
  KeyList <- KL5
  PrefixList <- PL
  Vals = {1, 2}
  VLen <- VL
  MaxOps = 30
  Depth = 30
  MaxSnaps = 1
  InitArr <- IA0
  InitFlushed = FALSE
  HistOn = TRUE
INVARIANT Emit
