SPECIFICATION Spec
CONSTANTS
  W = 2
  KeyList <- SK5
  Vals = {1}
  MaxOps = 4
  HistOn = FALSE
INVARIANTS StoredIsTarget DoneIffComplete RequestsSane Closed
PROPERTIES Progress
