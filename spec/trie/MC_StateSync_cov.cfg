SPECIFICATION Spec
CONSTANTS
  W = 2
  KeyList <- SK5
  Vals = {1, 3}
  MaxOps = 4
  AliasVal = 3
  AliasKey <- AK
  HistOn = FALSE
INVARIANTS StoredIsTarget DoneIffComplete RequestsSane Closed
PROPERTIES Progress
