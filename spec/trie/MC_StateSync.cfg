SPECIFICATION Spec
CONSTANTS
  W = 2
  KeyList <- SK5
  Vals = {1, 2}
  MaxOps = 0
  HistOn = FALSE
INVARIANTS StoredIsTarget DoneIffComplete RequestsSane Closed
PROPERTIES Progress
