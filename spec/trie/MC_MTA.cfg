SPECIFICATION Spec
CONSTANTS
  MaxLen = 20
  MaxOps = 0
  Kinds = {"d"}
  HistOn = FALSE
INVARIANTS OutOfRange RootsBinary WitnessesVerify AddWitnessVerifies TamperRejected RefsStored RecoverSame
