SPECIFICATION Spec
CONSTANTS
  W = 3
  KeyList <- SK3W
  Vals = {1, 2}
  MaxOps = 50
  Depth = 51
  HistOn = TRUE
INVARIANT Emit
