SPECIFICATION Spec
CONSTANTS
  W = 3
  KeyList <- SK3W
  Vals = {1, 2, 3}
  MaxOps = 50
  Depth = 51
  AliasVal = 3
  AliasKey <- AK
  HistOn = TRUE
INVARIANT Emit
