SPECIFICATION Spec
CONSTANTS
  MaxLen = 7
  MaxOps = 0
  Kinds = {"d", "h"}
  HistOn = FALSE
INVARIANTS RootsBinary WitnessesVerify AddWitnessVerifies TamperRejected RefsStored RecoverSame
