SPECIFICATION Spec
CONSTANTS
  MaxLen = 7
  MaxOps = 0
  Kinds = {"d", "h"}
  HistOn = FALSE
INVARIANTS OutOfRange RootsBinary WitnessesVerify AddWitnessVerifies TamperRejected RefsStored RecoverSame
