---- MODULE Gen_Hexary ----
EXTENDS MC_Hexary, Json
CONSTANT Depth
Emit == (Len(hist) = Depth) => PrintT(<<"B", ToJson(hist)>>)
====
