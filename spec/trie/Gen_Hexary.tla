---- MODULE Gen_Hexary ----
EXTENDS MC_Hexary, Json
CONSTANT Depth
Emit == (Len(hist) = Depth) => PrintT(<<"B", ToJson(hist)>>)
\* directed alphabet: add one or two hashes of either version, rewind by one or two, read the header (and nothing else)
DirNext == \/ \E v \in Vals, n \in {1, 2} : Can /\ Add(v, n)
           \/ \E d \in {1, 2} : Can /\ acc.len - d >= 1 /\ SetLen(acc.len - d)
           \/ Can /\ HeaderRead
====
