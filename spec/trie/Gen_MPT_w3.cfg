INIT GInit
NEXT Next
CONSTANTS
  W = 3
  KeyList <- KL3W
  PrefixList <- PL3W
  Vals = {1, 2, 3}
  VLen <- VL
  MaxOps = 2
  Depth = 2
  MaxSnaps = 2
  InitArr <- IA0
  InitFlushed = FALSE
  HistOn = TRUE
INVARIANT Emit
