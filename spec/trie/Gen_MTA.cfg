SPECIFICATION Spec
CONSTANTS
  MaxLen = 300
  MaxOps = 40
  Depth = 40
  Kinds = {"d", "h"}
  HistOn = TRUE
  TableFrom = 1
  TableTo = 0
INVARIANT Emit
