SPECIFICATION Spec
CONSTANTS
  MaxLen = 300
  MaxOps = 40
  Depth = 40
  HistOn = TRUE
  TableFrom = 1
  TableTo = 0
INVARIANT Emit
