----------------------------- MODULE StateSync -----------------------------
(* State sync by hash (common/merkle/builder.go + ompt Resolve/nodeRequester), C20.

   The syncing node knows only a trusted root hash.  It keeps an ordered list of outstanding
   requests (hash -> list of requesters with their buckets) and a local store.  Data arrives
   through OnData(value): the hash of the value is looked up in the request map; if nobody
   asked for it the value is dropped (ErrNoRequester); otherwise it is written into the bucket
   of every requester, every requester is notified (a trie node requester deserializes the node
   and resolves its children: a child whose data is already in the local store is left alone,
   a child that is already requested gets one more requester, any other child becomes a new
   request inserted right behind the request being served; a value object asks for its data in
   the same way), and the request is removed.

   The target is a trie for objects: T = Canon(map) of the MPT module's canonical shape, every
   value being an object whose 32-byte hash is stored in the leaf and whose data lives in the
   BytesByHash bucket (two keys with the same value share that data; equal subtrees share
   their node).  All nodes of such a trie are larger than 32 bytes, so every node is a
   separate, hash-addressed entry.  Hashes are symbolic: the hash of a node is its term, the
   hash of the data of value v is D(v). *)
EXTENDS Integers, Sequences, FiniteSets, TLC
CONSTANTS W, KeyList, Vals, MaxOps, HistOn,
          AliasVal, AliasKey  \* the data of value AliasVal is byte-identical to the serialized leaf node of key AliasKey (see DH)
VARIABLES m,        \* the target map (chosen initially, then fixed)
          reqs,     \* outstanding requests: Seq([h, b])  b = buckets of the requesters ("T" trie node, "B" bytes)
          store,    \* local store: set of <<bucket, hash>>
          nops, hist
vars == <<m, reqs, store, nops, hist>>

NK == Len(KeyList)
Keys == {KeyList[i] : i \in 1..NK}
NoVal == 0
Nil == [t |-> "N"]
Leaf(k, v) == [t |-> "L", k |-> k, v |-> v]
Ext(k, n) == [t |-> "E", k |-> k, n |-> n]
Rest(s, i) == SubSeq(s, i, Len(s))
D(v) == [t |-> "D", v |-> v]

\* canonical trie of a map (as in MPT.tla)
RECURSIVE Canon(_), LCP(_)
Strip(S, n) == {<<Rest(p[1], n + 1), p[2]>> : p \in S}
LCP(S) == LET ks == {p[1] : p \in S} IN
          IF \E k \in ks : k = <<>> THEN 0
          ELSE IF Cardinality({k[1] : k \in ks}) > 1 THEN 0
          ELSE 1 + LCP(Strip(S, 1))
CanonBr(S) == [t |-> "B",
               c |-> [i \in 0..W-1 |->
                       LET Si == {p \in S : p[1] # <<>> /\ p[1][1] = i} IN
                       IF Si = {} THEN Nil ELSE Canon(Strip(Si, 1))],
               v |-> IF \E p \in S : p[1] = <<>> THEN (CHOOSE p \in S : p[1] = <<>>)[2] ELSE NoVal]
Canon(S) == IF S = {} THEN Nil
            ELSE IF Cardinality(S) = 1 THEN LET p == CHOOSE q \in S : TRUE IN Leaf(p[1], p[2])
            ELSE LET l == LCP(S) IN
                 IF l = 0 THEN CanonBr(S)
                 ELSE LET k == (CHOOSE q \in S : TRUE)[1] IN Ext(SubSeq(k, 1, l), CanonBr(Strip(S, l)))
PairsOf(mm) == {<<k, mm[k]>> : k \in {x \in Keys : mm[x] # NoVal}}
Root == Canon(PairsOf(m))

\* Hash of the data of value v.  One value is special: its data bytes ARE the serialization of the leaf node that holds
\* key AliasKey in the same target (possible because both buckets use the same hash function), so the same hash is wanted
\* in the MerkleTrie bucket (as a node) and in the BytesByHash bucket (as object data).
RECURSIVE LeafOf(_, _)
LeafOf(n, keys) == CASE n.t = "N" -> Nil
                     [] n.t = "L" -> IF keys = n.k THEN n ELSE Nil
                     [] n.t = "E" -> IF Len(keys) >= Len(n.k) /\ SubSeq(keys, 1, Len(n.k)) = n.k THEN LeafOf(n.n, Rest(keys, Len(n.k) + 1)) ELSE Nil
                     [] n.t = "B" -> IF keys = <<>> THEN Nil ELSE LeafOf(n.c[keys[1]], Tail(keys))
AliasLeaf == LeafOf(Root, AliasKey)
AliasOK == AliasVal \in Vals /\ AliasKey \in Keys /\ m[AliasKey] \notin {NoVal, AliasVal} /\ AliasLeaf # Nil
DH(v) == IF v = AliasVal /\ AliasOK THEN AliasLeaf ELSE D(v)
\* what the requester of entry h asks for when h arrives, in the order of the RequestData calls
RECURSIVE BrWants(_, _)
BrWants(n, i) == IF i = W THEN <<>> ELSE (IF n.c[i] = Nil THEN <<>> ELSE << <<"T", n.c[i]>> >>) \o BrWants(n, i + 1)
Wants(h) == CASE h.t = "D" -> <<>>
              [] h.t = "L" -> << <<"B", DH(h.v)>> >>
              [] h.t = "E" -> << <<"T", h.n>> >>
              [] h.t = "B" -> BrWants(h, 0) \o (IF h.v = NoVal THEN <<>> ELSE << <<"B", DH(h.v)>> >>)
\* every entry of the complete state
RECURSIVE Entries(_)
Entries(n) == IF n = Nil THEN {}
              ELSE {<<"T", n>>} \cup
                   (CASE n.t = "L" -> {<<"B", DH(n.v)>>}
                      [] n.t = "E" -> Entries(n.n)
                      [] n.t = "B" -> UNION {Entries(n.c[i]) : i \in 0..W-1} \cup (IF n.v = NoVal THEN {} ELSE {<<"B", DH(n.v)>>}))
Target == Entries(Root)
\* every (bucket, hash) pair counts: a hash wanted in both buckets must be stored in both

ReqIdx(rs, h) == {i \in 1..Len(rs) : rs[i].h = h}
\* RequestData(bucket, h) while serving the request at position mark: [rs, mark]
Request(rs, st, mark, w) ==
  IF w \in st THEN [rs |-> rs, mark |-> mark]                                      \* present locally (realize succeeds)
  ELSE IF ReqIdx(rs, w[2]) # {} THEN
       LET i == CHOOSE x \in ReqIdx(rs, w[2]) : TRUE IN
       [rs |-> [rs EXCEPT ![i].b = Append(@, w[1])], mark |-> mark]                \* one more requester
  ELSE [rs |-> SubSeq(rs, 1, mark) \o <<[h |-> w[2], b |-> <<w[1]>>]>> \o SubSeq(rs, mark + 1, Len(rs)),
        mark |-> mark + 1]                                                         \* InsertAfter(onDataMark)
RECURSIVE RequestAll(_, _, _, _)
RequestAll(rs, st, mark, ws) == IF ws = <<>> THEN [rs |-> rs, mark |-> mark]
                                ELSE LET r == Request(rs, st, mark, Head(ws)) IN RequestAll(r.rs, st, r.mark, Tail(ws))
\* OnData for the request at position i: every requester stores and resolves, in turn
RECURSIVE Serve(_, _, _, _, _)
Serve(rs, st, mark, h, bs) ==          \* bs = remaining requester buckets
  IF bs = <<>> THEN [rs |-> rs, st |-> st]
  ELSE LET st1 == st \cup {<<Head(bs), h>>}                  \* written into the bucket of THIS requester
           \* a trie-node requester resolves the children, an object requester (bucket "B") just keeps its data
           r == RequestAll(rs, st1, mark, IF Head(bs) = "T" THEN Wants(h) ELSE <<>>)
       IN Serve(r.rs, st1, r.mark, h, Tail(bs))
OnData(i) == LET h == reqs[i].h
                 r == Serve(reqs, store, i, h, reqs[i].b)
             IN [rs |-> SubSeq(r.rs, 1, i - 1) \o SubSeq(r.rs, i + 1, Len(r.rs)), st |-> r.st]

-----------------------------------------------------------------------------
Log(r) == /\ nops' = IF MaxOps = 0 THEN 0 ELSE nops + 1
          /\ hist' = IF HistOn THEN Append(hist, r @@ [unres |-> Len(reqs'), nstored |-> Cardinality(store'),
                                                       ntarget |-> Cardinality(Target), done |-> reqs' = <<>>,
                                                       complete |-> Target \subseteq store'])
                     ELSE hist
MapArr == [i \in 1..NK |-> m[KeyList[i]]]
Init == /\ m \in [Keys -> Vals \cup {NoVal}] /\ PairsOf(m) # {}
        /\ reqs = <<[h |-> Canon(PairsOf(m)), b |-> <<"T">>]>>       \* Resolve() on the unknown root
        /\ store = {} /\ nops = 0
        /\ hist = IF HistOn THEN <<[op |-> "init", i |-> 0, keys |-> KeyList, w |-> W, map |-> [i \in 1..NK |-> m[KeyList[i]]],
                                    alias |-> IF AliasOK THEN [v |-> AliasVal, k |-> CHOOSE i \in 1..NK : KeyList[i] = AliasKey] ELSE [v |-> 0, k |-> 0],
                                    unres |-> 1, nstored |-> 0, ntarget |-> Cardinality(Entries(Canon(PairsOf(m)))),
                                    done |-> FALSE, complete |-> FALSE]>> ELSE <<>>
Can == MaxOps = 0 \/ nops < MaxOps
\* the peer answers the i-th outstanding request
Deliver(i) == LET r == OnData(i) IN
              /\ reqs' = r.rs /\ store' = r.st /\ UNCHANGED m
              /\ Log([op |-> "deliver", i |-> i, res |-> "ok"])
\* data that was already delivered arrives again
DeliverDup == /\ store # {} /\ UNCHANGED <<m, reqs, store>>
              /\ Log([op |-> "dup", i |-> 0, res |-> "norequester"])
\* a payload nobody asked for: forged bytes ...
DeliverForged == /\ UNCHANGED <<m, reqs, store>>
                 /\ Log([op |-> "forged", i |-> 0, res |-> "norequester"])
\* ... or a genuine entry of the target that is not requested (yet)
Early == {e \in Target : e \notin store /\ ReqIdx(reqs, e[2]) = {}}
DeliverEarly == /\ Early # {} /\ UNCHANGED <<m, reqs, store>>
                /\ Log([op |-> "early", i |-> Cardinality(Early), res |-> "norequester"])
Next == \/ \E i \in 1..Len(reqs) : Can /\ Deliver(i)
        \/ Can /\ DeliverDup
        \/ Can /\ DeliverForged
        \/ Can /\ DeliverEarly
Spec == Init /\ [][Next]_vars

-----------------------------------------------------------------------------
(* C20 *)
\* nothing but requested data of the trusted state is ever stored
StoredIsTarget == store \subseteq Target
\* no outstanding requests exactly when the local store holds the complete state
DoneIffComplete == (reqs = <<>>) <=> (Target \subseteq store)
\* bookkeeping: one request per hash, requests are for missing target data, and whatever a stored node
\* needs is stored or requested (what makes "no requests" mean "complete")
RequestsSane == /\ \A i, j \in 1..Len(reqs) : reqs[i].h = reqs[j].h => i = j
                /\ \A i \in 1..Len(reqs) : \E b \in {"T", "B"} : <<b, reqs[i].h>> \in Target \ store
Closed == \A e \in {x \in store : x[1] = "T"} : \A j \in 1..Len(Wants(e[2])) :
             LET w == Wants(e[2])[j] IN w \in store \/ ReqIdx(reqs, w[2]) # {}
\* every delivery of a requested payload makes progress
Progress == [][(reqs' # reqs) => (Cardinality(store') > Cardinality(store))]_vars
=============================================================================
