---- MODULE MC_MTA ----
EXTENDS MTA
ViewNoHist == <<st, disk, last, nops>>
====
