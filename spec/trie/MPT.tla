------------------------------- MODULE MPT -------------------------------
(* Merkle Patricia trie of common/trie/ompt (C17 canonical map, C18 proofs).

   The module carries BOTH the abstract map `kv` and the node structure `trie` that the
   transcribed leaf/extension/branch set and delete operations (leaf.go, extension.go,
   branch.go, including the collapse rules of delete) build from the call history.
   Independent definitions say what the structure has to be: Canon(map) (the unique
   canonical trie of a map), the sorted pair list, the pairs under a prefix.  On top of the
   structure the read paths are transcribed as well: get, the iterator (ordered
   traversal), Filter (prefix traversal with its short-prefix test), the RLP size model
   that decides which nodes are hashed and which are embedded in their parent
   (len(serialized) > 32, root always), getProof (hashed nodes on the path) and prove
   (verifier walking from the root hash, every hashed link must be matched by the next
   proof element).  Hashes are symbolic and injective: the hash of a node is the node term.

   One action per public call of trie.Mutable / trie.Snapshot / trie.Immutable:
   Set, Delete, GetSnapshot (into a slot), Reset(slot), Flush(slot), Reload(slot) =
   NewMutable(db, hash of a flushed snapshot), ClearCache, and Check(slot) = the read-only
   calls (Get, Hash, Iterator, Filter, GetProof, Prove) on an older snapshot. *)
EXTENDS Integers, Sequences, FiniteSets, TLC
CONSTANTS W,          \* nibble alphabet 0..W-1 (real branches have 16 slots, see SerSize)
          KeyList,    \* key universe as a sequence of nibble strings (even lengths = whole bytes)
          PrefixList, \* prefixes used for Filter
          Vals,       \* abstract values 1..n
          VLen,       \* VLen[v] = byte length of value v (>= 2, < 56) -- decides hashed/embedded
          MaxOps,     \* bound on the history length (0 = unbounded)
          MaxSnaps,   \* number of snapshot slots
          HistOn      \* record the call history (generator) or not (exhaustive checker)
VARIABLES kv,         \* [Keys -> Vals \cup {NoVal}] contents of the mutable trie
          trie,       \* node structure of the mutable trie
          snaps,      \* slots: [kv, trie, fl] fl = flushed to the database
          nops,       \* number of calls so far
          hist
vars == <<kv, trie, snaps, nops, hist>>

NK == Len(KeyList)
Keys == {KeyList[i] : i \in 1..NK}
NoVal == 0
Nil == [t |-> "N"]
Leaf(k, v) == [t |-> "L", k |-> k, v |-> v]
Ext(k, n) == [t |-> "E", k |-> k, n |-> n]
EmptyBr == [t |-> "B", c |-> [i \in 0..W-1 |-> Nil], v |-> NoVal]
Rest(s, i) == SubSeq(s, i, Len(s))          \* s[i..]
RECURSIVE CommonLen(_, _)
CommonLen(a, b) == IF a = <<>> \/ b = <<>> \/ a[1] # b[1] THEN 0 ELSE 1 + CommonLen(Tail(a), Tail(b))
StartsWith(s, p) == Len(p) <= Len(s) /\ SubSeq(s, 1, Len(p)) = p

-----------------------------------------------------------------------------
(* transcription of leaf/extension/branch.set *)
RECURSIVE SetN(_, _, _)
SetN(n, keys, o) ==
  CASE n.t = "N" -> Leaf(keys, o)
    [] n.t = "L" ->
        LET cnt == CommonLen(keys, n.k)  match == (keys = n.k) IN
        IF cnt = 0 /\ ~match THEN
           LET b1 == IF keys = <<>> THEN [EmptyBr EXCEPT !.v = o]
                     ELSE [EmptyBr EXCEPT !.c[keys[1]] = Leaf(Tail(keys), o)]
           IN IF n.k = <<>> THEN [b1 EXCEPT !.v = n.v]
              ELSE [b1 EXCEPT !.c[n.k[1]] = Leaf(Tail(n.k), n.v)]
        ELSE IF cnt < Len(n.k) THEN
           LET b1 == IF cnt = Len(keys) THEN [EmptyBr EXCEPT !.v = o]
                     ELSE [EmptyBr EXCEPT !.c[keys[cnt+1]] = Leaf(Rest(keys, cnt+2), o)]
               b2 == [b1 EXCEPT !.c[n.k[cnt+1]] = Leaf(Rest(n.k, cnt+2), n.v)]
           IN Ext(SubSeq(keys, 1, cnt), b2)
        ELSE IF cnt < Len(keys) THEN
           Ext(n.k, [[EmptyBr EXCEPT !.v = n.v] EXCEPT !.c[keys[cnt+1]] = Leaf(Rest(keys, cnt+2), o)])
        ELSE Leaf(n.k, o)
    [] n.t = "E" ->
        LET cnt == CommonLen(keys, n.k) IN
        IF cnt = 0 THEN
           LET b1 == IF keys = <<>> THEN [EmptyBr EXCEPT !.v = o]
                     ELSE [EmptyBr EXCEPT !.c[keys[1]] = Leaf(Tail(keys), o)]
           IN IF Len(n.k) = 1 THEN [b1 EXCEPT !.c[n.k[1]] = n.n]
              ELSE [b1 EXCEPT !.c[n.k[1]] = Ext(Tail(n.k), n.n)]
        ELSE IF cnt < Len(n.k) THEN
           LET idx == n.k[cnt+1]
               b1 == IF cnt + 1 = Len(n.k) THEN [EmptyBr EXCEPT !.c[idx] = n.n]
                     ELSE [EmptyBr EXCEPT !.c[idx] = Ext(Rest(n.k, cnt+2), n.n)]
               b2 == IF cnt = Len(keys) THEN [b1 EXCEPT !.v = o]
                     ELSE [b1 EXCEPT !.c[keys[cnt+1]] = Leaf(Rest(keys, cnt+2), o)]
           IN Ext(SubSeq(n.k, 1, cnt), b2)
        ELSE Ext(n.k, SetN(n.n, Rest(keys, cnt+1), o))
    [] n.t = "B" ->
        IF keys = <<>> THEN [n EXCEPT !.v = o]
        ELSE [n EXCEPT !.c[keys[1]] = SetN(n.c[keys[1]], Tail(keys), o)]

(* transcription of delete with the collapse rules *)
Normalize(br) ==
  LET live == {i \in 0..W-1 : br.c[i] # Nil} IN
  IF Cardinality(live) > 1 THEN br
  ELSE IF live = {} THEN Leaf(<<>>, br.v)
  ELSE IF br.v # NoVal THEN br
  ELSE LET idx == CHOOSE i \in live : TRUE  alive == br.c[idx] IN
       CASE alive.t = "E" -> Ext(<<idx>> \o alive.k, alive.n)
         [] alive.t = "B" -> Ext(<<idx>>, alive)
         [] alive.t = "L" -> Leaf(<<idx>> \o alive.k, alive.v)
RECURSIVE DelN(_, _)
DelN(n, keys) ==
  CASE n.t = "N" -> Nil
    [] n.t = "L" -> IF keys = n.k THEN Nil ELSE n
    [] n.t = "E" ->
        LET cnt == CommonLen(keys, n.k) IN
        IF cnt < Len(n.k) THEN n
        ELSE LET next == DelN(n.n, Rest(keys, cnt+1)) IN
             IF next = n.n THEN n
             ELSE (CASE next.t = "N" -> Nil
                    [] next.t = "E" -> Ext(n.k \o next.k, next.n)
                    [] next.t = "L" -> Leaf(n.k \o next.k, next.v)
                    [] next.t = "B" -> Ext(n.k, next))
    [] n.t = "B" ->
        IF keys = <<>> THEN (IF n.v = NoVal THEN n ELSE Normalize([n EXCEPT !.v = NoVal]))
        ELSE LET child == n.c[keys[1]] IN
             IF child = Nil THEN n
             ELSE LET nchild == DelN(child, Tail(keys)) IN
                  IF nchild = child THEN n ELSE Normalize([n EXCEPT !.c[keys[1]] = nchild])

(* transcription of get *)
RECURSIVE GetN(_, _)
GetN(n, keys) ==
  CASE n.t = "N" -> NoVal
    [] n.t = "L" -> IF keys = n.k THEN n.v ELSE NoVal
    [] n.t = "E" -> IF CommonLen(keys, n.k) < Len(n.k) THEN NoVal ELSE GetN(n.n, Rest(keys, Len(n.k) + 1))
    [] n.t = "B" -> IF keys = <<>> THEN n.v ELSE GetN(n.c[keys[1]], Tail(keys))

(* transcription of the iterator: depth first, branch value before its children, children
   in ascending nibble order (they are pushed 15..0 on a stack) *)
RECURSIVE IterN(_, _), IterCh(_, _, _)
IterCh(n, path, i) == IF i = W THEN <<>> ELSE IterN(n.c[i], Append(path, i)) \o IterCh(n, path, i + 1)
IterN(n, path) ==
  CASE n.t = "N" -> <<>>
    [] n.t = "L" -> << <<path \o n.k, n.v>> >>
    [] n.t = "E" -> IterN(n.n, path \o n.k)
    [] n.t = "B" -> (IF n.v = NoVal THEN <<>> ELSE << <<path, n.v>> >>) \o IterCh(n, path, 0)

(* transcription of Filter: iterator.traverse/filterItem/checkPrefix *)
Compatible(k, pfx) == IF Len(k) < Len(pfx) THEN StartsWith(pfx, k) ELSE StartsWith(k, pfx)
RECURSIVE FilterN(_, _, _), FilterCh(_, _, _, _)
FilterCh(n, path, pfx, i) ==
  IF i = W THEN <<>>
  ELSE (IF n.c[i] # Nil /\ Compatible(Append(path, i), pfx) THEN FilterN(n.c[i], Append(path, i), pfx) ELSE <<>>)
       \o FilterCh(n, path, pfx, i + 1)
FilterN(n, path, pfx) ==
  IF StartsWith(path, pfx) THEN IterN(n, path)
  ELSE CASE n.t = "N" -> <<>>
         [] n.t = "L" -> IF StartsWith(path \o n.k, pfx) THEN << <<path \o n.k, n.v>> >> ELSE <<>>
         [] n.t = "E" -> IF Compatible(path \o n.k, pfx) THEN FilterN(n.n, path \o n.k, pfx) ELSE <<>>
         [] n.t = "B" -> FilterCh(n, path, pfx, 0)

-----------------------------------------------------------------------------
(* RLP size model: which nodes are stored by hash and which are embedded in the parent *)
StrSize(len, lit) == IF len = 1 /\ lit THEN 1 ELSE IF len < 56 THEN 1 + len ELSE 2 + len
ListSize(p) == IF p < 56 THEN 1 + p ELSE IF p < 256 THEN 2 + p ELSE 3 + p
KeyEnc(k) == StrSize(Len(k) \div 2 + 1, TRUE)       \* compact key encoding, first byte < 0x80
ValEnc(v) == IF v = NoVal THEN 1 ELSE StrSize(VLen[v], FALSE)
RECURSIVE SerSize(_), SumLinks(_, _)
LinkSize(n) == IF n = Nil THEN 1 ELSE IF SerSize(n) > 32 THEN 33 ELSE SerSize(n)
SumLinks(n, i) == IF i = W THEN 0 ELSE LinkSize(n.c[i]) + SumLinks(n, i + 1)
SerSize(n) ==
  CASE n.t = "L" -> ListSize(KeyEnc(n.k) + ValEnc(n.v))
    [] n.t = "E" -> ListSize(KeyEnc(n.k) + LinkSize(n.n))
    [] n.t = "B" -> ListSize(SumLinks(n, 0) + (16 - W) + ValEnc(n.v))
Hashed(n) == SerSize(n) > 32          \* the root is hashed in any case

(* transcription of getProof: the serialized hashed nodes on the path; ok = FALSE is the nil
   result of a key that leaves the trie (absent child, diverging extension or leaf) *)
NoProof == [ok |-> FALSE, p |-> <<>>]
RECURSIVE ProofN(_, _, _)
ProofN(n, keys, root) ==
  LET self == IF root \/ Hashed(n) THEN <<n>> ELSE <<>>
      Sub(child, rest) == LET r == ProofN(child, rest, FALSE) IN
                          IF r.ok THEN [ok |-> TRUE, p |-> self \o r.p] ELSE NoProof
  IN CASE n.t = "L" -> IF keys = n.k THEN [ok |-> TRUE, p |-> self] ELSE NoProof
       [] n.t = "E" -> IF CommonLen(n.k, keys) < Len(n.k) THEN NoProof ELSE Sub(n.n, Rest(keys, Len(n.k) + 1))
       [] n.t = "B" -> IF keys = <<>> THEN [ok |-> TRUE, p |-> self]
                       ELSE IF n.c[keys[1]] = Nil THEN NoProof ELSE Sub(n.c[keys[1]], Tail(keys))
GetProof(t, k) == IF t = Nil THEN NoProof ELSE ProofN(t, k, TRUE)

(* transcription of prove.  The verifier follows links: a hashed link must be matched by the
   next proof element (hash.prove: calcHash(items[0]) = h; node.prove: items[0] = serialized),
   the node content is taken from that element; an embedded node consumes nothing.
   Result: [r |-> "ok", v |-> value or NoVal, left |-> unused proof elements] or
   [r |-> "illegal" | "notfound"] *)
Rej(why) == [r |-> why, v |-> NoVal, left |-> 0]
RECURSIVE ProveN(_, _, _, _)
ProveN(n, keys, proof, root) ==
  LET hashed == root \/ Hashed(n)
      bad == hashed /\ (Len(proof) < 1 \/ proof[1] # n \/ (n.t = "L" /\ Len(proof) # 1))
      rest == IF hashed THEN Tail(proof) ELSE proof
  IN IF bad THEN Rej("illegal")
     ELSE CASE n.t = "L" -> IF keys = n.k THEN [r |-> "ok", v |-> n.v, left |-> Len(rest)] ELSE Rej("notfound")
            [] n.t = "E" -> IF CommonLen(n.k, keys) < Len(n.k) THEN Rej("notfound")
                            ELSE ProveN(n.n, Rest(keys, Len(n.k) + 1), rest, FALSE)
            [] n.t = "B" -> IF keys = <<>> THEN [r |-> "ok", v |-> n.v, left |-> Len(rest)]
                            ELSE IF n.c[keys[1]] = Nil THEN Rej("notfound")
                            ELSE ProveN(n.c[keys[1]], Tail(keys), rest, FALSE)
Prove(t, k, proof) == IF t = Nil THEN Rej("illegal") ELSE ProveN(t, k, proof, TRUE)

-----------------------------------------------------------------------------
(* independent definitions: what the structure and the read results have to be *)
RECURSIVE Canon(_), LCP(_)
Strip(S, n) == {<<Rest(p[1], n + 1), p[2]>> : p \in S}
LCP(S) == LET ks == {p[1] : p \in S} IN
          IF \E k \in ks : k = <<>> THEN 0
          ELSE IF Cardinality({k[1] : k \in ks}) > 1 THEN 0
          ELSE 1 + LCP(Strip(S, 1))
CanonBr(S) == [t |-> "B",
               c |-> [i \in 0..W-1 |->
                       LET Si == {p \in S : p[1] # <<>> /\ p[1][1] = i} IN
                       IF Si = {} THEN Nil ELSE Canon(Strip(Si, 1))],
               v |-> IF \E p \in S : p[1] = <<>> THEN (CHOOSE p \in S : p[1] = <<>>)[2] ELSE NoVal]
Canon(S) == IF S = {} THEN Nil
            ELSE IF Cardinality(S) = 1 THEN LET p == CHOOSE q \in S : TRUE IN Leaf(p[1], p[2])
            ELSE LET l == LCP(S) IN
                 IF l = 0 THEN CanonBr(S)
                 ELSE LET k == (CHOOSE q \in S : TRUE)[1] IN Ext(SubSeq(k, 1, l), CanonBr(Strip(S, l)))
PairsOf(m) == {<<k, m[k]>> : k \in {x \in Keys : m[x] # NoVal}}

RECURSIVE LexLess(_, _)
LexLess(a, b) == IF a = <<>> THEN b # <<>>
                 ELSE IF b = <<>> THEN FALSE
                 ELSE IF a[1] # b[1] THEN a[1] < b[1] ELSE LexLess(Tail(a), Tail(b))
RECURSIVE SortPairs(_)
SortPairs(S) == IF S = {} THEN <<>>
                ELSE LET mn == CHOOSE p \in S : \A q \in S \ {p} : LexLess(p[1], q[1])
                     IN <<mn>> \o SortPairs(S \ {mn})
Sorted(m) == SortPairs(PairsOf(m))
SortedWith(m, pfx) == SortPairs({p \in PairsOf(m) : StartsWith(p[1], pfx)})

\* tampered variants of a proof p (C18); Bad stands for an element with altered bytes
Bad == [t |-> "X"]
Alter(p, i) == [p EXCEPT ![i] = Bad]
Drop(p, i) == SubSeq(p, 1, i - 1) \o SubSeq(p, i + 1, Len(p))
Dup(p, i) == SubSeq(p, 1, i) \o SubSeq(p, i, Len(p))

-----------------------------------------------------------------------------
(* history records (generator).  Keys travel as indices into KeyList, maps as value arrays *)
KeyIdx(k) == CHOOSE i \in 1..NK : KeyList[i] = k
MapArr(m) == [i \in 1..NK |-> m[KeyList[i]]]
PairArr(ps) == [i \in 1..Len(ps) |-> <<KeyIdx(ps[i][1]), ps[i][2]>>]
RECURSIVE Shape(_)
Shape(n) ==
  CASE n.t = "N" -> [t |-> "N"]
    [] n.t = "L" -> [t |-> "L", k |-> n.k, v |-> n.v, h |-> Hashed(n)]
    [] n.t = "E" -> [t |-> "E", k |-> n.k, n |-> Shape(n.n), h |-> Hashed(n)]
    [] n.t = "B" -> [t |-> "B", c |-> [i \in 1..W |-> Shape(n.c[i - 1])], v |-> n.v, h |-> Hashed(n)]
\* verdict code of a prove result: value (>= 1) accepted, 0 accepted without value, -1 rejected
Code(r) == IF r.r = "ok" THEN r.v ELSE -1
Tamp(t, k, kind, i, p) == LET r == Prove(t, k, p) IN
                          [kind |-> kind, i |-> i, r |-> Code(r), left |-> r.left, why |-> r.r]
\* oj = index of another slot with different contents (0 = none), ot = its structure
ProofRec(t, k, oj, ot) ==
  LET g == GetProof(t, k)
      n == Len(g.p)
      r == Prove(t, k, g.p)
  IN [k |-> KeyIdx(k), ok |-> g.ok, n |-> n, r |-> Code(r), why |-> r.r,
      tam |-> [i \in 1..n |-> Tamp(t, k, "alter", i, Alter(g.p, i))]
              \o [i \in 1..n |-> Tamp(t, k, "drop", i, Drop(g.p, i))]
              \o [i \in 1..n |-> Tamp(t, k, "dup", i, Dup(g.p, i))]
              \o (IF oj = 0 THEN <<>> ELSE <<Tamp(t, k, "other", oj, GetProof(ot, k).p)>>),
      \* the proof of k presented for another key
      xk |-> [j \in 1..NK |-> Code(Prove(t, KeyList[j], g.p))]]
\* everything a reader can observe of an immutable trie with structure t
Obs(t, oj, ot) ==
  [it |-> PairArr(IterN(t, <<>>)),
   flt |-> [j \in 1..Len(PrefixList) |-> PairArr(FilterN(t, <<>>, PrefixList[j]))],
   shape |-> Shape(t),
   pf |-> [i \in 1..NK |-> ProofRec(t, KeyList[i], oj, ot)]]
\* the history keeps the raw structures (o); Render computes the observation when a behaviour is printed
NoObs == <<>>
RawObs(t, s, m) == LET S == {j \in 1..MaxSnaps : j # s /\ snaps[j].kv # m}
                       j == IF S = {} THEN 0 ELSE CHOOSE x \in S : TRUE
                   IN <<t, j, IF j = 0 THEN Nil ELSE snaps[j].trie>>
Rec(op, k, v, s, res, o) ==
  [op |-> op, k |-> k, v |-> v, vl |-> IF v = NoVal THEN 0 ELSE VLen[v], s |-> s, res |-> res, o |-> o]
Render(r) == [op |-> r.op, k |-> r.k, v |-> r.v, vl |-> r.vl, s |-> r.s, res |-> r.res, m |-> r.m, sm |-> r.sm,
              sf |-> r.sf, obs |-> IF r.o = <<>> THEN [it |-> <<>>] ELSE Obs(r.o[1], r.o[2], r.o[3])]
Log(r) == /\ nops' = IF MaxOps = 0 THEN 0 ELSE nops + 1
          /\ hist' = IF HistOn
                     THEN Append(hist, r @@ [m |-> MapArr(kv'), sm |-> [i \in 1..MaxSnaps |-> MapArr(snaps'[i].kv)],
                                            sf |-> [i \in 1..MaxSnaps |-> snaps'[i].fl]])
                     ELSE hist

-----------------------------------------------------------------------------
EmptyMap == [k \in Keys |-> NoVal]
Init == /\ kv = EmptyMap /\ trie = Nil
        /\ snaps = [i \in 1..MaxSnaps |-> [kv |-> EmptyMap, trie |-> Nil, fl |-> FALSE]]
        /\ nops = 0 /\ hist = <<>>

Set(k, v) == /\ kv' = [kv EXCEPT ![k] = v] /\ trie' = SetN(trie, k, v)
             /\ UNCHANGED snaps
             /\ Log(Rec("set", KeyIdx(k), v, 0, kv[k], NoObs))            \* returns the old value
Del(k) == /\ kv' = [kv EXCEPT ![k] = NoVal] /\ trie' = DelN(trie, k)
          /\ UNCHANGED snaps
          /\ Log(Rec("del", KeyIdx(k), NoVal, 0, kv[k], NoObs))
Snap(s) == /\ snaps' = [snaps EXCEPT ![s] = [kv |-> kv, trie |-> trie, fl |-> FALSE]]
           /\ UNCHANGED <<kv, trie>>
           /\ Log(Rec("snap", 1, NoVal, s, 0, RawObs(trie, s, kv)))
\* GetSnapshot without asking the snapshot for anything (no Hash, no proof, no read): its nodes are frozen but not hashed when
\* the mutable trie is written next; the snapshot is looked at later (Check / Look)
SnapLazy(s) == /\ snaps' = [snaps EXCEPT ![s] = [kv |-> kv, trie |-> trie, fl |-> FALSE]]
               /\ UNCHANGED <<kv, trie>>
               /\ Log(Rec("snaplazy", 0, NoVal, s, 0, NoObs))
\* ord: which kind of read meets the trie first (1 Get, 2 Iterator, 3 Filter, 4 GetProof).  The results do not depend on
\* it; on a reloaded or cache-cleared trie the first read is the one that realizes the nodes from the database.
Check(s, ord) == /\ UNCHANGED <<kv, trie, snaps>>
                 /\ Log(Rec("check", ord, NoVal, s, 0, RawObs(snaps[s].trie, s, snaps[s].kv)))
\* read every key of the mutable trie and of every snapshot (the predicted contents travel with every record)
Look == /\ UNCHANGED <<kv, trie, snaps>>
        /\ Log(Rec("look", 0, NoVal, 0, 0, NoObs))
Reset(s) == /\ kv' = snaps[s].kv /\ trie' = snaps[s].trie
            /\ UNCHANGED snaps
            /\ Log(Rec("reset", 0, NoVal, s, 0, NoObs))
Flush(s) == /\ snaps' = [snaps EXCEPT ![s].fl = TRUE]
            /\ UNCHANGED <<kv, trie>>
            /\ Log(Rec("flush", 0, NoVal, s, 0, NoObs))
\* a new mutable (and a new immutable, observed) built from the root hash of a flushed snapshot
Reload(s, ord) == /\ snaps[s].fl
             /\ kv' = snaps[s].kv /\ trie' = snaps[s].trie
             /\ UNCHANGED snaps
             /\ Log(Rec("reload", ord, NoVal, s, 0, RawObs(snaps[s].trie, s, snaps[s].kv)))
ClearCache(s) == /\ UNCHANGED <<kv, trie, snaps>>          \* s = 0: the mutable, else snapshot s
                 /\ Log(Rec("clear", 0, NoVal, s, 0, NoObs))

Can == MaxOps = 0 \/ nops < MaxOps
Next == \/ \E k \in Keys, v \in Vals : Can /\ Set(k, v)
        \/ \E k \in Keys : Can /\ Del(k)
        \/ \E s \in 1..MaxSnaps : Can /\ Snap(s)
        \/ \E s \in 1..MaxSnaps, ord \in 1..4 : Can /\ Check(s, ord)
        \/ Can /\ HistOn /\ Look
        \/ \E s \in 1..MaxSnaps : Can /\ HistOn /\ SnapLazy(s)
        \/ \E s \in 1..MaxSnaps : Can /\ Reset(s)
        \/ \E s \in 1..MaxSnaps : Can /\ Flush(s)
        \/ \E s \in 1..MaxSnaps, ord \in 1..4 : Can /\ Reload(s, ord)
        \/ \E s \in 0..MaxSnaps : Can /\ ClearCache(s)
Spec == Init /\ [][Next]_vars

-----------------------------------------------------------------------------
(* C17 *)
WellFormed(t, m) ==
  /\ t = Canon(PairsOf(m))                                     \* shape (hence root hash) is a function of the map
  /\ \A k \in Keys : GetN(t, k) = m[k]                         \* lookups return the last written value
  /\ IterN(t, <<>>) = Sorted(m)                                \* iteration: exactly the pairs, ascending
  /\ \A j \in 1..Len(PrefixList) :
        FilterN(t, <<>>, PrefixList[j]) = SortedWith(m, PrefixList[j])
Canonical == WellFormed(trie, kv) /\ \A s \in 1..MaxSnaps : WellFormed(snaps[s].trie, snaps[s].kv)
\* two different maps never share a root (injectivity of the symbolic hash of canonical tries)
RootInjective == \A s \in 1..MaxSnaps : (snaps[s].trie = trie) <=> (snaps[s].kv = kv)
\* snapshots are values: only Snap(s)/Flush(s) change slot s
SnapshotsStable == [][\A s \in 1..MaxSnaps :
                        snaps'[s].kv # snaps[s].kv => (snaps'[s].kv = kv /\ snaps'[s].trie = trie)]_vars

(* C18 *)
ProofsOK(t, m) ==
  \A k \in Keys :
    LET g == GetProof(t, k)  r == Prove(t, k, g.p) IN
    /\ (m[k] # NoVal) => (g.ok /\ r.r = "ok" /\ r.v = m[k] /\ r.left = 0)     \* complete
    /\ (m[k] = NoVal) => (Code(r) <= 0)                                         \* absent keys never yield a value
    /\ (m[k] = NoVal /\ g.ok) => (r.r = "ok" /\ r.v = NoVal)                    \* ... only the valueless branch case has a proof
    /\ g.ok => /\ Len(g.p) >= 1
               /\ \A i \in 1..Len(g.p) :
                     /\ Prove(t, k, Alter(g.p, i)).r # "ok"                     \* altered path element rejected
                     /\ Prove(t, k, Drop(g.p, i)).r # "ok"                      \* missing path element rejected
               \* whatever is accepted for any key with this proof is the stored value of that key
               /\ \A k2 \in Keys : LET r2 == Prove(t, k2, g.p) IN r2.r = "ok" => r2.v = m[k2]
    /\ Prove(t, k, <<>>).r # "ok"
ProofsSound == ProofsOK(trie, kv)
\* a proof taken from a different root is rejected
OtherRootRejected ==
  \A s \in 1..MaxSnaps : snaps[s].kv # kv =>
     \A k \in Keys : LET g == GetProof(snaps[s].trie, k) IN g.ok => Prove(trie, k, g.p).r # "ok"
=============================================================================
