SPECIFICATION Spec
CONSTANTS
  W = 2
  KeyList <- SK6
  Vals = {1, 2, 3}
  MaxOps = 40
  Depth = 41
  AliasVal = 3
  AliasKey <- AK
  HistOn = TRUE
INVARIANT Emit
