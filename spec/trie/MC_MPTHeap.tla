---- MODULE MC_MPTHeap ----
EXTENDS MC_MPT, MPTHeap
====
