---- MODULE Gen_MPT ----
EXTENDS MC_MPT, Json
CONSTANTS Depth,
          InitFlushed, \* BOOLEAN: slot 1 starts as a flushed snapshot of the initial contents
          InitArr     \* contents the trie starts with (values aligned with KeyList; all 0 = empty): directed generators start
                      \* from a populated trie so that short histories reach flushed / reloaded / cache-cleared structures
\* a behaviour travels with the key universe it is about; observations are rendered at print time
Emit == (Len(hist) = Depth) =>
          PrintT(<<"B", ToJson([w |-> W, keys |-> KeyList, prefixes |-> PrefixList, init |-> InitArr, initfl |-> InitFlushed, vlen |-> VLen,
                                steps |-> [i \in 1..Len(hist) |-> Render(hist[i])]])>>)
GInit == /\ kv = [k \in Keys |-> InitArr[KeyIdx(k)]]
         /\ trie = Canon(PairsOf([k \in Keys |-> InitArr[KeyIdx(k)]]))
         /\ snaps = [i \in 1..MaxSnaps |->
                      IF InitFlushed /\ i = 1
                      THEN [kv |-> [k \in Keys |-> InitArr[KeyIdx(k)]], trie |-> Canon(PairsOf([k \in Keys |-> InitArr[KeyIdx(k)]])), fl |-> TRUE]
                      ELSE [kv |-> EmptyMap, trie |-> Nil, fl |-> FALSE]]
         /\ nops = 0 /\ hist = <<>>
\* directed alphabet: mutations (also the ones that change nothing: same value, absent key) and the persistence calls on one slot
DirNext == \/ \E k \in Keys, v \in Vals : Can /\ Set(k, v)
           \/ \E k \in Keys : Can /\ Del(k)
           \/ Can /\ Snap(1)
           \/ Can /\ Flush(1)
           \/ Can /\ Reload(1, 1)
           \/ Can /\ ClearCache(0)
\* directed alphabet 2: snapshots that are not hashed before the next writes (values sitting in branch nodes: key <<0,0>> is a
\* proper prefix of two other keys of KL4), looked at afterwards
DirNext2 == \/ \E k \in Keys, v \in Vals : Can /\ Set(k, v)
            \/ \E k \in Keys : Can /\ Del(k)
            \/ Can /\ SnapLazy(1)
            \/ Can /\ Check(1, 1)
IA4b == <<2, 2, 1, 2>>
IA0 == [i \in 1..Len(KeyList) |-> 0]
IA4 == <<0, 2, 2, 2>>     \* 40-byte values: every node is stored by hash
====
