---- MODULE Gen_MPT ----
EXTENDS MC_MPT, Json
CONSTANT Depth
\* a behaviour travels with the key universe it is about; observations are rendered at print time
Emit == (Len(hist) = Depth) =>
          PrintT(<<"B", ToJson([w |-> W, keys |-> KeyList, prefixes |-> PrefixList,
                                steps |-> [i \in 1..Len(hist) |-> Render(hist[i])]])>>)
====
