SPECIFICATION Spec
CONSTANTS
  A = 16
  MaxLen = 600
  Vals = {1}
  MaxOps = 5
  Depth = 5
  Extras = FALSE
  HistOn = TRUE
  AddSizes = {1, 15, 16, 240}
  RewindPoints <- RPNone
INVARIANT Emit
