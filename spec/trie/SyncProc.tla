------------------------------ MODULE SyncProc ------------------------------
(* The sync processor of service/sync2/syncprocessor.go on top of the merkle builder of
   StateSync.tla (C20, one level higher).

   The processor keeps three pools of peers (ready, sent, checked).  Whenever there are
   outstanding requests and a ready peer, it packs the outstanding requests (at most 50 per
   pack: with the targets used here always ONE pack holding every outstanding request, in the
   order of the builder's list) and sends the pack to the first ready peer, which moves to the
   sent pool.  The answer of that peer (HandleData) is any list of payloads: each is given to
   Builder.OnData (unrequested or forged payloads are dropped there); a peer that answered
   with at least one payload goes back to the ready pool, a peer that answered with nothing
   goes to the checked pool and returns to the ready pool when its migration timer fires.
   After every pool change with an empty sent pool the processor sends again.  It finishes
   when the builder has no outstanding request.

   One action per event: Respond (answer of the peer in flight: any sub-list of the pack in
   either order, optionally preceded by a forged payload, or nothing), Late (an answer to a
   request that is no longer pending), Migrate (timer). *)
EXTENDS StateSync
CONSTANTS Peers          \* sequence of peer names; all joined before the sync starts
VARIABLES ready,         \* Seq(peer)
          flight,        \* <<>> or <<[p, pack]>>: the request in flight (pack = requested hashes)
          checked        \* set of peers waiting for their migration timer
pvars == <<m, reqs, store, nops, hist, ready, flight, checked>>

PackOf(rs) == [i \in 1..Len(rs) |-> rs[i].h]
\* the processor loop: send when something is outstanding, a peer is ready and nothing is in flight
Dispatch(rs, rd, fl) ==
  IF fl = <<>> /\ rs # <<>> /\ rd # <<>> THEN [ready |-> Tail(rd), flight |-> <<[p |-> Head(rd), pack |-> PackOf(rs)]>>]
  ELSE [ready |-> rd, flight |-> fl]

\* Builder.OnData for a list of payloads (hash terms; Forged is nobody's hash)
Forged == [t |-> "X"]
RECURSIVE Feed(_, _, _)
Feed(rs, st, items) ==      \* [rs, st]
  IF items = <<>> THEN [rs |-> rs, st |-> st]
  ELSE LET h == Head(items)
           idx == ReqIdx(rs, h) IN
       IF idx = {} THEN Feed(rs, st, Tail(items))                          \* ErrNoRequester: dropped
       ELSE LET i == CHOOSE x \in idx : TRUE
                r == Serve(rs, st, i, h, rs[i].b)
                rs2 == SubSeq(r.rs, 1, i - 1) \o SubSeq(r.rs, i + 1, Len(r.rs))
            IN Feed(rs2, r.st, Tail(items))

\* answers: a subset of the pack positions, ascending or descending, optionally a forged payload first
Ascending(S) == LET RECURSIVE Asc(_) Asc(T) == IF T = {} THEN <<>> ELSE LET x == CHOOSE y \in T : \A z \in T : y <= z IN <<x>> \o Asc(T \ {x}) IN Asc(S)
Reverse(s) == [i \in 1..Len(s) |-> s[Len(s) + 1 - i]]
PLog(r) == /\ nops' = IF MaxOps = 0 THEN 0 ELSE nops + 1
           /\ hist' = IF HistOn THEN Append(hist, r @@ [unres |-> Len(reqs'), nstored |-> Cardinality(store'),
                                                        done |-> reqs' = <<>>, complete |-> Target \subseteq store',
                                                        nextp |-> IF flight' = <<>> THEN "" ELSE flight'[1].p,
                                                        nextn |-> IF flight' = <<>> THEN 0 ELSE Len(flight'[1].pack)])
                      ELSE hist

PInit == /\ Init
         /\ ready = Tail(Peers) /\ checked = {}
         /\ flight = <<[p |-> Head(Peers), pack |-> PackOf(reqs)]>>
PCan == MaxOps = 0 \/ nops < MaxOps
Respond(S, desc, forged) ==
  /\ flight # <<>>
  /\ LET pk == flight[1].pack
         order == IF desc THEN Reverse(Ascending(S)) ELSE Ascending(S)
         items == (IF forged THEN <<Forged>> ELSE <<>>) \o [i \in 1..Len(order) |-> pk[order[i]]]
         r == Feed(reqs, store, items)
         rd == IF items = <<>> THEN ready ELSE Append(ready, flight[1].p)
         d == Dispatch(r.rs, rd, <<>>)
     IN /\ reqs' = r.rs /\ store' = r.st
        /\ checked' = IF items = <<>> THEN checked \cup {flight[1].p} ELSE checked
        /\ ready' = d.ready /\ flight' = d.flight
        /\ UNCHANGED m
        /\ PLog([op |-> "respond", p |-> flight[1].p, items |-> order, desc |-> desc, forged |-> forged])
\* an answer to a request that is not pending any more (duplicate / late)
Late == /\ UNCHANGED <<m, reqs, store, ready, flight, checked>>
        /\ PLog([op |-> "late", p |-> "", items |-> <<>>, desc |-> FALSE, forged |-> FALSE])
Migrate(p) == /\ p \in checked
              /\ LET d == Dispatch(reqs, Append(ready, p), flight) IN ready' = d.ready /\ flight' = d.flight
              /\ checked' = checked \ {p}
              /\ UNCHANGED <<m, reqs, store>>
              /\ PLog([op |-> "migrate", p |-> p, items |-> <<>>, desc |-> FALSE, forged |-> FALSE])
PNext == \/ \E S \in SUBSET (1..(IF flight = <<>> THEN 0 ELSE Len(flight[1].pack))), desc \in BOOLEAN, forged \in BOOLEAN :
              PCan /\ (S = {} => ~desc) /\ Respond(S, desc, forged)
         \/ PCan /\ store # {} /\ Late
         \/ \E p \in checked : PCan /\ Migrate(p)
PSpec == PInit /\ [][PNext]_pvars

-----------------------------------------------------------------------------
\* at most one request in flight; every peer is in exactly one place
PoolsSane == LET inflight == IF flight = <<>> THEN {} ELSE {flight[1].p} IN
  /\ \A i, j \in 1..Len(ready) : ready[i] = ready[j] => i = j
  /\ {ready[i] : i \in 1..Len(ready)} \cup inflight \cup checked = {Peers[i] : i \in 1..Len(Peers)}
  /\ Cardinality({ready[i] : i \in 1..Len(ready)}) + Cardinality(inflight) + Cardinality(checked) = Len(Peers)
\* the processor never sits on outstanding requests with an idle ready peer: somebody is asked or a timer is pending
NoStall == reqs # <<>> => (flight # <<>> \/ checked # {})
\* what is asked from a peer are exactly the outstanding requests (all of them target data)
PackIsOutstanding == flight # <<>> => \A i \in 1..Len(flight[1].pack) : \E b \in {"T", "B"} : <<b, flight[1].pack[i]>> \in Target
=============================================================================
