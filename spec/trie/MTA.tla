------------------------------- MODULE MTA -------------------------------
(* Merkle tree accumulator of common/trie/mta/accumulator.go (C27).

   Items are appended one by one; the accumulator keeps one root per set bit of the length
   (binary counter: slot k holds a perfect tree of 2^k items or is EMPTY).  This module is
   the design the property asks for: WitnessFor, Verify, Flush and Recover work for every
   length, i.e. also when root slots are empty.

   Hashes are symbolic.  The hash of item i is the term T(i,0); the hash of a branch whose
   children are T(lo,h) and T(lo+2^h,h) is T(lo,h+1) (definitional abbreviation of the
   nested pair), every other pair stays an explicit pair and never equals a T term.

   The calls are pure functions on a state record (AddF, FlushF, RecoverF, WitnessFor,
   Verify) so that the generator can also tabulate "accumulator of length L" directly;
   the actions of the state machine apply them. *)
EXTENDS Integers, Sequences, FiniteSets, TLC
CONSTANTS MaxLen, MaxOps, HistOn,
          Kinds      \* how items may be added: subset of {"d" (AddData), "h" (AddHash)}
VARIABLES st,       \* [n, roots, refs]  the accumulator object in memory
          disk,     \* [stored, pers]    the bucket: stored node/data hashes and the persisted roots record
          last,     \* [has, w]: witness returned by AddData if that was the most recent call
          nops, hist
vars == <<st, disk, last, nops, hist>>

None == [lo |-> -1, h |-> -1]                 \* empty root slot
T(lo, h) == [lo |-> lo, h |-> h]
IsT(x) == DOMAIN x = {"lo", "h"} /\ x # None
Pow2(k) == 2 ^ k
\* hash of a branch with children l, r
Mk(l, r) == IF IsT(l) /\ IsT(r) /\ l.h = r.h /\ l.lo + Pow2(l.h) = r.lo THEN T(l.lo, l.h + 1)
            ELSE [l |-> l, r |-> r]
LeftOf(t) == T(t.lo, t.h - 1)
RightOf(t) == T(t.lo + Pow2(t.h - 1), t.h - 1)
W(d, t) == [d |-> d, t |-> t]                 \* witness element: sibling hash t on side d ("L" or "R")

-----------------------------------------------------------------------------
(* AddData: binary-counter carry (addNode) *)
RECURSIVE AddNode(_, _, _, _)
AddNode(rs, k, nd, w) ==
  IF k >= Len(rs) THEN [roots |-> Append(rs, nd), w |-> w]
  ELSE IF rs[k + 1] = None THEN [roots |-> [rs EXCEPT ![k + 1] = nd], w |-> w]
  ELSE AddNode([rs EXCEPT ![k + 1] = None], k + 1, Mk(rs[k + 1], nd), Append(w, W("L", rs[k + 1])))
\* kind "d": AddData (the accumulator owns the item data and stores it on Flush); kind "h": AddHash (only the hash is known)
AddF(s, kind) == LET r == AddNode(s.roots, 0, T(s.n, 0), <<>>) IN
                 [s |-> [s EXCEPT !.n = s.n + 1, !.roots = r.roots, !.kinds = Append(s.kinds, kind)], w |-> r.w]

(* WitnessFor(idx): find the slot that holds item idx (empty slots hold nothing), then the path
   inside that perfect tree, leaf level first *)
RECURSIVE PathIn(_, _)
PathIn(t, idx) ==
  IF t.h = 0 THEN <<>>
  ELSE IF idx < Pow2(t.h - 1) THEN Append(PathIn(LeftOf(t), idx), W("R", RightOf(t)))
  ELSE Append(PathIn(RightOf(t), idx - Pow2(t.h - 1)), W("L", LeftOf(t)))
RECURSIVE Locate(_, _, _)
Locate(rs, off, idx) ==                      \* [ok, t, idx]
  IF off = 0 THEN [ok |-> FALSE, t |-> None, idx |-> 0]
  ELSE IF rs[off] = None THEN Locate(rs, off - 1, idx)
  ELSE IF idx < Pow2(off - 1) THEN [ok |-> TRUE, t |-> rs[off], idx |-> idx]
  ELSE Locate(rs, off - 1, idx - Pow2(off - 1))
\* nodes that have to be read from the bucket on the way (branches inside recovered roots)
RECURSIVE PathNodes(_, _)
PathNodes(t, idx) ==
  IF t.h = 0 THEN {}
  ELSE {t} \cup (IF idx < Pow2(t.h - 1) THEN PathNodes(LeftOf(t), idx) ELSE PathNodes(RightOf(t), idx - Pow2(t.h - 1)))
Inside(t, r) == r.lo <= t.lo /\ t.lo + Pow2(t.h) <= r.lo + Pow2(r.h)
WitnessFor(s, d, idx) ==
  IF idx < 0 \/ idx >= s.n THEN [ok |-> FALSE, w |-> <<>>]
  ELSE LET l == Locate(s.roots, Len(s.roots), idx) IN
       IF ~l.ok THEN [ok |-> FALSE, w |-> <<>>]
       ELSE IF \E x \in PathNodes(l.t, l.idx) : (\E r \in s.refs : Inside(x, r)) /\ x \notin d.stored
            THEN [ok |-> FALSE, w |-> <<>>]                  \* a node of a recovered root is missing in the bucket
       ELSE [ok |-> TRUE, w |-> PathIn(l.t, l.idx)]

(* Verify(witness, item hash) against the current roots *)
RECURSIVE Fold(_, _)
Fold(ws, h) == IF ws = <<>> THEN h
               ELSE Fold(Tail(ws), IF Head(ws).d = "L" THEN Mk(Head(ws).t, h) ELSE Mk(h, Head(ws).t))
Verify(s, ws, h) == /\ Len(ws) < Len(s.roots)
                    /\ s.roots[Len(ws) + 1] # None
                    /\ s.roots[Len(ws) + 1] = Fold(ws, h)

(* Flush: every node below the roots goes to the bucket, then the roots record *)
NodesUnder(t) == UNION {{T(t.lo + k * Pow2(j), j) : k \in 0..(Pow2(t.h - j) - 1)} : j \in 0..t.h}
RootSet(s) == {s.roots[i] : i \in 1..Len(s.roots)} \ {None}
\* what Flush writes below a root: every branch, and the data of the items added with AddData (hashNode.Flush writes nothing)
Written(s, r) == {x \in NodesUnder(r) : x.h >= 1 \/ s.kinds[x.lo + 1] = "d"}
FlushF(s, d) == [stored |-> d.stored \cup UNION {Written(s, r) : r \in {x \in RootSet(s) : x \notin s.refs}},
                 pers |-> [n |-> s.n, roots |-> s.roots, kinds |-> s.kinds]]
(* Recover: a new accumulator object on the same bucket *)
NoPers == [n |-> 0, roots |-> <<>>, kinds |-> <<>>]
RecoverF(d) == [n |-> d.pers.n, roots |-> d.pers.roots, kinds |-> d.pers.kinds,
                refs |-> {d.pers.roots[i] : i \in 1..Len(d.pers.roots)} \ {None}]

Empty == [n |-> 0, roots |-> <<>>, kinds |-> <<>>, refs |-> {}]
EmptyDisk == [stored |-> {}, pers |-> NoPers]
RECURSIVE Build(_)
KindOf(i) == IF i % 3 = 1 THEN "h" ELSE "d"                        \* the table mixes AddData and AddHash items
Build(L) == IF L = 0 THEN Empty ELSE AddF(Build(L - 1), KindOf(L - 1)).s      \* accumulator after L Add calls

-----------------------------------------------------------------------------
(* history records *)
WJ(ws) == [i \in 1..Len(ws) |-> <<ws[i].d, ws[i].t.lo, ws[i].t.h>>]
AllWits(s, d) == [i \in 1..s.n |-> LET r == WitnessFor(s, d, i - 1) IN [ok |-> r.ok, w |-> WJ(r.w)]]
Log(r) == /\ nops' = IF MaxOps = 0 THEN 0 ELSE nops + 1
          /\ hist' = IF HistOn THEN Append(hist, r @@ [n |-> st'.n]) ELSE hist

NoLast == [has |-> FALSE, w |-> <<>>]
Init == st = Empty /\ disk = EmptyDisk /\ last = NoLast /\ nops = 0 /\ hist = <<>>
Can == MaxOps = 0 \/ nops < MaxOps
Add(kind) == /\ st.n < MaxLen
       /\ LET r == AddF(st, kind) IN st' = r.s /\ last' = [has |-> TRUE, w |-> r.w]
                               /\ Log([op |-> "add", i |-> st.n, kind |-> kind, w |-> WJ(r.w)])
       /\ UNCHANGED disk
Flush == /\ disk' = FlushF(st, disk)
         /\ UNCHANGED <<st, last>>
         /\ Log([op |-> "flush", i |-> 0, w |-> <<>>])
Recover == /\ st' = RecoverF(disk) /\ last' = NoLast
           /\ UNCHANGED disk
           /\ Log([op |-> "recover", i |-> 0, w |-> <<>>])
\* predicted verdicts of Verify for altered versions of the witness of item i (generator; C27 says: all rejected)
TamperVerdicts(s, w, i) ==
  [flip |-> [j \in 1..Len(w) |-> Verify(s, [w EXCEPT ![j].d = IF @ = "L" THEN "R" ELSE "L"], T(i, 0))],
   alter |-> [j \in 1..Len(w) |-> Verify(s, [w EXCEPT ![j].t = [l |-> None, r |-> None]], T(i, 0))],
   other |-> IF s.n > 1 THEN Verify(s, w, T(IF i + 1 < s.n THEN i + 1 ELSE i - 1, 0)) ELSE FALSE,
   trunc |-> IF w # <<>> THEN Verify(s, SubSeq(w, 1, Len(w) - 1), T(i, 0)) ELSE FALSE,
   \* a witness that is longer than the accumulator is high ("newer" than the roots): one more element appended
   extend |-> Verify(s, Append(w, W("R", T(i, 0))), T(i, 0))]
Witness(i) == /\ UNCHANGED <<st, disk, last>>
              /\ LET r == WitnessFor(st, disk, i) IN
                 Log([op |-> "wit", i |-> i, w |-> WJ(r.w), ok |-> r.ok, tv |-> TamperVerdicts(st, r.w, i)])
\* k AddData calls in a row (generator only: lets random walks reach long accumulators)
RECURSIVE AddK(_, _, _)
AddK(s, k, kind) == IF k = 1 THEN AddF(s, kind) ELSE AddK(AddF(s, kind).s, k - 1, kind)
AddMany(k, kind) == /\ st.n + k <= MaxLen
              /\ LET r == AddK(st, k, kind) IN st' = r.s /\ last' = [has |-> TRUE, w |-> r.w]
                                         /\ Log([op |-> "addn", i |-> st.n, k |-> k, kind |-> kind, w |-> WJ(r.w)])
              /\ UNCHANGED disk
\* sampled item indices, and n itself: an index that is out of range (no witness)
WitSample(n) == ({0, n - 1, n \div 2, (2 * n) \div 3} \cap 0..(n - 1)) \cup {n}
CheckAll == /\ UNCHANGED <<st, disk, last>>
            /\ Log([op |-> "all", i |-> 0, w |-> <<>>, wits |-> AllWits(st, disk)])
Next == \/ \E kind \in Kinds : Can /\ Add(kind)
        \/ Can /\ Flush
        \/ Can /\ Recover
        \/ \E k \in {3, 7, 16, 33}, kind \in Kinds : Can /\ HistOn /\ AddMany(k, kind)
        \/ \E i \in WitSample(st.n) : Can /\ HistOn /\ Witness(i)
        \/ Can /\ HistOn /\ st.n > 0 /\ CheckAll
Spec == Init /\ [][Next]_vars

-----------------------------------------------------------------------------
(* C27 *)
Bit(n, k) == (n \div Pow2(k)) % 2
\* binary-counter shape: slot k is occupied iff bit k of the length is set, and holds the items in order
RECURSIVE Above(_, _, _)
Above(n, k, top) == IF k >= top THEN 0 ELSE Bit(n, k) * Pow2(k) + Above(n, k + 1, top)
RootsBinary == LET top == Len(st.roots) IN
  /\ st.n < Pow2(top)
  /\ \A k \in 0..(top - 1) :
        st.roots[k + 1] = IF Bit(st.n, k) = 1 THEN T(Above(st.n, k + 1, top), k) ELSE None
  /\ (top = 0) <=> (st.n = 0)
  /\ top > 0 => st.n >= Pow2(top - 1)
\* every item has a witness, and it verifies against the current roots
WitnessesVerify == \A i \in 0..(st.n - 1) :
  LET r == WitnessFor(st, disk, i) IN r.ok /\ Verify(st, r.w, T(i, 0))
AddWitnessVerifies == last.has => Verify(st, last.w, T(st.n - 1, 0))
\* altered witnesses are rejected
Flip(ws, j) == [ws EXCEPT ![j].d = IF @ = "L" THEN "R" ELSE "L"]
Junk == [l |-> None, r |-> None]
OutOfRange == ~WitnessFor(st, disk, st.n).ok /\ ~WitnessFor(st, disk, -1).ok
TamperRejected == \A i \in 0..(st.n - 1) :
  LET w == WitnessFor(st, disk, i).w IN
  /\ \A j \in 1..Len(w) : /\ ~Verify(st, Flip(w, j), T(i, 0))
                          /\ ~Verify(st, [w EXCEPT ![j].t = Junk], T(i, 0))
  /\ \A i2 \in 0..(st.n - 1) : i2 # i => ~Verify(st, w, T(i2, 0))
  /\ (w # <<>> => ~Verify(st, SubSeq(w, 1, Len(w) - 1), T(i, 0)))
  /\ ~Verify(st, Append(w, W("R", T(i, 0))), T(i, 0))
\* what Recover relies on: everything below a recovered root is in the bucket
RefsStored == \A r \in st.refs : {x \in NodesUnder(r) : x.h >= 1} \subseteq disk.stored
\* the persisted record can be recovered at any time and gives the same witnesses as at flush time
RecoverSame == LET s2 == RecoverF(disk) IN
  \A i \in 0..(s2.n - 1) : LET r == WitnessFor(s2, disk, i) IN
     r.ok /\ Verify(s2, r.w, T(i, 0)) /\ r.w = PathIn(Locate(Build(s2.n).roots, Len(Build(s2.n).roots), i).t,
                                                     Locate(Build(s2.n).roots, Len(Build(s2.n).roots), i).idx)
=============================================================================
