INIT PInit
NEXT PNext
CONSTANTS
  W = 2
  KeyList <- SK8
  Vals = {1, 2}
  Peers <- P2
  MaxOps = 30
  Depth = 31
  HistOn = TRUE
INVARIANT PEmit
