SPECIFICATION Spec
CONSTANTS
  W = 2
  KeyList <- KL10
  PrefixList <- PL
  Vals = {1, 2, 3}
  VLen <- VL
  MaxOps = 2
  Depth = 2
  MaxSnaps = 2
  HistOn = TRUE
INVARIANT Emit
