INIT GInit
NEXT Next
CONSTANTS
  W = 2
  KeyList <- KL10
  PrefixList <- PL
  Vals = {1, 2, 3}
  VLen <- VL
  MaxOps = 2
  Depth = 2
  MaxSnaps = 2
  InitArr <- IA0
  InitFlushed = FALSE
  HistOn = TRUE
INVARIANT Emit
