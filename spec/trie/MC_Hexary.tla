---- MODULE MC_Hexary ----
EXTENDS Hexary
\* exhaustive configurations rewind to every shorter length
RPAll(len) == 0..(len + 1)
\* generator: rewind points around the powers of the arity, the neighbours of the length and a few fractions
RECURSIVE Pows(_, _)
Pows(p, len) == IF p > len THEN {} ELSE {p - 1, p, p + 1} \cup Pows(p * A, len)
RPGen(len) == ({0, 1, len - 1, len, len + 1, len \div 2, (len \div A) * A, (len \div A) * A - 1, len - A, len - A - 1} \cup Pows(A, len))
              \cap 0..(len + 1)
RPNone(len) == {}
ViewNoHist == <<items, acc, store, pdata, pitems, nops>>
====
