SPECIFICATION Spec
CONSTANTS
  W = 2
  KeyList <- SK8
  Vals = {1, 2}
  MaxOps = 40
  Depth = 41
  HistOn = TRUE
INVARIANT Emit
