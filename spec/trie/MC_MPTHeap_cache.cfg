SPECIFICATION HSpec
CONSTANTS
  W = 2
  KeyList <- KL3
  PrefixList <- PL
  Vals = {1}
  VLen <- VL
  MaxOps = 7
  MaxSnaps = 1
  HistOn = FALSE
INVARIANTS RefinesMPT SnapshotIsolated SnapshotFrozen Resolvable GetThroughCache Canonical
PROPERTIES FrozenImmutable
