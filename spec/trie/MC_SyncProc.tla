---- MODULE MC_SyncProc ----
EXTENDS MC_StateSync, SyncProc
P2 == <<"p1", "p2">>
P1 == <<"p1">>
PViewNoHist == <<m, reqs, store, nops, ready, flight, checked>>
====
