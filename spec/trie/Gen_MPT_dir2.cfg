INIT GInit
NEXT DirNext2
CONSTANTS
  W = 2
  KeyList <- KL4
  PrefixList <- PL
  Vals = {1, 2}
  VLen <- VL
  MaxOps = 3
  Depth = 3
  MaxSnaps = 1
  InitArr <- IA4b
  InitFlushed = FALSE
  HistOn = TRUE
INVARIANT Emit
