SPECIFICATION Spec
CONSTANTS
  A = 2
  MaxLen = 5
  Vals = {1}
  MaxOps = 5
  Extras = TRUE
  HistOn = TRUE
  AddSizes = {1, 2}
  RewindPoints <- RPGen
VIEW ViewNoHist
INVARIANTS Deterministic ProofsOK StoreComplete SequentialSyncOK PersistedConsistent
