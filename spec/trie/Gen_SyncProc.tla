---- MODULE Gen_SyncProc ----
EXTENDS MC_SyncProc, Json
CONSTANT Depth
PEmit == (Len(hist) = Depth \/ (Len(hist) > 1 /\ reqs = <<>>)) => PrintT(<<"B", ToJson(hist)>>)
====
