INIT GInit
NEXT DirNext
CONSTANTS
  W = 2
  KeyList <- KL4
  PrefixList <- PL
  Vals = {2}
  VLen <- VL
  MaxOps = 3
  Depth = 3
  MaxSnaps = 1
  InitArr <- IA4
  InitFlushed = TRUE
  HistOn = TRUE
INVARIANT Emit
