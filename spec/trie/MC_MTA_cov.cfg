SPECIFICATION Spec
CONSTANTS
  MaxLen = 8
  MaxOps = 5
  Kinds = {"d", "h"}
  HistOn = TRUE
VIEW ViewNoHist
INVARIANTS OutOfRange RootsBinary WitnessesVerify AddWitnessVerifies TamperRejected RefsStored RecoverSame
