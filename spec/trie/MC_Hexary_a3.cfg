SPECIFICATION Spec
CONSTANTS
  A = 3
  MaxLen = 10
  Vals = {1}
  MaxOps = 0
  Extras = TRUE
  HistOn = FALSE
  AddSizes = {1}
  RewindPoints <- RPAll
INVARIANTS Deterministic ProofsOK StoreComplete SequentialSyncOK PersistedConsistent
