INIT PInit
NEXT PNext
CONSTANTS
  W = 2
  KeyList <- SK6
  Vals = {1, 2, 3}
  Peers <- P2
  MaxOps = 30
  Depth = 31
  AliasVal = 3
  AliasKey <- AK
  HistOn = TRUE
INVARIANT PEmit
