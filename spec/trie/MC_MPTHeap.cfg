SPECIFICATION HSpec
CONSTANTS
  W = 2
  KeyList <- KL5
  PrefixList <- PL
  Vals = {1, 2}
  VLen <- VL
  MaxOps = 5
  MaxSnaps = 1
  HistOn = FALSE
INVARIANTS RefinesMPT SnapshotIsolated SnapshotFrozen Resolvable GetThroughCache Canonical
PROPERTIES FrozenImmutable
