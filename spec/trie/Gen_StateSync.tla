---- MODULE Gen_StateSync ----
EXTENDS MC_StateSync, Json
CONSTANT Depth
\* a behaviour ends when the sync is complete (or at the depth bound)
Emit == (Len(hist) = Depth \/ (Len(hist) > 1 /\ reqs = <<>> /\ hist[Len(hist)].op = "deliver")) => PrintT(<<"B", ToJson(hist)>>)
====
