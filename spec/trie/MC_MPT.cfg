SPECIFICATION Spec
CONSTANTS
  W = 2
  KeyList <- KL8
  PrefixList <- PL
  Vals = {1, 2}
  VLen <- VL
  MaxOps = 0
  MaxSnaps = 0
  HistOn = FALSE
INVARIANTS Canonical ProofsSound
