---- MODULE Gen_MTA ----
EXTENDS MTA, Json
CONSTANTS Depth, TableFrom, TableTo
\* random walks over add/flush/recover/witness calls
Emit == (Len(hist) = Depth) => PrintT(<<"B", ToJson(hist)>>)
\* table: for every length L the witnesses of every item, before and after Flush + Recover
Table(L) == LET s == Build(L)
                d == FlushF(s, EmptyDisk)
                s2 == RecoverF(d)
            IN [len |-> L, kinds |-> s.kinds, data |-> [i \in 1..L |-> T(i - 1, 0) \in d.stored], wits |-> AllWits(s, EmptyDisk), rwits |-> AllWits(s2, d)]
EmitTable == \A L \in TableFrom..TableTo : PrintT(<<"B", ToJson(Table(L))>>)
====
