SPECIFICATION Spec
CONSTANTS
  W = 2
  KeyList <- KL5
  PrefixList <- PL
  Vals = {1, 2}
  VLen <- VL
  MaxOps = 0
  MaxSnaps = 1
  HistOn = FALSE
INVARIANTS Canonical ProofsSound RootInjective OtherRootRejected
PROPERTIES SnapshotsStable
