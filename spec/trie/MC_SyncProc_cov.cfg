INIT PInit
NEXT PNext
CONSTANTS
  W = 2
  KeyList <- SK5
  Vals = {1}
  Peers <- P2
  MaxOps = 4
  AliasVal = 0
  AliasKey <- AK
  HistOn = FALSE
INVARIANTS StoredIsTarget DoneIffComplete RequestsSane Closed PoolsSane NoStall PackIsOutstanding
