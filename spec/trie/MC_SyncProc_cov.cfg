INIT PInit
NEXT PNext
CONSTANTS
  W = 2
  KeyList <- SK5
  Vals = {1}
  Peers <- P2
  MaxOps = 4
  HistOn = FALSE
INVARIANTS StoredIsTarget DoneIffComplete RequestsSane Closed PoolsSane NoStall PackIsOutstanding
