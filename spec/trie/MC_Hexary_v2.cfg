SPECIFICATION Spec
CONSTANTS
  A = 2
  MaxLen = 6
  Vals = {1, 2}
  MaxOps = 6
  Extras = TRUE
  HistOn = FALSE
  AddSizes = {1}
  RewindPoints <- RPAll
VIEW ViewNoHist
INVARIANTS Deterministic ProofsOK StoreComplete SequentialSyncOK PersistedConsistent
