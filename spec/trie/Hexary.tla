------------------------------ MODULE Hexary ------------------------------
(* A-ary block-hash accumulator and merkle tree of icon/merkle/hexary (C28); A = 16 in the
   code, the design is checked with A = 2 and A = 3.

   accumulator.go keeps one partially filled node per level (Roots[i], < A child hashes); a
   node that becomes full is written to the tree bucket, its hash is added to the next level
   and the node is cleared (add).  GetMerkleHeader/Finalize fold the levels bottom-up, carrying
   the hash of each level into the next one (a top level holding a single hash is passed
   through).  SetLen(l) rewinds: Finalize, build a MerkleTree on the bucket, take the proof of
   key l-1 and cut every path node to the number of children level i has at length l.
   merkletree.go proves (Prove: node contents on the path of a key) and verifies
   (Add: every proof element must hash to the child slot selected by the key digits, the last
   one must hold the given hash at digit 0; a prefix of the proof may be omitted if the
   verifier already holds those nodes).

   Hashes are symbolic.  F(lo,l,v) is the hash of the full subtree of level l over the items
   lo..lo+A^l-1 when all of them carry version v (l = 0: the item itself); a node whose
   children are exactly A consecutive such terms is abbreviated to the next F term (MkNode),
   every other node is the explicit list of its children.  The abbreviation keeps terms of
   accumulators with thousands of items small; equality of terms is equality of hashes. *)
EXTENDS Integers, Sequences, FiniteSets, TLC
CONSTANTS A, MaxLen, Vals, MaxOps, HistOn, AddSizes, RewindPoints(_),
          Extras    \* BOOLEAN: reopen / proof checks / sequential sync are part of the alphabet (directed generators switch them off)
VARIABLES items,    \* the sequence of added hashes (run-length encoded versions); the abstract content
          acc,      \* [len, roots]   accumulator object
          store,    \* [full, part] node hashes in the tree bucket: every completed node, and the incomplete nodes
                    \* written by the latest Finalize (older incomplete nodes stay in the real bucket and are never needed)
          pdata,    \* accumulator data persisted under the accumulator key
          pitems,   \* the item sequence that pdata describes
          nops, hist
vars == <<items, acc, store, pdata, pitems, nops, hist>>

NIL == [nil |-> TRUE]
F(lo, l, v) == [lo |-> lo, l |-> l, v |-> v]
IsF(t) == DOMAIN t = {"lo", "l", "v"}
Pow(k) == A ^ k
MkNode(cs) ==
  IF Len(cs) = A /\ \A j \in 1..A : IsF(cs[j]) /\ cs[j].l = cs[1].l /\ cs[j].v = cs[1].v
                                     /\ cs[j].lo = cs[1].lo + (j - 1) * Pow(cs[1].l)
  THEN F(cs[1].lo, cs[1].l + 1, cs[1].v)
  ELSE [c |-> cs]
IsNodeHash(t) == (IsF(t) /\ t.l >= 1) \/ DOMAIN t = {"c"}
Children(t) == IF IsF(t) THEN [j \in 1..A |-> F(t.lo + (j - 1) * Pow(t.l - 1), t.l - 1, t.v)] ELSE t.c
HashOf(cs) == IF cs = <<>> THEN NIL ELSE MkNode(cs)
Get(cs, k) == IF k < Len(cs) THEN cs[k + 1] ELSE NIL
Digit(key, i) == (key \div Pow(i)) % A
RECURSIVE NDigits(_)
NDigits(x) == IF x = 0 THEN 0 ELSE 1 + NDigits(x \div A)
Level(len) == IF len = 0 THEN 0 ELSE NDigits(len - 1)            \* LevelFromLen
RECURSIVE IsPow(_)
IsPow(n) == IF n < A THEN n = 1 ELSE IF n % A # 0 THEN FALSE ELSE IsPow(n \div A)     \* powerOf16
RECURSIVE TrailingZeros(_)
TrailingZeros(k) == IF k % A # 0 THEN 0 ELSE 1 + TrailingZeros(k \div A)            \* k > 0


(* the item sequence is kept run-length encoded: <<[v, n], ...>> = n items of version v, ... *)
RECURSIVE RLen(_)
RLen(rs) == IF rs = <<>> THEN 0 ELSE rs[1].n + RLen(Tail(rs))
RAppend(rs, v, n) == IF rs # <<>> /\ rs[Len(rs)].v = v THEN [rs EXCEPT ![Len(rs)].n = @ + n]
                     ELSE Append(rs, [v |-> v, n |-> n])
RECURSIVE RTrunc(_, _)
RTrunc(rs, l) == IF l = 0 \/ rs = <<>> THEN <<>>
                 ELSE IF rs[1].n >= l THEN <<[v |-> rs[1].v, n |-> l]>>
                 ELSE <<rs[1]>> \o RTrunc(Tail(rs), l - rs[1].n)
RECURSIVE RAt(_, _)
RAt(rs, p) == IF p < rs[1].n THEN rs[1].v ELSE RAt(Tail(rs), p - rs[1].n)       \* version of item p (0-based)

-----------------------------------------------------------------------------
(* accumulator.add *)
RECURSIVE AddAt(_, _, _, _)
AddAt(rs, st, i, h) ==        \* [rs, st]
  LET rs1 == IF i > Len(rs) THEN Append(rs, <<>>) ELSE rs
      rb == Append(rs1[i], h)
  IN IF Len(rb) = A
     THEN AddAt([rs1 EXCEPT ![i] = <<>>], [st EXCEPT !.full = @ \cup {MkNode(rb)}], i + 1, MkNode(rb))
     ELSE [rs |-> [rs1 EXCEPT ![i] = rb], st |-> st]
AddF(a, st, v) == LET r == AddAt(a.roots, st, 1, F(a.len, 0, v)) IN
                  [acc |-> [len |-> a.len + 1, roots |-> r.rs], st |-> r.st]

(* GetMerkleHeader / Finalize: fold with carry; fin collects the nodes Finalize writes *)
RECURSIVE Carry(_, _, _, _)
Carry(rs, i, carry, fin) ==   \* [root, fin]
  IF i > Len(rs) THEN [root |-> carry, fin |-> fin]
  ELSE LET r == IF carry = NIL THEN rs[i] ELSE Append(rs[i], carry) IN
       IF i = Len(rs) /\ Len(r) = 1 THEN Carry(rs, i + 1, r[1], fin)
       ELSE Carry(rs, i + 1, HashOf(r), IF r = <<>> THEN fin ELSE fin \cup {MkNode(r)})
Header(a) == [root |-> Carry(a.roots, 1, NIL, {}).root, leaves |-> a.len]
FinalizeStore(a, st) == [st EXCEPT !.part = Carry(a.roots, 1, NIL, {}).fin]
EmptyStore == [full |-> {}, part |-> {}]
Has(st, h) == h \in st.full \/ h \in st.part

(* merkleTree.Prove(key, 0) on a bucket st: node hashes on the path, root first *)
RECURSIVE ProveAt(_, _, _, _, _)
ProveAt(st, br, level, i, key) ==     \* br = children of the current node; returns [ok, p]
  IF i = level THEN [ok |-> TRUE, p |-> <<>>]
  ELSE LET h == Get(br, Digit(key, level - i)) IN
       IF h = NIL \/ ~Has(st, h) THEN [ok |-> FALSE, p |-> <<>>]
       ELSE LET r == ProveAt(st, Children(h), level, i + 1, key) IN
            [ok |-> r.ok, p |-> <<h>> \o r.p]
Prove(st, hd, key) == IF hd.root = NIL THEN [ok |-> FALSE, p |-> <<>>]
                      ELSE ProveAt(st, <<hd.root>>, Level(hd.leaves), 0, key)
MinProofLen(hd, key) == LET lv == Level(hd.leaves) IN
                        IF key = 0 THEN lv ELSE IF TrailingZeros(key) > lv THEN lv ELSE TrailingZeros(key)

(* merkleTree.Add(key, hash, proof) of a verifier holding the header and its own bucket vst.
   A proof element is a node (given by its hash term; its content is Children).
   Result: "ok" | "verify" (rejected) | "error" (an omitted node is not in the verifier's bucket) *)
RECURSIVE VerifyAt(_, _, _, _, _, _, _)
VerifyAt(vst, br, level, i, key, proof, omit) ==   \* [r, br]
  IF i = level THEN [r |-> "ok", br |-> br]
  ELSE LET cur == Get(br, Digit(key, level - i)) IN
       IF i < omit
       THEN (IF cur = NIL \/ ~Has(vst, cur) THEN [r |-> "error", br |-> br]
             ELSE VerifyAt(vst, Children(cur), level, i + 1, key, proof, omit))
       ELSE LET el == proof[i - omit + 1] IN
            IF ~IsNodeHash(el) \/ el # cur THEN [r |-> "verify", br |-> br]
            ELSE VerifyAt(vst, Children(el), level, i + 1, key, proof, omit)
MTAdd(vst, hd, key, h, proof) ==
  LET level == Level(hd.leaves) IN
  IF hd.root = NIL \/ Len(proof) < MinProofLen(hd, key) \/ Len(proof) > level THEN "verify"
  ELSE LET r == VerifyAt(vst, <<hd.root>>, level, 0, key, proof, level - Len(proof)) IN
       IF r.r # "ok" THEN r.r
       ELSE IF Get(r.br, Digit(key, 0)) # h THEN "verify" ELSE "ok"

(* accumulator.SetLen(l), 0 < l < len *)
Cut(cs, n) == SubSeq(cs, 1, n)
SetLenF(a, st, l) ==
  LET st1 == FinalizeStore(a, st)
      hd == Header(a)
      pr == Prove(st1, hd, l - 1)
      lvl == Level(l) + (IF IsPow(l) THEN 1 ELSE 0)
      proof == IF Len(pr.p) < lvl THEN <<hd.root>> \o pr.p     \* the root hash itself as a one-child node
               ELSE SubSeq(pr.p, Len(pr.p) - lvl + 1, Len(pr.p))
      NodeAt(i) == LET e == proof[Len(proof) - i] IN          \* i = 0 .. lvl-1, bottom level first
                   IF Len(pr.p) < lvl /\ Len(proof) - i = 1 THEN <<hd.root>> ELSE Children(e)
  IN [ok |-> pr.ok /\ (Len(pr.p) >= lvl \/ Len(pr.p) + 1 = lvl),
      st |-> st1,
      acc |-> [len |-> l, roots |-> [i \in 1..lvl |-> Cut(NodeAt(i - 1), Digit(l, i - 1))]]]

-----------------------------------------------------------------------------
(* independent definitions *)
\* the A-ary merkle tree over items lo..hi-1 with `lvl` levels; an incomplete node has fewer children
RECURSIVE TreeHash(_, _, _, _)
TreeHash(its, lo, hi, lvl) ==
  IF lvl = 0 THEN F(lo, 0, RAt(its, lo))
  ELSE LET sz == Pow(lvl - 1)
           n == (hi - lo + sz - 1) \div sz
       IN MkNode([j \in 1..n |-> TreeHash(its, lo + (j - 1) * sz, IF lo + j * sz < hi THEN lo + j * sz ELSE hi, lvl - 1)])
HeaderOf(its) == [root |-> IF its = <<>> THEN NIL ELSE TreeHash(its, 0, RLen(its), Level(RLen(its))), leaves |-> RLen(its)]
\* accumulating a sequence from scratch
RECURSIVE Accumulate(_)
Accumulate(its) == IF its = <<>> THEN [len |-> 0, roots |-> <<>>]
                   ELSE AddF(Accumulate(RTrunc(its, RLen(its) - 1)), EmptyStore, RAt(its, RLen(its) - 1)).acc

-----------------------------------------------------------------------------
RECURSIVE TJ(_)
TJ(t) == IF t = NIL THEN <<"Z">>
         ELSE IF IsF(t) THEN <<"F", t.lo, t.l, t.v>>
         ELSE <<"N", [j \in 1..Len(t.c) |-> TJ(t.c[j])]>>
HdrJ(hd) == [root |-> TJ(hd.root), leaves |-> hd.leaves]
Log(r) == /\ nops' = IF MaxOps = 0 THEN 0 ELSE nops + 1
          /\ hist' = IF HistOn THEN Append(hist, r @@ [len |-> acc'.len, hdr |-> HdrJ(Header(acc')), runs |-> [j \in 1..Len(items') |-> <<items'[j].v, items'[j].n>>],
                                                       plen |-> pdata'.len, phdr |-> HdrJ(Header(pdata')),   \* what a second accumulator opened on the same buckets shows
                                                       digits |-> [i \in 1..Len(acc'.roots) |-> Len(acc'.roots[i])]])
                     ELSE hist

Init == /\ items = <<>> /\ acc = [len |-> 0, roots |-> <<>>] /\ store = EmptyStore
        /\ pdata = [len |-> 0, roots |-> <<>>] /\ pitems = <<>> /\ nops = 0 /\ hist = <<>>
Can == MaxOps = 0 \/ nops < MaxOps
RECURSIVE AddN(_, _, _, _)
AddN(a, st, v, n) == IF n = 0 THEN [acc |-> a, st |-> st]               \* n calls of Add (halving keeps the evaluation shallow)
                     ELSE IF n = 1 THEN LET r == AddF(a, st, v) IN [acc |-> r.acc, st |-> r.st]
                     ELSE LET r == AddN(a, st, v, n \div 2) IN AddN(r.acc, r.st, v, n - n \div 2)
Add(v, n) == /\ acc.len + n <= MaxLen
             /\ LET r == AddN(acc, store, v, n) IN acc' = r.acc /\ store' = r.st /\ pdata' = r.acc
             /\ items' = RAppend(items, v, n) /\ pitems' = items'
             /\ Log([op |-> "add", v |-> v, n |-> n, l |-> 0, res |-> "ok"])
SetLen(l) ==
  /\ IF l > acc.len THEN UNCHANGED <<items, acc, store, pdata, pitems>> /\ Log([op |-> "setlen", v |-> 0, n |-> 0, l |-> l, res |-> "error"])
     ELSE IF l = 0 THEN /\ acc' = [len |-> 0, roots |-> <<>>] /\ items' = <<>>
                        /\ UNCHANGED <<store, pdata, pitems>>  \* SetLen(0) does not touch the persisted record
                        /\ Log([op |-> "setlen", v |-> 0, n |-> 0, l |-> l, res |-> "ok"])
     ELSE IF l = acc.len THEN UNCHANGED <<items, acc, store, pdata, pitems>> /\ Log([op |-> "setlen", v |-> 0, n |-> 0, l |-> l, res |-> "ok"])
     ELSE LET r == SetLenF(acc, store, l) IN
          /\ r.ok                                               \* (the model never produces a failing rewind)
          /\ acc' = r.acc /\ store' = r.st /\ pdata' = r.acc /\ items' = RTrunc(items, l) /\ pitems' = items'
          /\ Log([op |-> "setlen", v |-> 0, n |-> 0, l |-> l, res |-> "ok"])
\* GetMerkleHeader: a read; the header (carried by every record) is the one of the CURRENT sequence, whatever was read, rewound
\* or re-added before.  It is an action of its own so that histories exist in which no header is read at the lengths in between.
HeaderRead == /\ UNCHANGED <<items, acc, store, pdata, pitems>>
              /\ Log([op |-> "header", v |-> 0, n |-> 0, l |-> 0, res |-> "ok"])
Finalize == /\ store' = FinalizeStore(acc, store)
            /\ UNCHANGED <<items, acc, pdata, pitems>>
            /\ Log([op |-> "finalize", v |-> 0, n |-> 0, l |-> 0, res |-> "ok"])
\* NewAccumulator on the same buckets: continues from the persisted record
Reopen == /\ acc' = pdata /\ items' = pitems
          /\ UNCHANGED <<store, pdata, pitems>>
          /\ Log([op |-> "reopen", v |-> 0, n |-> 0, l |-> 0, res |-> "ok"])
\* proofs of key against the finalized header, verified by a fresh verifier, with tampered variants
Bad == [bad |-> TRUE]
ProofCase(key) ==
  LET st1 == FinalizeStore(acc, store)
      hd == Header(acc)
      pr == Prove(st1, hd, key)
      h == F(key, 0, RAt(items, key))
      n == Len(pr.p)
  IN [ok |-> pr.ok, n |-> n, min |-> MinProofLen(hd, key),
      full |-> MTAdd(EmptyStore, hd, key, h, pr.p),
      badhash |-> MTAdd(EmptyStore, hd, key, Bad, pr.p),
      otherkey |-> IF acc.len > 1 THEN MTAdd(EmptyStore, hd, IF key + 1 < acc.len THEN key + 1 ELSE key - 1, h, pr.p) ELSE "verify",
      alter |-> [j \in 1..n |-> MTAdd(EmptyStore, hd, key, h, [pr.p EXCEPT ![j] = Bad])],
      drop |-> [j \in 1..n |-> MTAdd(EmptyStore, hd, key, h, SubSeq(pr.p, 1, j - 1) \o SubSeq(pr.p, j + 1, n))],
      extra |-> MTAdd(EmptyStore, hd, key, h, <<Bad>> \o pr.p),
      \* partial proof (only what differs from the proof of key-1) for a verifier that already added key-1
      partial |-> IF key = 0 THEN "ok"
                  ELSE LET p1 == Prove(st1, hd, key - 1).p
                           vst == [full |-> {p1[j] : j \in 1..Len(p1)}, part |-> {}]
                       IN MTAdd(vst, hd, key, h, SubSeq(pr.p, n - MinProofLen(hd, key) + 1, n)),
      \* NON-FIRST addition on one tree object: the verifier already added key-1 with its full proof (so it knows and has
      \* cached the shared upper nodes) and now gets the FULL proof of key: accepted; with any element altered -- also one
      \* the verifier already knows and could skip -- rejected: every supplied element is checked against the hash chain
      knownfull |-> IF key = 0 THEN "ok"
                    ELSE LET p1 == Prove(st1, hd, key - 1).p IN
                         MTAdd([full |-> {p1[j] : j \in 1..Len(p1)}, part |-> {}], hd, key, h, pr.p),
      knownalter |-> IF key = 0 THEN <<>>
                     ELSE LET p1 == Prove(st1, hd, key - 1).p
                              vst == [full |-> {p1[j] : j \in 1..Len(p1)}, part |-> {}]
                          IN [j \in 1..n |-> MTAdd(vst, hd, key, h, [pr.p EXCEPT ![j] = Bad])],
      \* the same partial proof for a verifier that holds nothing
      partial0 |-> IF key = 0 THEN "ok" ELSE MTAdd(EmptyStore, hd, key, h, SubSeq(pr.p, n - MinProofLen(hd, key) + 1, n))]
Check(key) == /\ store' = FinalizeStore(acc, store)
              /\ UNCHANGED <<items, acc, pdata, pitems>>
              /\ Log([op |-> "check", v |-> 0, n |-> 0, l |-> key, res |-> "ok", pc |-> ProofCase(key)])
\* a verifier that receives all hashes in order, each with the partial proof Prove(key, -1) (block sync):
\* its bucket accumulates the accepted proof nodes; result: the first key that is not accepted, or -1
RECURSIVE SeqSync(_, _, _, _, _)
SeqSync(st1, hd, its, key, vst) ==
  IF key = hd.leaves THEN -1
  ELSE LET p == Prove(st1, hd, key).p
           part == SubSeq(p, Len(p) - MinProofLen(hd, key) + 1, Len(p))
       IN IF MTAdd(vst, hd, key, F(key, 0, RAt(its, key)), part) # "ok" THEN key
          ELSE SeqSync(st1, hd, its, key + 1, [vst EXCEPT !.full = @ \cup {part[j] : j \in 1..Len(part)}])
SyncAll == /\ acc.len > 0 /\ acc.len <= 128
           /\ store' = FinalizeStore(acc, store)
           /\ UNCHANGED <<items, acc, pdata, pitems>>
           /\ Log([op |-> "sync", v |-> 0, n |-> 0, l |-> SeqSync(FinalizeStore(acc, store), Header(acc), items, 0, EmptyStore), res |-> "ok"])
KeySample(len) == {0, len - 1, len \div 2, ((len - 1) \div A) * A, (len \div A) * A - 1} \cap 0..(len - 1)
Next == \/ \E v \in Vals, n \in AddSizes : Can /\ Add(v, n)
        \/ \E l \in RewindPoints(acc.len) : Can /\ SetLen(l)
        \/ Can /\ Finalize
        \/ Can /\ HistOn /\ HeaderRead
        \/ Can /\ Extras /\ Reopen
        \/ \E k \in KeySample(acc.len) : Can /\ Extras /\ HistOn /\ Check(k)
        \/ Can /\ Extras /\ HistOn /\ SyncAll
Spec == Init /\ [][Next]_vars

-----------------------------------------------------------------------------
(* C28 *)
\* the accumulator state and its header are a function of the item sequence alone
Deterministic == /\ acc.len = RLen(items)
                 /\ acc = Accumulate(items)
                 /\ Header(acc) = HeaderOf(items)
\* every added hash has a proof that the merkle tree accepts; altered proofs/hashes are rejected
ProofsOK == \A key \in 0..(acc.len - 1) :
  LET c == ProofCase(key) IN
  /\ c.ok /\ c.n = Level(acc.len) /\ c.full = "ok"
  /\ c.badhash = "verify" /\ c.otherkey = "verify" /\ c.extra = "verify"
  /\ \A j \in 1..c.n : c.alter[j] = "verify" /\ c.drop[j] # "ok"
  /\ c.partial = "ok" /\ c.knownfull = "ok"
  /\ \A j \in 1..Len(c.knownalter) : c.knownalter[j] = "verify"
\* the persisted record always describes a real accumulation; it lags behind the object only after SetLen(0),
\* which resets the object without rewriting the record (a re-opened accumulator then continues from the old record)
PersistedConsistent == pdata = Accumulate(pitems) /\ ((pdata # acc) => (acc.len = 0 /\ pdata.len > 0))
\* all hashes can be synchronised in order with partial proofs only
SequentialSyncOK == acc.len > 0 => SeqSync(FinalizeStore(acc, store), Header(acc), items, 0, EmptyStore) = -1
\* full nodes are in the bucket as soon as they are complete; rewinding needs nothing else than Finalize
StoreComplete == \A key \in 0..(acc.len - 1) : Prove(FinalizeStore(acc, store), Header(acc), key).ok
=============================================================================
