INIT Init
NEXT Next
CONSTANTS
  MaxLen = 0
  MaxOps = 1
  Depth = 1
  Kinds = {"d", "h"}
  HistOn = FALSE
  TableFrom = 1
  TableTo = 64
INVARIANT EmitTable
