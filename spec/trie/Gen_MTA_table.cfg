INIT Init
NEXT Next
CONSTANTS
  MaxLen = 0
  MaxOps = 1
  Depth = 1
  HistOn = FALSE
  TableFrom = 1
  TableTo = 64
INVARIANT EmitTable
