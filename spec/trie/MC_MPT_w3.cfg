SPECIFICATION Spec
CONSTANTS
  W = 3
  KeyList <- KL3W
  PrefixList <- PL3W
  Vals = {1, 2, 3}
  VLen <- VL
  MaxOps = 5
  MaxSnaps = 0
  HistOn = FALSE
INVARIANTS Canonical ProofsSound
