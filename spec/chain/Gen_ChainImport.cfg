SPECIFICATION GenSpec
CONSTANTS
  N = 4
  Times = {0, 1, 2, 3, 4}
  MaxVotes = 4
  MaxGrow = 3
  MaxOps = 1
  Depth = 1
  Family = "table"
