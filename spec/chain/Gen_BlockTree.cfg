SPECIFICATION GenSpec
CONSTANTS
  Variants = {1, 2}
  MaxLen = 3
  MaxHandles = 4
  MaxOps = 3
  Depth = 3
  Misuse = FALSE
  Race = FALSE
  Quiet = FALSE
