---- MODULE Gen_ChainImport ----
(* Case generator for ChainImport.
   Family "table": one Import on every kind of tip (the genesis block; a block above it with any
     timestamp - ChainImport shows by TypeOK/ChainMonotone that these are the reachable tips):
     (a) without structural deviation: every vote multiset of size 0..MaxVotes and every timestamp;
     (b) every combination of height/parent/version deviations with the unanimous vote lists, the empty
         list and every timestamp.
   Family "walk": histories (-simulate): imports of acceptable blocks and of their single-field deviations,
     and finalizations, from the genesis block. *)
EXTENDS ChainImport, Json
CONSTANTS Depth, Family

Tips == {Genesis} \cup [height : {1}, ts : Times]
Plain(votes, ts) == [dh |-> 0, prev |-> "tip", ver |-> "ok", votes |-> votes, ts |-> ts, st |-> "ok"]
Unanimous == {[i \in 1..N |-> t] : t \in Times} \cup {<<>>}
TableBlocks == {Plain(v, t) : v \in VoteLists, t \in Times} \cup
               {b \in Blocks : b.votes \in Unanimous /\
                                (b.st = "ok" \/ (b.dh = 0 /\ b.prev = "tip" /\ b.ver = "ok"))}
\* blocks a correct proposer could build on the tip, and their single-field deviations
Honest(t) == IF t.height = 0 THEN {Plain(<<>>, x) : x \in Times}
             ELSE {Plain(v, Median(v)) : v \in {w \in VoteLists : 3 * Len(w) > 2 * N /\ Median(w) > t.ts}}
WalkBlocks(t) == Honest(t) \cup UNION {Deviations(b) \cup TsDeviations(b) : b \in Honest(t)}
                 \cup {Plain(v, Median(v)) : v \in VoteLists}

GenInit == /\ tip \in (IF Family = "table" THEN Tips ELSE {Genesis})
           /\ cands = {} /\ grown = 0 /\ hist = <<>>
Done == /\ Len(hist) = Depth
        /\ PrintT(<<"B", ToJson(hist)>>)
        /\ hist' = Append(hist, [op |-> "done"]) /\ UNCHANGED <<tip, cands, grown>>
GenNext == \/ Len(hist) < Depth /\ Family = "table" /\ \E b \in TableBlocks : Import(b)
           \/ Len(hist) < Depth /\ Family = "walk" /\ \E b \in WalkBlocks(tip) : Import(b)
           \/ Len(hist) < Depth /\ Family = "walk" /\ \E c \in cands : Finalize(c)
           \/ Done
GenSpec == GenInit /\ [][GenNext]_vars
====
