---- MODULE MC_ChainImport ----
EXTENDS ChainImport
ViewNoHist == <<tip, {c.ts : c \in cands}, grown, Len(hist)>>
MedianSaneOnce == (hist = <<>>) => MedianSane
====
