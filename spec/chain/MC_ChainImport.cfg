SPECIFICATION Spec
CONSTANTS
  N = 4
  Times = {0, 1, 2, 3}
  MaxVotes = 4
  MaxGrow = 3
  MaxOps = 5
VIEW ViewNoHist
INVARIANTS TypeOK MedianSaneOnce
PROPERTIES AcceptedExtendsParent SingleDeviationRejected ChainMonotone
