---- MODULE MC_BlockBinding ----
EXTENDS BlockBinding
ViewNoHist == <<x, y, src, dmg, done>>
\* shapes of real blocks the test chain can produce: block 1 with a transaction, empty block, block with a
\* transaction, block with a BTP digest, block with both
S(n, v, b) == [ntx |-> n, votes |-> v, btp |-> b]
RealShapes == {S("c", "e", "e"), S("e", "v", "e"), S("c", "v", "e"), S("e", "v", "d"), S("c", "v", "d")}
====
