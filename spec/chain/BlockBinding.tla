---------------------------- MODULE BlockBinding ----------------------------
(* Block encoding binds the body to the header (C08): block/handlerv2.go NewBlockDataFromReader,
   block/blockv2.go V2HeaderFormat/V2BodyFormat, block/blockdatafactory.go.

   An encoded block is a header followed by a body.  The header of block X commits to the hash of
   its patch transactions, normal transactions, commit vote list and (inside Result) BTP digest,
   and carries the network-section filter derived from the BTP digest.  Hashes are symbolic: two
   parts have the same hash iff they have the same content.  The content of a part is "e" (empty)
   or not; the non-empty content of another block Y always differs from X's, except that the
   network-section filters of two non-empty digests of the same BTP network coincide.

   An adversary starts from the honest encoding of X and replaces parts by those of another real
   block Y or by empty parts (Swap), or damages the byte stream (Damage); the node decodes. *)
EXTENDS Integers, Sequences, FiniteSets, TLC
CONSTANTS Shapes,      \* block shapes: [ntx, votes, btp -> {"e","c"}]; patch lists are empty in all shapes
          NHeader,     \* number of header fields (12 with filter)
          NBody        \* number of body fields

BodyParts == {"ptx", "ntx", "votes", "btp"}
Parts == BodyParts \cup {"nsf"}
Sources == {"X", "Y", "E", "G", "N"}
\* G: bytes that are not an encoding of such a part at all.
\* N: X's own vote list written in a NON-CANONICAL way (bytes after the list, the optional empty field written out) under a
\*    header that commits to the hash of exactly those bytes: the decoded list re-encodes canonically, so the decoded block
\*    could not have the votes hash and the id of the header it came from - it must be rejected
Readers == {"seekable", "stream"}      \* how the bytes arrive: a buffer that can seek, or a stream (version is peeked)
NoDamage == [class |-> "none", k |-> 0]
\* classes of malformed streams: cut at the boundary after top-level field k (k = NHeader + NBody is the whole
\* stream), cut in the middle of field k, list length prefix inflated, type tag of field k flipped, trailing bytes
\* header fields that no body hash protects, re-encoded with a malformed value (the rest of the stream is X's own
\* and hash-consistent, so decoding reaches the very last step).  Proposer bytes must be an address (21 bytes with
\* type 0 or 1), a bare 20-byte id, or absent:
HdrReject == {"hdr:proposer:19", "hdr:proposer:22", "hdr:proposer:type2", "hdr:proposer:type255",
              "hdr:version:other", "hdr:patchtxhash:odd", "hdr:normaltxhash:odd"}
HdrOk == {"hdr:proposer:20", "hdr:proposer:nil"}          \* well-formed variants: another, decodable header
\* integers longer than their type, hashes of odd length, a filter of odd length, an empty proposer string:
\* error or another decodable header, but never a crash
HdrNoCrash == {"hdr:proposer:empty", "hdr:version:long", "hdr:height:long", "hdr:timestamp:long",
               "hdr:previd:odd", "hdr:voteshash:odd", "hdr:nextvalidatorshash:odd", "hdr:result:odd",
               "hdr:logsbloom:odd", "hdr:nsfilter:odd"}
HdrClasses == HdrReject \cup HdrOk \cup HdrNoCrash
Damages == [class : HdrClasses, k : {0}] \cup
           [class : {"cut"}, k : 0..(NHeader + NBody)] \cup
           [class : {"cutmid", "fliptag"}, k : 1..(NHeader + NBody)] \cup
           [class : {"inflate"}, k : {1, 2}] \cup [class : {"tail"}, k : {0}]

VARIABLES x, y,     \* shapes of the block under attack and of the donor block
          src,      \* where each part of the stream comes from
          dmg, done, hist
vars == <<x, y, src, dmg, done, hist>>

\* content of a part in the three sources, relative to X: "c" = X's own non-empty content,
\* "o" = other non-empty content, "e" = empty; the filter is "f" for any non-empty digest
Own(s, p) == IF p = "ptx" THEN "e" ELSE IF p = "nsf" THEN (IF s.btp = "e" THEN "e" ELSE "f") ELSE s[p]
Content(p) ==
  CASE src[p] = "X" -> Own(x, p)
    [] src[p] = "E" -> "e"
    [] src[p] = "G" -> "g"
    [] src[p] = "N" -> "n"
    [] src[p] = "Y" -> (IF p = "nsf" THEN Own(y, p)
                        ELSE IF p = "ptx" THEN (IF y.ntx = "e" THEN "e" ELSE "o")   \* Y's transactions as patch list
                        ELSE IF Own(y, p) = "e" THEN "e" ELSE "o")
\* NewBlockDataFromReader: every part must hash to what the header of X commits to
DecodeRes ==
  IF dmg.class = "none" THEN (IF \A p \in Parts : Content(p) = Own(x, p) THEN "ok" ELSE "reject")
  ELSE IF dmg.class = "cut" THEN (IF dmg.k = NHeader + NBody THEN "ok" ELSE "reject")
  ELSE IF dmg.class = "cutmid" THEN "reject"
  ELSE IF dmg.class = "tail" THEN "ok"
  ELSE IF dmg.class \in HdrReject THEN "reject"
  ELSE IF dmg.class \in HdrOk THEN "ok"
  ELSE "nocrash"            \* inflate, fliptag, HdrNoCrash: must not crash; if accepted the body must still match the header

\* the header alone, as the node reads it back from its database (NewBlockFromHeaderReader): no version dispatch and no
\* body to compare with, so only the proposer classes have a definite verdict
HeaderOnlyRes ==
  IF dmg.class \in {"hdr:proposer:19", "hdr:proposer:22", "hdr:proposer:type2", "hdr:proposer:type255"} THEN "reject"
  ELSE IF dmg.class \in HdrOk THEN "ok" ELSE "nocrash"

Init == /\ x \in Shapes /\ y \in Shapes /\ src = [p \in Parts |-> "X"]
        /\ dmg = NoDamage /\ done = FALSE /\ hist = <<>>
Swap(p, s) == /\ ~done /\ dmg = NoDamage /\ src[p] = "X" /\ s # "X"
              /\ (s = "G" => (p \in BodyParts /\ \A q \in Parts : src[q] = "X"))   \* garbage in one part of an otherwise honest stream
              /\ (s = "N" => (p = "votes" /\ \A q \in Parts : src[q] = "X"))
              /\ \A q \in Parts : src[q] \notin {"G", "N"}
              /\ src' = [src EXCEPT ![p] = s] /\ UNCHANGED <<x, y, dmg, done, hist>>
Damage(d) == /\ ~done /\ dmg = NoDamage /\ \A p \in Parts : src[p] = "X"
             /\ dmg' = d /\ UNCHANGED <<x, y, src, done, hist>>
\* the verdict does not depend on how the bytes arrive; streams are explored for streams with at most one foreign part
Decode(rd) ==
          /\ ~done /\ done' = TRUE
          /\ (rd = "stream" => Cardinality({p \in Parts : src[p] # "X"}) <= 1)
          /\ hist' = Append(hist, [op |-> "decode", rd |-> rd, x |-> x, y |-> y, src |-> src, dmg |-> dmg, res |-> DecodeRes, hres |-> HeaderOnlyRes,
                                   bad |-> {p \in Parts : Content(p) # Own(x, p)}])   \* parts that do not match the header
          /\ UNCHANGED <<x, y, src, dmg>>
Next == \/ \E p \in Parts, s \in Sources : Swap(p, s)
        \/ \E d \in Damages : Damage(d)
        \/ \E rd \in Readers : Decode(rd)
Spec == Init /\ [][Next]_vars

----------------------------------------------------------------------------
TypeOK == x \in Shapes /\ y \in Shapes /\ src \in [Parts -> Sources] /\ dmg \in Damages \cup {NoDamage}
Last == hist'[Len(hist')]
Stepped == hist' # hist
\* a node's own encoding decodes (round trip)
RoundTrip == [][(Stepped /\ (\A p \in Parts : src[p] = "X") /\ dmg = NoDamage) => Last.res = "ok"]_vars
\* a body cannot be swapped under a header: whatever is accepted has exactly X's parts
Binding == [][(Stepped /\ dmg = NoDamage /\ Last.res = "ok") => \A p \in Parts : Content(p) = Own(x, p)]_vars
\* replacing a non-empty part by anything else, or an empty part by something, is always rejected
ForeignPartRejected ==
  [][(Stepped /\ dmg = NoDamage /\ \E p \in BodyParts : Content(p) \in {"o", "g", "n"}) => Last.res = "reject"]_vars
\* a stream that ends early is rejected
\* a malformed proposer is an error for the receiver of the block, whatever else is consistent
MalformedProposerRejected ==
  [][(Stepped /\ dmg.class \in HdrReject) => Last.res = "reject"]_vars
TruncatedRejected ==
  [][(Stepped /\ dmg.class \in {"cut", "cutmid"} /\ ~(dmg.class = "cut" /\ dmg.k = NHeader + NBody)) => Last.res = "reject"]_vars
=============================================================================
