---------------------------- MODULE ChainImport ----------------------------
(* Import of blocks by the block manager (C07): block/manager.go Import/_import/Finalize,
   block/block.go verifyNewBlock, block/blockv2.go VerifyTimestamp,
   consensus/commitvotelist.go blockCommitVoteList.Timestamp (median).

   State of one node: the last finalized block (tip) and the accepted, not yet finalized children
   of the tip.  A block received for import is described relative to the tip:
     dh      its height minus (tip height + 1)
     prev    the block its PrevID names: "tip", "stale" (the finalized parent of the tip) or
             "unknown" (no block of this node)
     ver     "ok" = the version the tip's state requires, "old"/"new" = another version
     votes   timestamps of the precommits in its commit vote list for the tip (a multiset, written
             as a sorted sequence); every vote is a valid signature of a distinct validator
     ts      its timestamp
     st      what its header says about the state after the parent: "ok", or a wrong result hash, a wrong
             next-validators hash or a wrong logs bloom (found when the parent's transactions have been executed)
   n validators vote; a list of k votes is a certificate iff 3k > 2n (QuorumCert.tla). Time is
   abstract (small integers); the replay driver scales it. *)
EXTENDS Integers, Sequences, FiniteSets, TLC
CONSTANTS N,          \* number of validators
          Times,      \* abstract timestamps, an interval 0..T
          MaxVotes,   \* at most this many votes in a list (<= N)
          MaxGrow,    \* the chain grows by at most this many blocks in a behaviour
          MaxOps

Genesis == [height |-> 0, ts |-> 0]

\* sorted sequences over Times of length k = multisets
RECURSIVE SortedSeqs(_)
SortedSeqs(k) == IF k = 0 THEN {<<>>}
                 ELSE {Append(s, t) : s \in SortedSeqs(k - 1), t \in Times} \cap
                      {s \in Seq(Times) : \A i \in 1..(Len(s) - 1) : s[i] <= s[i + 1]}
VoteLists == UNION {SortedSeqs(k) : k \in 0..MaxVotes}

\* blockCommitVoteList.Timestamp: middle element, or the mean of the two middle elements rounded down
Median(s) == LET l == Len(s) IN
             IF l = 0 THEN 0
             ELSE IF l % 2 = 1 THEN s[(l + 1) \div 2]
             ELSE (s[l \div 2] + s[l \div 2 + 1]) \div 2

Blocks == [dh : {-1, 0, 1}, prev : {"tip", "stale", "unknown"}, ver : {"ok", "old", "new"},
           votes : VoteLists, ts : Times, st : {"ok", "result", "validators", "bloom"}]

VARIABLES tip,      \* [height, ts] of the last finalized block
          cands,    \* accepted children of the tip: set of [id, ts]; id = index of the accepting step
          grown,    \* blocks finalized in this behaviour
          hist
vars == <<tip, cands, grown, hist>>

\* the vote list certifies the tip: none for the genesis block, more than 2/3 of the validators otherwise
CertOK(t, votes) == IF t.height = 0 THEN votes = <<>> ELSE 3 * Len(votes) > 2 * N
\* the decision of Import for a block b on top of tip t, in the order of the code:
\* unknown/stale parent, version, height, certificate, timestamp
ImportRes(t, b) ==
  IF b.ver # "ok" THEN "version"
  ELSE IF b.prev # "tip" THEN "prev"
  ELSE IF b.dh # 0 THEN "height"
  ELSE IF ~CertOK(t, b.votes) THEN "votes"
  ELSE IF t.height >= 1 /\ b.ts # Median(b.votes) THEN "median"
  ELSE IF t.height >= 1 /\ b.ts <= t.ts THEN "nonincreasing"
  ELSE IF b.st # "ok" THEN "state"
  ELSE "ok"

Init == tip = Genesis /\ cands = {} /\ grown = 0 /\ hist = <<>>

\* BlockManager.Import(reader) ... callback
Import(b) ==
  LET res == ImportRes(tip, b) IN
  /\ ~(b.prev = "stale" /\ tip.height = 0)              \* the genesis block has no parent
  /\ hist' = Append(hist, [op |-> "import", tip |-> tip, b |-> b, res |-> res])
  /\ cands' = IF res = "ok" THEN cands \cup {[id |-> Len(hist) + 1, ts |-> b.ts]} ELSE cands
  /\ UNCHANGED <<tip, grown>>
\* BlockManager.Finalize(candidate)
Finalize(c) ==
  /\ grown < MaxGrow
  /\ tip' = [height |-> tip.height + 1, ts |-> c.ts] /\ cands' = {} /\ grown' = grown + 1
  /\ hist' = Append(hist, [op |-> "finalize", of |-> c.id, tip |-> tip'])

Can == Len(hist) < MaxOps
Next == \/ Can /\ \E b \in Blocks : Import(b)
        \/ Can /\ \E c \in cands : Finalize(c)
Spec == Init /\ [][Next]_vars

----------------------------------------------------------------------------
TypeOK == /\ tip.height \in 0..MaxGrow /\ tip.ts \in Times
          /\ \A c \in cands : c.ts \in Times
Last == hist'[Len(hist')]
Stepped == hist' # hist
Accepted == Stepped /\ Last.op = "import" /\ Last.res = "ok"

\* C07: an accepted block has the parent's height plus one, names the parent, has the required version,
\* carries a certificate for the parent, and above height 1 its timestamp is the median of the vote
\* timestamps and strictly greater than the parent's
AcceptedExtendsParent ==
  [][Accepted => LET b == Last.b IN
        /\ b.dh = 0 /\ b.prev = "tip" /\ b.ver = "ok" /\ b.st = "ok" /\ CertOK(tip, b.votes)
        /\ (tip.height + 1 > 1) => (b.ts = Median(b.votes) /\ b.ts > tip.ts)]_vars
\* any single-field deviation from an acceptable block is rejected (timestamps: above height 1)
Deviations(b) ==
  {[b EXCEPT !.dh = d] : d \in {-1, 0, 1} \ {b.dh}} \cup
  {[b EXCEPT !.prev = p] : p \in {"stale", "unknown"}} \cup
  {[b EXCEPT !.ver = v] : v \in {"old", "new"}} \cup
  {[b EXCEPT !.st = x] : x \in {"result", "validators", "bloom"}}
TsDeviations(b) == {[b EXCEPT !.ts = t] : t \in Times \ {b.ts}}
SingleDeviationRejected ==
  [][Accepted => /\ \A d \in Deviations(Last.b) : ImportRes(tip, d) # "ok"
                 /\ tip.height >= 1 => \A d \in TsDeviations(Last.b) : ImportRes(tip, d) # "ok"]_vars
\* the finalized chain grows by one height at a time and, above height 1, forward in time
ChainMonotone ==
  [][(Stepped /\ Last.op = "finalize") =>
        /\ tip'.height = tip.height + 1
        /\ tip.height >= 1 => tip'.ts > tip.ts]_vars
\* the median is a value between the two middle votes; with an odd count it is one of the votes
MedianSane == \A s \in VoteLists \ {<<>>} :
                 /\ Median(s) >= s[(Len(s) + 1) \div 2] /\ Median(s) <= s[Len(s) \div 2 + 1]
                 /\ Len(s) % 2 = 1 => \E i \in 1..Len(s) : s[i] = Median(s)
=============================================================================
