SPECIFICATION Spec
CONSTANTS
  Variants = {1, 2}
  MaxLen = 3
  MaxHandles = 3
  MaxOps = 6
  Misuse = FALSE
  Race = FALSE
  Quiet = FALSE
VIEW ViewNoHist
INVARIANTS TypeOK ChainIsPath TreeShape RefsPositive HeldIsPresent DiscardedStaysOut WaitersGetChain
PROPERTIES OnlyChildFinalized NoTraceOfFailure OnlyFinalizeMovesFin
