---------------------------- MODULE BlockTree ----------------------------
(* The block manager's candidate tree (block/manager.go, block/blockcandidate.go).

   The manager keeps a tree of block nodes (nmap) rooted at the last finalized block.  A node is kept
   alive by references: one per live candidate handle given to a caller (newCandidate / Dup), one per
   child node, one for being the last finalized block.  Dispose of a handle drops its reference; a node
   whose count reaches zero is removed and drops its reference on its parent (unrefNode/removeNode).
   Finalize(c) is allowed only for a child of the last finalized block; it removes the old root and all
   other branches, whatever their reference counts (removeNodeExcept).

   Blocks are named by their path below the initial finalized block R = <<>>: the child of parent p
   built from the vote list variant v is Append(p, v); proposing or importing the same (p, v) again yields
   the same block (same id) and another reference to the same node.

   One action per public call: Propose, Import (of the encoded child (p, v)), ImportBlock (of the decoded child), Finalize, Dispose, Dup of a
   handle, the readers GetLastBlock / GetBlockByHeight / GetBlock, WaitForBlock, and Cancel of a request
   (which in this manager can win only while the request is still executing). *)
EXTENDS Integers, Sequences, FiniteSets, TLC
CONSTANTS Variants,     \* vote-list variants per parent (branching)
          MaxLen,       \* longest path explored below R
          MaxHandles,   \* handles given out in a behaviour
          MaxOps,
          Misuse,       \* TRUE: also explore Dispose of an already disposed handle (contract violation by the caller)
          Quiet,        \* TRUE: only the calls that change the tree (no readers, waiters, late cancels): deeper trees per walk
          Race          \* TRUE: also explore a parent given back while a request on it is still executing

Root == <<>>
Paths == UNION {[1..k -> Variants] : k \in 0..MaxLen}
Parent(n) == SubSeq(n, 1, Len(n) - 1)
IsPrefix(a, b) == Len(a) <= Len(b) /\ SubSeq(b, 1, Len(a)) = a

VARIABLES present,   \* nodes in the manager's map
          fin,       \* the last finalized block
          chain,     \* all finalized blocks in order (chain[1] = R)
          hs,        \* handles in creation order: [node, live]
          waits,     \* WaitForBlock calls in order: [height, got]  (got = <<>> or <<delivered block>>)
          created,   \* every node that has ever been in the map (ghost)
          hist
vars == <<present, fin, chain, hs, waits, created, hist>>

Height(n) == Len(n)            \* relative to R
Handles == DOMAIN hs
LiveOn(n, h) == {i \in DOMAIN h : h[i].live /\ h[i].node = n}
Kids(n, pres) == {m \in pres : Len(m) = Len(n) + 1 /\ Parent(m) = n}
Refs(n, pres, h, f) == Cardinality(LiveOn(n, h)) + Cardinality(Kids(n, pres)) + (IF n = f THEN 1 ELSE 0)
\* nodes without a reference disappear, which may free their parents in turn
RECURSIVE Collapse(_, _, _)
Collapse(pres, h, f) ==
  LET dead == {n \in pres : Refs(n, pres, h, f) = 0} IN
  IF dead = {} THEN pres ELSE Collapse(pres \ dead, h, f)

\* the voters of a block are taken from the finalized block below it, so only the last finalized block and
\* its children can be extended
ExtendRes(p) == IF p \notin present THEN "noparent"
                ELSE IF p = fin \/ (p # Root /\ Parent(p) = fin) THEN "ok" ELSE "novoters"

Log(r) == hist' = Append(hist, r @@ [after |-> [fin |-> fin', present |-> present',
                                                  refs |-> {<<n, Refs(n, present', hs', fin')>> : n \in present'},
                                                  got |-> [i \in DOMAIN waits' |-> waits'[i].got]]])

Init == /\ present = {Root} /\ fin = Root /\ chain = <<Root>> /\ hs = <<>> /\ waits = <<>>
        /\ created = {Root} /\ hist = <<>>

\* Propose(parent, votes) / Import(bytes of the child) followed by the callback
Extend(op, p, v) ==
  LET res == ExtendRes(p)
      c == Append(p, v) IN
  /\ Len(hs) < MaxHandles /\ Len(p) < MaxLen
  /\ IF res = "ok"
     THEN /\ present' = present \cup {c} /\ created' = created \cup {c}
          /\ hs' = Append(hs, [node |-> c, live |-> TRUE])
     ELSE UNCHANGED <<present, created, hs>>
  /\ UNCHANGED <<fin, chain, waits>>
  /\ Log([op |-> op, p |-> p, v |-> v, res |-> res, h |-> IF res = "ok" THEN Len(hs) + 1 ELSE 0])
\* a request that is cancelled while it is still executing: Cancel returns true, the callback never comes,
\* nothing changes
ExtendCancelled(op, p, v) ==
  /\ ExtendRes(p) = "ok" /\ Len(p) < MaxLen
  /\ UNCHANGED <<present, fin, chain, hs, waits, created>>
  /\ Log([op |-> op, p |-> p, v |-> v, res |-> "cancelled", h |-> 0])
\* a request on candidate p is accepted, and before it completes the only holder h of p disposes it, so p leaves
\* the map: the request must fail or stay silent (never crash); the tree is as after the Dispose alone
ExtendRaced(p, v, h) ==
  /\ Race /\ ExtendRes(p) = "ok" /\ Len(p) < MaxLen /\ p # fin
  /\ hs[h].live /\ hs[h].node = p
  /\ p \notin Collapse(present, [hs EXCEPT ![h].live = FALSE], fin)
  /\ hs' = [hs EXCEPT ![h].live = FALSE]
  /\ present' = Collapse(present, hs', fin)
  /\ UNCHANGED <<fin, chain, waits, created>>
  /\ Log([op |-> "raced", p |-> p, v |-> v, h |-> h, res |-> "dropped"])
\* Cancel of a request that has already called back: returns false, nothing changes
CancelLate(h) ==
  /\ UNCHANGED <<present, fin, chain, hs, waits, created>>
  /\ Log([op |-> "cancel", h |-> h, res |-> "false"])

Finalize(h) ==
  LET n == hs[h].node
      ok == n \in present /\ n # Root /\ n # fin /\ Parent(n) = fin IN
  /\ hs[h].live
  /\ IF ok THEN /\ present' = {m \in present : IsPrefix(n, m)}
                /\ fin' = n /\ chain' = Append(chain, n)
                /\ waits' = [i \in DOMAIN waits |->
                               IF waits[i].got = <<>> /\ waits[i].height = Height(n)
                               THEN [waits[i] EXCEPT !.got = <<n>>] ELSE waits[i]]
           ELSE UNCHANGED <<present, fin, chain, waits>>
  /\ UNCHANGED <<hs, created>>
  /\ Log([op |-> "finalize", h |-> h, res |-> IF ok THEN "ok" ELSE "invalid"])

Dispose(h) ==
  /\ hs[h].live
  /\ hs' = [hs EXCEPT ![h].live = FALSE]
  /\ present' = Collapse(present, hs', fin)
  /\ UNCHANGED <<fin, chain, waits, created>>
  /\ Log([op |-> "dispose", h |-> h, res |-> "ok"])
\* contract violation by the caller: the required outcome is "no effect"
DisposeAgain(h) ==
  /\ Misuse /\ ~hs[h].live
  /\ UNCHANGED <<present, fin, chain, hs, waits, created>>
  /\ Log([op |-> "dispose", h |-> h, res |-> "again"])

Dup(h) ==
  /\ hs[h].live /\ Len(hs) < MaxHandles
  /\ hs' = Append(hs, [node |-> hs[h].node, live |-> TRUE])
  /\ UNCHANGED <<present, fin, chain, waits, created>>
  /\ Log([op |-> "dup", h |-> h, res |-> "ok", nh |-> Len(hs) + 1])

\* readers
GetLast == /\ UNCHANGED <<present, fin, chain, hs, waits, created>>
           /\ Log([op |-> "getlast", res |-> fin])
GetByHeight(k) == /\ UNCHANGED <<present, fin, chain, hs, waits, created>>
                  /\ Log([op |-> "getbyheight", k |-> k,
                          res |-> IF k <= Height(fin) THEN chain[k + 1] ELSE "notfound"])
GetBlock(n) == /\ n \in created
               /\ UNCHANGED <<present, fin, chain, hs, waits, created>>
               /\ Log([op |-> "getblock", n |-> n,
                       res |-> IF \E i \in DOMAIN chain : chain[i] = n THEN "found" ELSE "notfound"])
WaitFor(k) == /\ Len(waits) < 2
              /\ waits' = Append(waits, [height |-> k, got |-> IF k <= Height(fin) THEN <<chain[k + 1]>> ELSE <<>>])
              /\ UNCHANGED <<present, fin, chain, hs, created>>
              /\ Log([op |-> "waitfor", k |-> k, res |-> IF k <= Height(fin) THEN chain[k + 1] ELSE "pending"])

Can == Len(hist) < MaxOps
Next == \/ Can /\ \E op \in {"propose", "import", "importblock"}, p \in Paths, v \in Variants : p \in created /\ Extend(op, p, v)
        \/ Can /\ \E op \in {"propose", "import", "importblock"}, p \in Paths, v \in Variants : p \in created /\ ExtendCancelled(op, p, v)
        \/ Can /\ \E p \in Paths, v \in Variants, h \in Handles : p \in created /\ ExtendRaced(p, v, h)
        \/ Can /\ \E h \in Handles : Finalize(h)
        \/ Can /\ \E h \in Handles : Dispose(h)
        \/ Can /\ \E h \in Handles : DisposeAgain(h)
        \/ Can /\ \E h \in Handles : Dup(h)
        \/ Can /\ ~Quiet /\ \E h \in Handles : CancelLate(h)
        \/ Can /\ ~Quiet /\ GetLast
        \/ Can /\ ~Quiet /\ \E k \in 0..MaxLen : GetByHeight(k)
        \/ Can /\ ~Quiet /\ \E n \in Paths : GetBlock(n)
        \/ Can /\ ~Quiet /\ \E k \in 0..MaxLen : WaitFor(k)
Spec == Init /\ [][Next]_vars

----------------------------------------------------------------------------
TypeOK == /\ present \subseteq Paths /\ fin \in present /\ present \subseteq created
          /\ \A i \in DOMAIN hs : hs[i].node \in created
\* the finalized blocks form a path: each one is a child of the previous one, heights are contiguous,
\* and the readers agree with it (chain[k+1] has height k, the last one is fin)
ChainIsPath == /\ chain[Len(chain)] = fin
               /\ \A i \in 1..Len(chain) : Height(chain[i]) = i - 1
               /\ \A i \in 2..Len(chain) : Parent(chain[i]) = chain[i - 1]
\* the map holds exactly the last finalized block and blocks above it, at most two levels
TreeShape == \A n \in present : IsPrefix(fin, n) /\ Len(n) <= Len(fin) + 2
\* a node is in the map exactly while somebody refers to it; a block above the root whose handles are all
\* disposed and which has no children is gone
RefsPositive == \A n \in present : Refs(n, present, hs, fin) > 0
\* a candidate stays usable while some holder has not disposed it, unless its branch was discarded
HeldIsPresent == \A i \in DOMAIN hs : (hs[i].live /\ IsPrefix(fin, hs[i].node)) => hs[i].node \in present
\* a discarded branch never comes back: whatever is not above the last finalized block stays out of the map,
\* so it cannot be finalized or used as a parent any more
DiscardedStaysOut == \A n \in created : ~IsPrefix(fin, n) => n \notin present
Last == hist'[Len(hist')]
Stepped == hist' # hist
\* only a child of the last finalized block can be finalized
OnlyChildFinalized ==
  [][(Stepped /\ Last.op = "finalize" /\ Last.res = "ok") => (Parent(fin') = fin /\ fin' \in present)]_vars
\* a cancelled or failed request leaves no trace and hands out no candidate
NoTraceOfFailure ==
  [][(Stepped /\ Last.op \in {"propose", "import"} /\ Last.res # "ok") => (present' = present /\ hs' = hs)]_vars
\* nothing but Finalize moves the last finalized block
OnlyFinalizeMovesFin == [][(Stepped /\ Last.op # "finalize") => (fin' = fin /\ chain' = chain)]_vars
\* a waiter gets exactly the finalized block of its height
WaitersGetChain == \A i \in DOMAIN waits : waits[i].got # <<>> => waits[i].got = <<chain[waits[i].height + 1]>>
=============================================================================
