SPECIFICATION Spec
CONSTANTS
  Shapes <- RealShapes
  NHeader = 12
  NBody = 4
VIEW ViewNoHist
INVARIANT TypeOK
PROPERTIES RoundTrip Binding ForeignPartRejected TruncatedRejected MalformedProposerRejected
