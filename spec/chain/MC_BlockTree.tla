---- MODULE MC_BlockTree ----
EXTENDS BlockTree
ViewNoHist == <<present, fin, chain, hs, waits, created, Len(hist)>>
====
