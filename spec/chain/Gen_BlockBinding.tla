---- MODULE Gen_BlockBinding ----
EXTENDS MC_BlockBinding, Json
\* every reachable stream is decoded once; the behaviour is printed by Done (once per end state)
Done == /\ done /\ Len(hist) = 1
        /\ PrintT(<<"B", ToJson(hist)>>)
        /\ hist' = Append(hist, [op |-> "done"]) /\ UNCHANGED <<x, y, src, dmg, done>>
GenNext == Next \/ Done
GenSpec == Init /\ [][GenNext]_vars
====
