---- MODULE Gen_BlockTree ----
EXTENDS BlockTree, Json
CONSTANT Depth
\* every behaviour of Depth calls (BFS) or a random walk (-simulate), printed once by the closing step
Done == /\ Len(hist) = Depth
        /\ PrintT(<<"B", ToJson(hist)>>)
        /\ hist' = Append(hist, [op |-> "done"]) /\ UNCHANGED <<present, fin, chain, hs, waits, created>>
GenNext == (Len(hist) < Depth /\ Next) \/ Done
GenSpec == Init /\ [][GenNext]_vars
====
