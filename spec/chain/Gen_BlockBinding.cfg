SPECIFICATION GenSpec
CONSTANTS
  Shapes <- RealShapes
  NHeader = 12
  NBody = 4
