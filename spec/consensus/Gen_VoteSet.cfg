SPECIFICATION Spec
CONSTANTS
  N = 4
  Decs = {"nil", "A", "A3", "B"}
  TS = {1, 2}
  MaxOps = 3
  Depth = 3
INVARIANT Emit
