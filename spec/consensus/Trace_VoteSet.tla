---- MODULE Trace_VoteSet ----
(* Verdict by trace validation (C04): the lines are observations of the REAL vote set after
   each add (its slots, the +2/3 decision it reports, whether it reports +2/3 of any votes).
   The property's predicates of VoteSet.tla are evaluated on what the real code held and
   reported; violations are collected per trace and printed at the end. *)
EXTENDS VoteSet, Json
Trace == ndJsonDeserialize("trace.ndjson")
VARIABLES l, prev, bad
tvars == <<l, prev, bad, slot, hist>>
TInit == l = 1 /\ prev = "none" /\ bad = {} /\ slot = <<>> /\ hist = <<>>
TNext ==
  /\ l <= Len(Trace)
  /\ LET e == Trace[l]
         p == IF e.k = 1 THEN "none" ELSE prev
         b1 == IF e.decision # Decision(e.slots) THEN {[t |-> e.t, k |-> e.k, kind |-> "decision-not-exact"]} ELSE {}
         b2 == IF e.any23 # HasTwoThirdsAny(e.slots) THEN {[t |-> e.t, k |-> e.k, kind |-> "any23-not-exact"]} ELSE {}
         b3 == IF p # "none" /\ Decision(e.slots) # p THEN {[t |-> e.t, k |-> e.k, kind |-> "decision-removed"]} ELSE {}
         b4 == IF Cardinality(Winners(e.slots)) > 1 THEN {[t |-> e.t, k |-> e.k, kind |-> "two-decisions"]} ELSE {}
     IN /\ bad' = bad \cup b1 \cup b2 \cup b3 \cup b4
        /\ prev' = Decision(e.slots)
  /\ l' = l + 1 /\ UNCHANGED <<slot, hist>>
TSpec == TInit /\ [][TNext]_tvars
Report == (l = Len(Trace) + 1) => PrintT(<<"R", ToJson([consumed |-> l - 1, bad |-> bad])>>)
====
