---- MODULE Gen_CsScript ----
EXTENDS CsScript, Json
\* a script is complete when the last round ended (or the op budget is used up)
Done == (ph = "end" /\ rnd = MaxRound) \/ Len(hist) >= MaxOps
Emit == Done => PrintT(<<"B", ToJson([me |-> me, byz |-> 0, steps |-> hist])>>)
====
