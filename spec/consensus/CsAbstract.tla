---------------------------- MODULE CsAbstract ----------------------------
(* Design-level safety model of goloop's consensus rules (C01): phase-synchronous
   quorum-evidence abstraction.  Every action of a validator depends on the votes of the others
   only through the predicates polka(r,v) ("more than 2/3 prevotes for v in round r exist") and
   pcq(r,v) (same for precommits); the state keeps those predicates instead of vote sets, and
   Byzantine validators are wild cards in every count.  A round is four global phases
   (propose, prevote, precommit, between); in "between" any validator may unlock on any polka of
   a round above its lock round, commit on any pcq, or crash and restart from its WALs.
   walVal/walRound is what consensus.applyLockWAL would restore.  FixWal = TRUE: the lock WAL is
   written on every (re-)lock (the repaired code); FALSE: only when the locked block changes (the
   code before the repair) -- used as a sensitivity check: TLC must then find the disagreement. *)
EXTENDS Integers, FiniteSets, TLC
CONSTANTS Corr, NByz, Values, MaxRound, MaxCrash, FixWal, Order,
          MidCrash,        \* TRUE: a validator may lose power inside the precommit step, after its lock WAL was synced and
                           \*       before its precommit left ("locknosend"); it restarts from its WALs at once
          SendBeforeSync   \* sensitivity switch (C02): TRUE models an engine that sends a precommit BEFORE the lock is durable
N == Cardinality(Corr) + NByz
Nil == "nil"
None == "none"
Rounds == 0..MaxRound
VARIABLES gr, phase, lockedVal, lockedRound, walVal, walRound, decision, polka, pcq, prop, crashes
vars == <<gr, phase, lockedVal, lockedRound, walVal, walRound, decision, polka, pcq, prop, crashes>>
Proposer(r) == Order[(r % N) + 1]
Q(c) == 3 * (c + NByz) > 2 * N
Init ==
  /\ gr = 0 /\ phase = "propose"
  /\ lockedVal = [i \in Corr |-> None] /\ lockedRound = [i \in Corr |-> -1]
  /\ walVal = [i \in Corr |-> None] /\ walRound = [i \in Corr |-> -1]
  /\ decision = [i \in Corr |-> None]
  /\ polka = [r \in Rounds |-> None] /\ pcq = [r \in Rounds |-> None]
  /\ prop = None /\ crashes = 0
ProposePhase ==
  /\ phase = "propose"
  /\ LET p == Proposer(gr) IN
       IF p = "byz" THEN prop' = "any"
       ELSE IF decision[p] # None THEN prop' = None
       ELSE \/ prop' = None                       \* proposer silent / late
            \/ \E v \in Values : (lockedVal[p] # None => v = lockedVal[p]) /\ prop' = v
  /\ phase' = "prevote"
  /\ UNCHANGED <<gr, lockedVal, lockedRound, walVal, walRound, decision, polka, pcq, crashes>>
PvAllowed(i, v) ==
  \/ v = None
  \/ /\ decision[i] = None
     /\ IF lockedVal[i] # None THEN v = lockedVal[i]
        ELSE (v = Nil \/ (v \in Values /\ (prop = "any" \/ prop = v)))
\* f: what every correct validator prevotes in this round (None = it does not take part)
PrevotePhaseF(f) ==
  /\ phase = "prevote"
  /\ \A i \in Corr : PvAllowed(i, f[i])
  /\ LET win == {v \in Values \cup {Nil} : Q(Cardinality({i \in Corr : f[i] = v}))} IN
       polka' = [polka EXCEPT ![gr] = IF win = {} THEN None ELSE CHOOSE v \in win : TRUE]
  /\ phase' = "precommit"
  /\ UNCHANGED <<gr, lockedVal, lockedRound, walVal, walRound, decision, pcq, prop, crashes>>
PrevotePhase == \E f \in [Corr -> Values \cup {Nil, None}] : PrevotePhaseF(f)
PcAllowed(i, g) ==
  \/ g = "abstain"
  \/ decision[i] = None /\ g = "timeout"
  \/ decision[i] = None /\ g = "lock" /\ polka[gr] \in Values
  \/ decision[i] = None /\ g = "nilpolka" /\ polka[gr] = Nil
  \/ MidCrash /\ decision[i] = None /\ g = "locknosend" /\ polka[gr] \in Values
  \/ SendBeforeSync /\ decision[i] = None /\ g = "sendnolock" /\ polka[gr] \in Values
PcKinds == {"abstain", "timeout", "lock", "nilpolka"} \cup (IF MidCrash THEN {"locknosend"} ELSE {}) \cup (IF SendBeforeSync THEN {"sendnolock"} ELSE {})
Locks(g) == g \in {"lock", "locknosend", "sendnolock"}        \* the volatile lock is taken
Durable(g) == g \in {"lock", "locknosend"}                    \* ... and written to the lock WAL before anything is sent
Sends(g) == g \in {"lock", "sendnolock"}                      \* the precommit reaches the network
\* g: how every correct validator leaves the prevote step of this round
PrecommitPhaseG(g) ==
  /\ phase = "precommit"
  /\    /\ \A i \in Corr : PcAllowed(i, g[i])
        /\ Cardinality({i \in Corr : g[i] = "locknosend"}) + crashes <= MaxCrash
        \* a validator that lost power in the middle of the step comes back with what its WALs hold
        /\ LET nwv == [i \in Corr |-> IF Durable(g[i]) /\ (FixWal \/ lockedVal[i] # polka[gr]) THEN polka[gr] ELSE walVal[i]]
               nwr == [i \in Corr |-> IF Durable(g[i]) /\ (FixWal \/ lockedVal[i] # polka[gr]) THEN gr ELSE walRound[i]]
           IN /\ walVal' = nwv /\ walRound' = nwr
              /\ lockedVal' = [i \in Corr |-> IF g[i] = "locknosend" THEN nwv[i]
                                              ELSE IF Locks(g[i]) THEN polka[gr] ELSE IF g[i] = "nilpolka" THEN None ELSE lockedVal[i]]
              /\ lockedRound' = [i \in Corr |-> IF g[i] = "locknosend" THEN nwr[i]
                                                ELSE IF Locks(g[i]) THEN gr ELSE IF g[i] = "nilpolka" THEN -1 ELSE lockedRound[i]]
        /\ pcq' = [pcq EXCEPT ![gr] = IF Q(Cardinality({i \in Corr : Sends(g[i])})) THEN polka[gr] ELSE None]
        /\ crashes' = crashes + Cardinality({i \in Corr : g[i] = "locknosend"})
  /\ phase' = "between"
  /\ UNCHANGED <<gr, decision, polka, prop>>
PrecommitPhase == \E g \in [Corr -> PcKinds] : PrecommitPhaseG(g)
\* validator i learns of the polka of round r (late or reordered prevotes) and releases its older lock
UnlockR(i, r) ==
  /\ phase = "between" /\ decision[i] = None /\ lockedVal[i] # None
  /\ r > lockedRound[i] /\ polka[r] # None /\ polka[r] # lockedVal[i]
  /\ lockedVal' = [lockedVal EXCEPT ![i] = None]
  /\ lockedRound' = [lockedRound EXCEPT ![i] = -1]
  /\ UNCHANGED <<gr, phase, walVal, walRound, decision, polka, pcq, prop, crashes>>
Unlock(i) == \E r \in Rounds : UnlockR(i, r)
\* validator i learns of the precommit quorum of round r and decides
CommitR(i, r) ==
  /\ phase = "between" /\ decision[i] = None
  /\ pcq[r] # None /\ decision' = [decision EXCEPT ![i] = pcq[r]]
  /\ UNCHANGED <<gr, phase, lockedVal, lockedRound, walVal, walRound, polka, pcq, prop, crashes>>
Commit(i) == \E r \in Rounds : CommitR(i, r)
CrashRestart(i) ==
  /\ phase = "between" /\ decision[i] = None /\ crashes < MaxCrash
  /\ crashes' = crashes + 1
  /\ lockedVal' = [lockedVal EXCEPT ![i] = walVal[i]]
  /\ lockedRound' = [lockedRound EXCEPT ![i] = walRound[i]]
  /\ UNCHANGED <<gr, phase, walVal, walRound, decision, polka, pcq, prop>>
NextRound ==
  /\ phase = "between" /\ gr < MaxRound
  /\ gr' = gr + 1 /\ phase' = "propose" /\ prop' = None
  /\ UNCHANGED <<lockedVal, lockedRound, walVal, walRound, decision, polka, pcq, crashes>>
Next == ProposePhase \/ PrevotePhase \/ PrecommitPhase \/ NextRound
        \/ \E i \in Corr : Unlock(i) \/ Commit(i) \/ CrashRestart(i)
Spec == Init /\ [][Next]_vars
Agreement == \A i, j \in Corr : (decision[i] # None /\ decision[j] # None) => decision[i] = decision[j]
\* a decision is backed by a precommit quorum of some round; a lock by the polka of its round
CommitHasQuorum == \A i \in Corr : decision[i] # None => \E r \in Rounds : pcq[r] = decision[i]
ValidLock == \A i \in Corr : lockedVal[i] # None => polka[lockedRound[i]] = lockedVal[i]
=============================================================================
