---- MODULE Trace_CsContract ----
(* Trace validation of recorded executions of real consensus engines against CsContract.
   Lines (ndjson): {"ev":"init","t":id,"me":i,"h":height} starts a new execution; then
   recv / sign / signprop / walwrite / walvote / walsync / restart / finalize events in the order in
   which the engine's wrappers saw them.  Every guard of the contract is evaluated on every
   sign, send and finalize; violations are collected per execution and reported at the end. *)
EXTENDS CsContract, Json
Trace == ndJsonDeserialize("trace.ndjson")
VARIABLES l, st, tid, ht, bad
tvars == <<l, st, tid, ht, bad>>
TInit == l = 1 /\ st = Empty(0) /\ tid = "" /\ ht = 1 /\ bad = {}
Mark(e, ks) == {[t |-> tid, line |-> l, seq |-> e.seq, kind |-> k] : k \in ks}
TNext ==
  /\ l <= Len(Trace)
  /\ l' = l + 1
  /\ LET e == Trace[l] IN
     CASE e.ev = "init" -> st' = Empty(e.me) /\ tid' = e.t /\ ht' = e.h /\ bad' = bad
       [] e.ev = "recv" -> st' = DoRecv(st, e.from, e.type, e.r, e.val) /\ UNCHANGED <<tid, ht, bad>>
       [] e.ev = "sign" ->
            /\ bad' = bad \cup Mark(e, SignVoteViolations(st, e.type, e.r, e.val, e.mid) \cup SendViolations(st, e.mid))
            /\ st' = DoSignVote(st, e.type, e.r, e.val, e.mid) /\ UNCHANGED <<tid, ht>>
       [] e.ev = "signprop" ->
            /\ bad' = bad \cup Mark(e, SignPropViolations(st, ht, e.r, e.val, e.pol, e.mid) \cup SendViolations(st, e.mid))
            /\ st' = DoSignProp(st, e.r, e.val, e.pol, e.mid) /\ UNCHANGED <<tid, ht>>
       [] e.ev = "walwrite" -> st' = DoWalWrite(st, e.mid) /\ UNCHANGED <<tid, ht, bad>>
       [] e.ev = "walvote" -> st' = DoWalVote(st, e.mid, e.type, e.r, e.val) /\ UNCHANGED <<tid, ht, bad>>
       [] e.ev = "walsync" -> st' = DoWalSync(st) /\ UNCHANGED <<tid, ht, bad>>
       [] e.ev = "restart" -> st' = DoRestart(st) /\ UNCHANGED <<tid, ht, bad>>
       [] e.ev = "finalize" ->
            /\ bad' = bad \cup Mark(e, FinalizeViolations(st, e.val))
            /\ st' = DoFinalize(st, e.val) /\ UNCHANGED <<tid, ht>>
       [] OTHER -> UNCHANGED <<st, tid, ht, bad>>
TSpec == TInit /\ [][TNext]_tvars
Report == (l = Len(Trace) + 1) => PrintT(<<"R", ToJson([consumed |-> l - 1, bad |-> bad])>>)
====
