SPECIFICATION Spec
CONSTANTS
  MaxRecs = 3
  Payloads = {1, 2}
  MaxCrash = 2
  MaxSegs = 2
  HDR = 2
  Impl = "required"
  FileLimit = 0
  TotalLimit = 0
  EagerSync = FALSE
  MaxOps = 9
VIEW ViewNoHist
INVARIANT TypeOK
PROPERTIES DurableSurvive PrefixOnly CleanAfterRecover
