---- MODULE MC_CsAbstract7 ----
EXTENDS CsAbstract
\* seven validators, two of them Byzantine (one Byzantine slot appears twice in the proposer rotation)
OrderDef == <<"c", "byz", "a", "b", "d", "byz", "e">>
====
