------------------------------ MODULE CsScript ------------------------------
(* Round-structured environment of one real engine (validator `me` of 4, height 1).
   Same vocabulary of operations as CsEnv (proposal / votes / wait / crash), but the
   environment plays rounds the way a (partly Byzantine) network typically unfolds: per round a
   proposal phase, a prevote phase, a precommit phase and an end-of-round phase, each with a
   small set of patterns (quorum for the round's value, quorum for an older value, nil quorum,
   split votes + timeout, silence + timeout, late votes of the previous round), and a power
   loss or graceful restart may hit between any two phases.  Generator only: the verdict is
   taken by Trace_CsContract on what the real engine did. *)
EXTENDS Integers, Sequences, FiniteSets, TLC
CONSTANTS H, N, MaxRound, MaxCrash, MaxOps
Vals == 0..(N - 1)
VARIABLES me, rnd, ph, rval, seen, crashes, hist
vars == <<me, rnd, ph, rval, seen, crashes, hist>>
Others == Vals \ {me}
Proposer(r) == (H + r) % N
BlockOf(i) == "B" \o ToString(i)
Nil == "nil"
\* rval: the value proposed in the current round ("none" if nothing was proposed)
\* seen: values that were proposed or voted for so far, with the round of their (possible) polka: set of <<val, round>>
SeenVals == {p[1] : p \in seen}
Init == /\ me \in Vals /\ rnd = 0 /\ ph = "prop" /\ rval = "none" /\ seen = {} /\ crashes = 0 /\ hist = <<>>
Add(ops) == hist' = hist \o ops
Prop(r, v, pol) == [op |-> "proposal", r |-> r, from |-> Proposer(r), val |-> v, pol |-> pol]
Votes(t, r, S, v) == [op |-> "votes", type |-> t, r |-> r, from |-> S, val |-> v]
W == [op |-> "wait"]
TwoOf == {S \in SUBSET Others : Cardinality(S) = 2}
OneOf == {S \in SUBSET Others : Cardinality(S) = 1}

\* ---- proposal phase ----
PropPhase ==
  /\ ph = "prop"
  /\ IF Proposer(rnd) = me
       THEN /\ rval' = "own" /\ Add(<<>>)                      \* the engine proposes by itself
       ELSE \/ /\ rval' = BlockOf(Proposer(rnd)) /\ Add(<<Prop(rnd, BlockOf(Proposer(rnd)), -1)>>)
            \/ \E p \in seen : /\ p[2] < rnd /\ rval' = p[1] /\ Add(<<Prop(rnd, p[1], p[2])>>)   \* re-proposal with POL round
            \/ \E i \in Others \ {Proposer(rnd)} : /\ rval' = "none" /\ Add(<<Prop(rnd, BlockOf(i), -1)>>)  \* foreign proposer field
            \/ /\ rval' = "none" /\ Add(<<W>>)                 \* nothing arrives: propose timeout
  /\ ph' = "pv" /\ UNCHANGED <<me, rnd, seen, crashes>>
\* ---- prevote phase ----
PvPhase ==
  /\ ph = "pv"
  /\ \/ \E v \in (SeenVals \cup {rval}) \ {"none"} :
          \/ \E S \in TwoOf : Add(<<Votes("pv", rnd, S, v)>>) /\ seen' = seen \cup {<<v, rnd>>}
          \/ Add(<<Votes("pv", rnd, Others, v)>>) /\ seen' = seen \cup {<<v, rnd>>}
          \/ \E S \in OneOf : Add(<<Votes("pv", rnd, S, v), Votes("pv", rnd, Others \ S, Nil), W>>) /\ seen' = seen
     \/ Add(<<Votes("pv", rnd, Others, Nil)>>) /\ seen' = seen
     \/ \E S \in TwoOf : Add(<<Votes("pv", rnd, S, Nil), W>>) /\ seen' = seen
     \/ Add(<<W>>) /\ seen' = seen
  /\ ph' = "pc" /\ UNCHANGED <<me, rnd, rval, crashes>>
\* ---- precommit phase ----
PcPhase ==
  /\ ph = "pc"
  /\ \/ \E v \in (SeenVals \cup {rval}) \ {"none"} :
          \/ \E S \in TwoOf : Add(<<Votes("pc", rnd, S, v)>>)
          \/ Add(<<Votes("pc", rnd, Others, v)>>)
          \/ \E S \in OneOf : Add(<<Votes("pc", rnd, S, v), Votes("pc", rnd, Others \ S, Nil), W>>)
     \/ Add(<<Votes("pc", rnd, Others, Nil)>>)
     \/ \E S \in TwoOf : Add(<<Votes("pc", rnd, S, Nil), W>>)
     \/ Add(<<W>>)
  /\ ph' = "end" /\ UNCHANGED <<me, rnd, rval, seen, crashes>>
\* ---- end of round: optionally late prevotes of this round for another value, then the next round ----
EndPhase ==
  /\ ph = "end" /\ rnd < MaxRound
  /\ \/ Add(<<>>)
     \/ \E v \in SeenVals \ {"none", "own"}, S \in TwoOf \cup {Others} :      \* a fast-sync result
            Add(<<[op |-> "block", r |-> rnd, from |-> S, val |-> v]>>)
     \/ \E v \in (SeenVals \cup {Nil}) \ {"none"} : Add(<<Votes("pv", rnd, Others, v)>>)
     \/ Add(<<W>>)
  /\ rnd' = rnd + 1 /\ ph' = "prop" /\ rval' = "none" /\ UNCHANGED <<me, seen, crashes>>
\* ---- power loss / restart between any two phases ----
Crash(mode, k) ==
  /\ crashes < MaxCrash /\ crashes' = crashes + 1
  /\ Add(<<[op |-> "crash", mode |-> mode, k |-> k]>>)
  /\ UNCHANGED <<me, rnd, ph, rval, seen>>
Can == Len(hist) < MaxOps
Next == \/ Can /\ PropPhase
        \/ Can /\ PvPhase
        \/ Can /\ PcPhase
        \/ Can /\ EndPhase
        \/ \E mode \in {"graceful", "synced", "torn", "all"}, k \in {1, 3, 1000} : Can /\ Crash(mode, k)
Spec == Init /\ [][Next]_vars
=============================================================================
