---- MODULE MC_Wal ----
EXTENDS Wal
ViewNoHist == <<segs, synced, plen, durable, open, crashes, logical, lastRead, head, flushed, trimmed, Len(hist)>>
====
