SPECIFICATION Spec
CONSTANTS
  Corr = {"a", "b", "c"}
  NByz = 1
  Values = {"A", "B"}
  MaxRound = 3
  MaxCrash = 2
  MidCrash = TRUE
  SendBeforeSync = FALSE
  FixWal = TRUE
  Order <- OrderDef
INVARIANTS Agreement CommitHasQuorum ValidLock
