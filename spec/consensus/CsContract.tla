----------------------------- MODULE CsContract -----------------------------
(* Per-validator safety contract of the consensus engine at one height (C01, C02): what a
   correct validator may sign, send and finalize, given everything it has EVER received and
   signed (the sets survive restarts; volatile engine state is deliberately not part of it).
   A validator that keeps this contract cannot contribute to a disagreement as long as fewer
   than one third of the validators are Byzantine (checked on the composition CsContractSys).

   The operators are parameterised by the state so that the trace specification can evaluate
   them on recorded executions of real engines. *)
EXTENDS Integers, FiniteSets, Sequences, TLC
CONSTANTS N                          \* number of validators
Nil == "nil"
\* a state of the contract: [me, recv, signed, sprops, fin, pend, dur]
\*   recv    set of votes received   [from, type, r, val]
\*   signed  set of own votes        [type, r, val, mid]     (mid identifies the signed bytes)
\*   sprops  set of own proposals    [r, val, pol, mid]
\*   fin     "none" or the finalized value
\*   pend    mids written to the round WAL but not yet synced;  dur  mids durably logged
\*   logged  own votes [type, r, val] written to the round WAL: the engine signs a vote, logs it, syncs, and only then
\*           sends it; a vote that was logged but not sent before a power loss is restored from the WAL and counts in
\*           the engine's own vote sets like a sent one
Empty(me) == [me |-> me, recv |-> {}, signed |-> {}, sprops |-> {}, fin |-> "none", pend |-> {}, dur |-> {}, logged |-> {}]

\* own votes count like received ones (the engine adds them to its own vote sets)
Seen(s) == s.recv \cup {[from |-> s.me, type |-> v.type, r |-> v.r, val |-> v.val] : v \in s.signed}
                  \cup {[from |-> s.me, type |-> v.type, r |-> v.r, val |-> v.val] : v \in s.logged}
Voters(s, type, r, val) == {m.from : m \in {x \in Seen(s) : x.type = type /\ x.r = r /\ x.val = val}}
Quorum(S) == 3 * Cardinality(S) > 2 * N
Polka(s, r, val) == Quorum(Voters(s, "pv", r, val))
PcQuorum(s, r, val) == Quorum(Voters(s, "pc", r, val))
Decisions(s) == {m.val : m \in Seen(s)}
Rounds(s) == {m.r : m \in Seen(s)}
Proposer(h, r) == (h + r) % N
\* a lock taken by precommitting v1 in round r1 is released only by a polka of a later round for something else
Released(s, r1, v1) == \E r2 \in Rounds(s) : r2 > r1 /\ \E d \in Decisions(s) : d # v1 /\ Polka(s, r2, d)
\* the value (if any) this validator is still bound to at round r: a non-nil precommit of an earlier round
\* that no later polka released
BoundTo(s, r) == {v.val : v \in {x \in s.signed : x.type = "pc" /\ x.val # Nil /\ x.r < r /\ ~Released(s, x.r, x.val)}}

\* ---- guards (each returns the set of violated clauses, {} = allowed) ----
SignVoteViolations(s, type, r, val, mid) ==
     (IF \E v \in s.signed : v.type = type /\ v.r = r /\ v.mid # mid THEN {"equivocation"} ELSE {})
\cup (IF type = "pc" /\ val # Nil /\ ~Polka(s, r, val) THEN {"precommit-without-polka"} ELSE {})
\cup (IF type = "pv" /\ val # Nil /\ (BoundTo(s, r) \ {val}) # {} THEN {"prevote-against-lock"} ELSE {})
\cup (IF type = "pc" /\ val # Nil /\ (BoundTo(s, r) \ {val}) # {} THEN {"precommit-against-lock"} ELSE {})
SignPropViolations(s, h, r, val, pol, mid) ==
     (IF \E p \in s.sprops : p.r = r /\ p.mid # mid THEN {"proposal-equivocation"} ELSE {})
\cup (IF Proposer(h, r) # s.me THEN {"proposal-not-proposer"} ELSE {})
\cup (IF (BoundTo(s, r) \ {val}) # {} THEN {"proposal-against-lock"} ELSE {})
SendViolations(s, mid) == IF mid \in s.dur THEN {} ELSE {"sent-before-durable"}
FinalizeViolations(s, val) ==
     (IF s.fin \notin {"none", val} THEN {"finalized-twice"} ELSE {})
\cup (IF ~\E r \in Rounds(s) : PcQuorum(s, r, val) THEN {"finalize-without-quorum"} ELSE {})

\* ---- updates ----
DoRecv(s, from, type, r, val) == [s EXCEPT !.recv = @ \cup {[from |-> from, type |-> type, r |-> r, val |-> val]}]
DoSignVote(s, type, r, val, mid) == [s EXCEPT !.signed = @ \cup {[type |-> type, r |-> r, val |-> val, mid |-> mid]}]
DoSignProp(s, r, val, pol, mid) == [s EXCEPT !.sprops = @ \cup {[r |-> r, val |-> val, pol |-> pol, mid |-> mid]}]
DoWalWrite(s, mid) == [s EXCEPT !.pend = @ \cup {mid}]
DoWalVote(s, mid, type, r, val) == [s EXCEPT !.pend = @ \cup {mid}, !.logged = @ \cup {[type |-> type, r |-> r, val |-> val]}]
DoWalSync(s) == [s EXCEPT !.dur = @ \cup s.pend, !.pend = {}]
DoRestart(s) == [s EXCEPT !.pend = {}]      \* unsynced bytes may or may not have survived; they are not durable
DoFinalize(s, val) == [s EXCEPT !.fin = val]
=============================================================================
