SPECIFICATION Spec
CONSTANTS
  H = 1
  N = 4
  MaxRound = 3
  MaxWait = 3
  MaxCrash = 2
  MaxOps = 14
  Depth = 14
INVARIANT Emit
