---------------------------- MODULE CsContractSys ----------------------------
(* Composition check for the per-validator contract: correct validators that do nothing but
   what CsContract allows (given what each of them has received so far), an asynchronous
   network (any message may be delivered to any validator at any time, or never) and
   Byzantine validators that may say anything to anyone cannot finalize two different values.
   This is the justification for using CsContract as the verdict-bearing oracle of C01. *)
EXTENDS CsContract
CONSTANTS Corr, Byz, Values, MaxRound, MaxMsgs
ASSUME Cardinality(Corr) + Cardinality(Byz) = N
VARIABLES cs,      \* cs[i]: contract state of correct validator i
          net      \* votes sent by correct validators
svars == <<cs, net>>
Rnds == 0..MaxRound
Types == {"pv", "pc"}
Decs == Values \cup {Nil}
\* anything a Byzantine validator may claim
ByzVotes == [from : Byz, type : Types, r : Rnds, val : Decs]

SInit == cs = [i \in Corr |-> Empty(i)] /\ net = {}
Deliver(i, m) ==
  /\ m \in net \cup ByzVotes /\ m.from # i
  /\ m \notin cs[i].recv
  /\ cs' = [cs EXCEPT ![i] = DoRecv(@, m.from, m.type, m.r, m.val)]
  /\ UNCHANGED net
Mid(t, r, v) == <<t, r, v>>
Sign(i, t, r, v) ==
  /\ Cardinality(net) < MaxMsgs
  /\ ~\E x \in cs[i].signed : x.type = t /\ x.r = r          \* one vote per type and round
  /\ cs[i].fin = "none"
  /\ (SignVoteViolations(cs[i], t, r, v, Mid(t, r, v)) = {})
  /\ cs' = [cs EXCEPT ![i] = DoSignVote(@, t, r, v, Mid(t, r, v))]
  /\ net' = net \cup {[from |-> i, type |-> t, r |-> r, val |-> v]}
Finalize(i, v) ==
  /\ cs[i].fin = "none" /\ v \in Values
  /\ FinalizeViolations(cs[i], v) = {}
  /\ cs' = [cs EXCEPT ![i] = DoFinalize(@, v)]
  /\ UNCHANGED net
SNext == \/ \E i \in Corr, m \in net \cup ByzVotes : Deliver(i, m)
         \/ \E i \in Corr, t \in Types, r \in Rnds, v \in Decs : Sign(i, t, r, v)
         \/ \E i \in Corr, v \in Values : Finalize(i, v)
SSpec == SInit /\ [][SNext]_svars
Agreement == \A i, j \in Corr : (cs[i].fin # "none" /\ cs[j].fin # "none") => cs[i].fin = cs[j].fin
=============================================================================
