------------------------------- MODULE Wal -------------------------------
(* Write-ahead log of the consensus engine (consensus/wal.go) under the crash model of C03:
   a crash persists an arbitrary prefix of the not-yet-synced bytes of the tail segment.

   A log is a sequence of segment files; a record with payload length p is HDR header cells
   (crc + length) followed by p payload cells.  `segs` holds every byte handed to WriteBytes
   (whether it sits in the bufio buffer, the page cache or on the platter is exactly what a
   crash decides), `synced` the per-segment durable watermark.

   Actions = public calls: Write (WriteBytes), Sync, Shift, Close, and the recovery protocol
   used by consensus.applyRoundWAL/applyLockWAL/applyCommitWAL: OpenForRead, ReadBytes until an
   error, CloseAndRepair unless the error is a clean EOF, OpenForWrite.  Recover below is the
   REQUIRED outcome of that protocol.  Impl = "code" switches in the two deviations of wal.go
   found while transcribing it (only used to show that TLC derives them; conformance always
   compares the real code with Impl = "required").

   Housekeep is one pass of the writer's ticker goroutine (walWriter.doHousekeeping), the only
   caller of the rotation in the running system: it looks at the file sizes ON DISK (bytes still
   in the writer's buffer are invisible to it), rotates when the tail file exceeds FileLimit,
   otherwise syncs old unsynced data (EagerSync = the configured SyncInterval has elapsed), and
   then removes whole files from the head while the total seen BEFORE the pass exceeds
   TotalLimit.  Records in removed files are given up deliberately (`trimmed`): the obligations
   of C03 are stated for the records that housekeeping has not released.  FileLimit = 0 switches
   housekeeping off (the configurations of the crash/recovery model proper). *)
EXTENDS Integers, Sequences, FiniteSets, TLC
CONSTANTS MaxRecs, Payloads, MaxCrash, MaxSegs, HDR, Impl, MaxOps, FileLimit, TotalLimit, EagerSync
VARIABLES segs,       \* Seq(Seq(<<rid, pos>>))  bytes appended per segment file
          synced,     \* Seq(Nat)  durable watermark per segment
          plen,       \* Seq(Nat)  payload length of record rid
          durable,    \* set of rids that were completely covered by a sync
          open,       \* writer open?
          crashes,
          logical,    \* rids the log is supposed to hold, in order
          lastRead,   \* result of the last recovery
          head,       \* index of the oldest segment file that still exists
          flushed,    \* Seq(Nat)  bytes of each segment that are in the FILE (the rest sits in the writer's buffer)
          trimmed,    \* rids released by housekeeping
          hist
vars == <<segs, synced, plen, durable, open, crashes, logical, lastRead, head, flushed, trimmed, hist>>

nrec == Len(plen)
Cells(r, p) == [k \in 1..(HDR + p) |-> <<r, k>>]
TailIdx == Len(segs)
RECURSIVE Cat(_, _)
Cat(fs, i) == IF i > Len(fs) THEN <<>> ELSE fs[i] \o Cat(fs, i + 1)
Stream(fs) == Cat(fs, head)
WholeIn(cs) == {r \in 1..nrec : \A k \in 1..(HDR + plen[r]) : \E i \in 1..Len(cs) : cs[i] = <<r, k>>}

Log(r) == hist' = Append(hist, r)
Rec(op) == [op |-> op]

Init == /\ segs = << <<>> >> /\ synced = <<0>> /\ plen = <<>> /\ durable = {} /\ open = TRUE
        /\ crashes = 0 /\ logical = <<>> /\ lastRead = <<>> /\ hist = <<>>
        /\ head = 1 /\ flushed = <<0>> /\ trimmed = {}

Write(p) == /\ open /\ nrec < MaxRecs
            /\ plen' = Append(plen, p)
            /\ segs' = [segs EXCEPT ![TailIdx] = @ \o Cells(nrec + 1, p)]
            /\ logical' = Append(logical, nrec + 1)
            /\ Log([op |-> "write", rid |-> nrec + 1, p |-> p])
            /\ UNCHANGED <<synced, durable, open, crashes, lastRead, head, flushed, trimmed>>
Sync == /\ open
        /\ synced' = [synced EXCEPT ![TailIdx] = Len(segs[TailIdx])]
        /\ durable' = durable \cup WholeIn(Stream(segs))
        /\ flushed' = [flushed EXCEPT ![TailIdx] = Len(segs[TailIdx])]
        /\ Log([op |-> "sync", syncedCells |-> Len(segs[TailIdx])])
        /\ UNCHANGED <<segs, plen, open, crashes, logical, lastRead, head, trimmed>>
\* rotation: sync, close the tail file, start the next one
Shift == /\ open /\ TailIdx < MaxSegs
         /\ synced' = Append([synced EXCEPT ![TailIdx] = Len(segs[TailIdx])], 0)
         /\ durable' = durable \cup WholeIn(Stream(segs))
         /\ segs' = Append(segs, <<>>)
         /\ flushed' = Append([flushed EXCEPT ![TailIdx] = Len(segs[TailIdx])], 0)
         /\ Log(Rec("shift"))
         /\ UNCHANGED <<plen, open, crashes, logical, lastRead, head, trimmed>>
\* graceful close: sync and close
Close == /\ open
         /\ synced' = [synced EXCEPT ![TailIdx] = Len(segs[TailIdx])]
         /\ durable' = durable \cup WholeIn(Stream(segs))
         /\ open' = FALSE
         /\ flushed' = [flushed EXCEPT ![TailIdx] = Len(segs[TailIdx])]
         /\ Log(Rec("close"))
         /\ UNCHANGED <<segs, plen, crashes, logical, lastRead, head, trimmed>>

\* description of a cut of the tail segment for the driver: how many whole records of the tail
\* survive and how the next record is torn
RECURSIVE CutInfo(_, _, _)
CutInfo(cs, cut, whole) ==
  IF cut = 0 \/ cs = <<>> THEN [whole |-> whole, part |-> "none", cells |-> 0]
  ELSE LET r == cs[1][1]  n == HDR + plen[r] IN
       IF cut >= n THEN CutInfo(SubSeq(cs, n + 1, Len(cs)), cut - n, whole + 1)
       ELSE [whole |-> whole, cells |-> cut,
             part |-> IF cut < HDR THEN "hdr-in" ELSE IF cut = HDR THEN "hdr-end" ELSE "pl-in"]
\* rids of the records that start in a cell sequence, in order
TailRids(cs) == LET idx == {i \in 1..Len(cs) : cs[i][2] = 1} IN
                [j \in 1..Cardinality(idx) |-> cs[CHOOSE i \in idx : Cardinality({k \in idx : k <= i}) = j][1]]
\* power loss: the tail keeps its synced part plus any prefix of the rest
Crash(cut) == /\ open /\ crashes < MaxCrash /\ cut \in synced[TailIdx]..Len(segs[TailIdx])
              /\ segs' = [segs EXCEPT ![TailIdx] = SubSeq(@, 1, cut)]
              /\ open' = FALSE /\ crashes' = crashes + 1
              /\ Log([op |-> "crash", cut |-> CutInfo(segs[TailIdx], cut, 0), syncedCells |-> synced[TailIdx],
                      tailRids |-> TailRids(segs[TailIdx])])
              /\ flushed' = [flushed EXCEPT ![TailIdx] = cut]   \* what survives is in the file
              /\ UNCHANGED <<synced, plen, durable, logical, lastRead, head, trimmed>>

\* ---- the reader: parse the concatenation of all segment files ----
\* result of reading one record at offset o of stream s: <<status, rid, nextOffset>>
ReadOne(s, o) ==
  LET avail == Len(s) - o IN
  IF avail = 0 THEN <<"eof", 0, o>>
  ELSE IF avail < HDR THEN <<"torn", 0, o>>
  ELSE LET r == s[o + 1][1]
           hdrOK == \A k \in 1..HDR : s[o + k] = <<r, k>>
       IN IF ~hdrOK THEN <<"corrupt", 0, o>>
          ELSE LET p == plen[r] IN
               IF avail - HDR < p
                 THEN IF Impl = "code" /\ avail - HDR = 0 THEN <<"eof", 0, o>>   \* wal.go: clean EOF
                      ELSE <<"torn", 0, o>>
               ELSE IF \A k \in 1..p : s[o + HDR + k] = <<r, HDR + k>> THEN <<"ok", r, o + HDR + p>>
               ELSE <<"corrupt", 0, o>>
RECURSIVE ReadAll(_, _, _)
ReadAll(s, o, acc) == LET x == ReadOne(s, o) IN
                      IF x[1] = "ok" THEN ReadAll(s, x[3], Append(acc, x[2])) ELSE <<acc, x[1], o>>
\* CloseAndRepair: cut the segment list at stream offset off
RECURSIVE Trunc(_, _, _)
Trunc(fs, i, off) ==
  IF i > Len(fs) THEN <<>>
  ELSE IF off <= Len(fs[i])
         THEN IF Impl = "code" /\ i < Len(fs)
                THEN \* wal.go removes file i itself instead of the later ones
                     IF Len(fs) - i = 1 THEN << fs[i + 1] >> ELSE << SubSeq(fs[i], 1, off) >>
                ELSE << SubSeq(fs[i], 1, off) >>
         ELSE << fs[i] >> \o Trunc(fs, i + 1, off - Len(fs[i]))
Recover ==
  /\ ~open
  /\ LET res == ReadAll(Stream(segs), 0, <<>>) IN
       /\ lastRead' = res[1]
       /\ logical' = res[1]
       /\ IF res[2] = "eof" THEN UNCHANGED <<segs, synced, flushed>>
          ELSE LET nf == SubSeq(segs, 1, head - 1) \o Trunc(segs, head, res[3]) IN
               /\ segs' = nf
               /\ synced' = [i \in 1..Len(nf) |-> IF synced[i] < Len(nf[i]) THEN synced[i] ELSE Len(nf[i])]
               /\ flushed' = [i \in 1..Len(nf) |-> IF flushed[i] < Len(nf[i]) THEN flushed[i] ELSE Len(nf[i])]
       /\ Log([op |-> "recover", read |-> res[1], ended |-> res[2], durable |-> durable, logical |-> logical])
  /\ open' = TRUE
  /\ UNCHANGED <<plen, durable, crashes, head, trimmed>>

\* ---- housekeeping (walWriter.doHousekeeping) ----
OnDisk(i) == flushed[i]
RECURSIVE SumDisk(_, _)
SumDisk(i, j) == IF i > j THEN 0 ELSE OnDisk(i) + SumDisk(i + 1, j)
\* the loop `for wi.totalSize > TotalLimit`: the total was measured before the pass, every removal subtracts
\* the size the file has WHEN it is removed (sz), files up to the old tail are candidates
RECURSIVE TrimTo(_, _, _, _)
TrimTo(h, total, last, sz) == IF total > TotalLimit /\ h <= last THEN TrimTo(h + 1, total - sz[h], last, sz) ELSE h
RidsIn(cs) == {cs[i][1] : i \in 1..Len(cs)}
Housekeep ==
  /\ open /\ FileLimit > 0
  /\ LET total0 == SumDisk(head, TailIdx)
         rotate == OnDisk(TailIdx) > FileLimit
         dosync == ~rotate /\ EagerSync /\ flushed[TailIdx] < Len(segs[TailIdx])
         oldTail == TailIdx
         full == [flushed EXCEPT ![TailIdx] = Len(segs[TailIdx])]
         sz == IF rotate \/ dosync THEN full ELSE flushed
         nh == TrimTo(head, total0, oldTail, sz)
         gone == UNION {RidsIn(segs[i]) : i \in head..(nh - 1)}
     IN /\ rotate => TailIdx < MaxSegs
        /\ segs' = [i \in 1..(IF rotate THEN Len(segs) + 1 ELSE Len(segs)) |->
                      IF i > Len(segs) THEN <<>> ELSE IF i >= head /\ i < nh THEN <<>> ELSE segs[i]]
        /\ flushed' = [i \in 1..Len(segs') |-> IF i > Len(segs) THEN 0 ELSE IF i >= head /\ i < nh THEN 0 ELSE sz[i]]
        /\ synced' = [i \in 1..Len(segs') |-> IF i > Len(segs) THEN 0 ELSE IF i >= head /\ i < nh THEN 0
                                                ELSE IF (rotate \/ dosync) /\ i = oldTail THEN Len(segs[i]) ELSE synced[i]]
        /\ head' = nh
        /\ trimmed' = trimmed \cup gone
        /\ durable' = (IF rotate \/ dosync THEN durable \cup WholeIn(Stream(segs)) ELSE durable) \ gone
        /\ logical' = SelectSeq(logical, LAMBDA r : r \notin gone)
        /\ Log([op |-> "housekeep", rotate |-> rotate, synced |-> dosync, head |-> nh, tail |-> Len(segs'),
                files |-> [i \in 1..(Len(segs') - nh + 1) |-> flushed'[nh + i - 1]],
                fileLimit |-> FileLimit, totalLimit |-> TotalLimit, eager |-> EagerSync,
                hkDurable |-> durable'])
  /\ UNCHANGED <<plen, open, crashes, lastRead>>

Can == Len(hist) < MaxOps
Next == \/ \E p \in Payloads : Can /\ Write(p)
        \/ Can /\ Sync
        \/ Can /\ Shift
        \/ Can /\ Close
        \/ \E c \in 0..(MaxRecs * (HDR + 3)) : Can /\ Crash(c)
        \/ Can /\ Recover
        \/ Can /\ Housekeep
Spec == Init /\ [][Next]_vars

----------------------------------------------------------------------------
Range(s) == {s[i] : i \in 1..Len(s)}
IsPrefix(a, b) == Len(a) <= Len(b) /\ \A i \in 1..Len(a) : a[i] = b[i]
Recovering == ~open /\ open'
\* every record that was synced is returned by every later recovery
DurableSurvive == [][Recovering => durable \subseteq Range(lastRead')]_vars
\* what a recovery returns is a prefix of what the log is supposed to hold (nothing invented, no gaps)
PrefixOnly == [][Recovering => IsPrefix(lastRead', logical)]_vars
\* after a recovery the files hold exactly the returned records, so that appended records stay readable
CleanAfterRecover == [][Recovering => (LET res == ReadAll(Stream(segs'), 0, <<>>) IN res[2] = "eof" /\ res[1] = lastRead')]_vars
TypeOK == /\ Len(segs) = Len(synced) /\ Len(segs) >= 1 /\ Len(flushed) = Len(segs)
          /\ \A i \in 1..Len(segs) : synced[i] <= Len(segs[i]) /\ flushed[i] <= Len(segs[i])
          /\ head \in 1..Len(segs)
\* housekeeping never touches the tail file, gives up only records that are completely in removed (closed,
\* synced) files, and never more files than the measured total requires
HkStep == hist' # hist /\ hist'[Len(hist')].op = "housekeep"
HkKeepsTail == [][HkStep => head' <= Len(segs') /\ (Len(segs') = Len(segs) => segs'[Len(segs)] = segs[Len(segs)])]_vars
HkReleasesOnlyWhole == [][HkStep => (trimmed' \ trimmed) \subseteq WholeIn(Stream(segs))]_vars
\* NOT a property of the design (TLC: write, write, write, sync, write, Housekeep with the tail alone above TotalLimit):
\* a pass may release the NEWEST durable records when more than TotalLimit bytes were appended between two passes.
\* With the engine's limits (round WAL 1.5 MiB, one pass per second) this is out of reach; recorded, not claimed.
HkKeepsNewest == [][HkStep => (logical # <<>> => logical[Len(logical)] \notin trimmed')]_vars
HkMinimal == [][HkStep => (head' > head => SumDisk(head, Len(segs)) > TotalLimit)]_vars
=============================================================================
