------------------------------- MODULE Wal -------------------------------
(* Write-ahead log of the consensus engine (consensus/wal.go) under the crash model of C03:
   a crash persists an arbitrary prefix of the not-yet-synced bytes of the tail segment.

   A log is a sequence of segment files; a record with payload length p is HDR header cells
   (crc + length) followed by p payload cells.  `segs` holds every byte handed to WriteBytes
   (whether it sits in the bufio buffer, the page cache or on the platter is exactly what a
   crash decides), `synced` the per-segment durable watermark.

   Actions = public calls: Write (WriteBytes), Sync, Shift, Close, and the recovery protocol
   used by consensus.applyRoundWAL/applyLockWAL/applyCommitWAL: OpenForRead, ReadBytes until an
   error, CloseAndRepair unless the error is a clean EOF, OpenForWrite.  Recover below is the
   REQUIRED outcome of that protocol.  Impl = "code" switches in the two deviations of wal.go
   found while transcribing it (only used to show that TLC derives them; conformance always
   compares the real code with Impl = "required"). *)
EXTENDS Integers, Sequences, FiniteSets, TLC
CONSTANTS MaxRecs, Payloads, MaxCrash, MaxSegs, HDR, Impl, MaxOps
VARIABLES segs,       \* Seq(Seq(<<rid, pos>>))  bytes appended per segment file
          synced,     \* Seq(Nat)  durable watermark per segment
          plen,       \* Seq(Nat)  payload length of record rid
          durable,    \* set of rids that were completely covered by a sync
          open,       \* writer open?
          crashes,
          logical,    \* rids the log is supposed to hold, in order
          lastRead,   \* result of the last recovery
          hist
vars == <<segs, synced, plen, durable, open, crashes, logical, lastRead, hist>>

nrec == Len(plen)
Cells(r, p) == [k \in 1..(HDR + p) |-> <<r, k>>]
TailIdx == Len(segs)
RECURSIVE Cat(_, _)
Cat(fs, i) == IF i > Len(fs) THEN <<>> ELSE fs[i] \o Cat(fs, i + 1)
Stream(fs) == Cat(fs, 1)
WholeIn(cs) == {r \in 1..nrec : \A k \in 1..(HDR + plen[r]) : \E i \in 1..Len(cs) : cs[i] = <<r, k>>}

Log(r) == hist' = Append(hist, r)
Rec(op) == [op |-> op]

Init == /\ segs = << <<>> >> /\ synced = <<0>> /\ plen = <<>> /\ durable = {} /\ open = TRUE
        /\ crashes = 0 /\ logical = <<>> /\ lastRead = <<>> /\ hist = <<>>

Write(p) == /\ open /\ nrec < MaxRecs
            /\ plen' = Append(plen, p)
            /\ segs' = [segs EXCEPT ![TailIdx] = @ \o Cells(nrec + 1, p)]
            /\ logical' = Append(logical, nrec + 1)
            /\ Log([op |-> "write", rid |-> nrec + 1, p |-> p])
            /\ UNCHANGED <<synced, durable, open, crashes, lastRead>>
Sync == /\ open
        /\ synced' = [synced EXCEPT ![TailIdx] = Len(segs[TailIdx])]
        /\ durable' = durable \cup WholeIn(Stream(segs))
        /\ Log([op |-> "sync", syncedCells |-> Len(segs[TailIdx])])
        /\ UNCHANGED <<segs, plen, open, crashes, logical, lastRead>>
\* rotation: sync, close the tail file, start the next one
Shift == /\ open /\ TailIdx < MaxSegs
         /\ synced' = Append([synced EXCEPT ![TailIdx] = Len(segs[TailIdx])], 0)
         /\ durable' = durable \cup WholeIn(Stream(segs))
         /\ segs' = Append(segs, <<>>)
         /\ Log(Rec("shift"))
         /\ UNCHANGED <<plen, open, crashes, logical, lastRead>>
\* graceful close: sync and close
Close == /\ open
         /\ synced' = [synced EXCEPT ![TailIdx] = Len(segs[TailIdx])]
         /\ durable' = durable \cup WholeIn(Stream(segs))
         /\ open' = FALSE
         /\ Log(Rec("close"))
         /\ UNCHANGED <<segs, plen, crashes, logical, lastRead>>

\* description of a cut of the tail segment for the driver: how many whole records of the tail
\* survive and how the next record is torn
RECURSIVE CutInfo(_, _, _)
CutInfo(cs, cut, whole) ==
  IF cut = 0 \/ cs = <<>> THEN [whole |-> whole, part |-> "none", cells |-> 0]
  ELSE LET r == cs[1][1]  n == HDR + plen[r] IN
       IF cut >= n THEN CutInfo(SubSeq(cs, n + 1, Len(cs)), cut - n, whole + 1)
       ELSE [whole |-> whole, cells |-> cut,
             part |-> IF cut < HDR THEN "hdr-in" ELSE IF cut = HDR THEN "hdr-end" ELSE "pl-in"]
\* rids of the records that start in a cell sequence, in order
TailRids(cs) == LET idx == {i \in 1..Len(cs) : cs[i][2] = 1} IN
                [j \in 1..Cardinality(idx) |-> cs[CHOOSE i \in idx : Cardinality({k \in idx : k <= i}) = j][1]]
\* power loss: the tail keeps its synced part plus any prefix of the rest
Crash(cut) == /\ open /\ crashes < MaxCrash /\ cut \in synced[TailIdx]..Len(segs[TailIdx])
              /\ segs' = [segs EXCEPT ![TailIdx] = SubSeq(@, 1, cut)]
              /\ open' = FALSE /\ crashes' = crashes + 1
              /\ Log([op |-> "crash", cut |-> CutInfo(segs[TailIdx], cut, 0), syncedCells |-> synced[TailIdx],
                      tailRids |-> TailRids(segs[TailIdx])])
              /\ UNCHANGED <<synced, plen, durable, logical, lastRead>>

\* ---- the reader: parse the concatenation of all segment files ----
\* result of reading one record at offset o of stream s: <<status, rid, nextOffset>>
ReadOne(s, o) ==
  LET avail == Len(s) - o IN
  IF avail = 0 THEN <<"eof", 0, o>>
  ELSE IF avail < HDR THEN <<"torn", 0, o>>
  ELSE LET r == s[o + 1][1]
           hdrOK == \A k \in 1..HDR : s[o + k] = <<r, k>>
       IN IF ~hdrOK THEN <<"corrupt", 0, o>>
          ELSE LET p == plen[r] IN
               IF avail - HDR < p
                 THEN IF Impl = "code" /\ avail - HDR = 0 THEN <<"eof", 0, o>>   \* wal.go: clean EOF
                      ELSE <<"torn", 0, o>>
               ELSE IF \A k \in 1..p : s[o + HDR + k] = <<r, HDR + k>> THEN <<"ok", r, o + HDR + p>>
               ELSE <<"corrupt", 0, o>>
RECURSIVE ReadAll(_, _, _)
ReadAll(s, o, acc) == LET x == ReadOne(s, o) IN
                      IF x[1] = "ok" THEN ReadAll(s, x[3], Append(acc, x[2])) ELSE <<acc, x[1], o>>
\* CloseAndRepair: cut the segment list at stream offset off
RECURSIVE Trunc(_, _, _)
Trunc(fs, i, off) ==
  IF i > Len(fs) THEN <<>>
  ELSE IF off <= Len(fs[i])
         THEN IF Impl = "code" /\ i < Len(fs)
                THEN \* wal.go removes file i itself instead of the later ones
                     IF Len(fs) - i = 1 THEN << fs[i + 1] >> ELSE << SubSeq(fs[i], 1, off) >>
                ELSE << SubSeq(fs[i], 1, off) >>
         ELSE << fs[i] >> \o Trunc(fs, i + 1, off - Len(fs[i]))
Recover ==
  /\ ~open
  /\ LET res == ReadAll(Stream(segs), 0, <<>>) IN
       /\ lastRead' = res[1]
       /\ logical' = res[1]
       /\ IF res[2] = "eof" THEN UNCHANGED <<segs, synced>>
          ELSE LET nf == Trunc(segs, 1, res[3]) IN
               /\ segs' = nf
               /\ synced' = [i \in 1..Len(nf) |-> IF synced[i] < Len(nf[i]) THEN synced[i] ELSE Len(nf[i])]
       /\ Log([op |-> "recover", read |-> res[1], ended |-> res[2], durable |-> durable, logical |-> logical])
  /\ open' = TRUE
  /\ UNCHANGED <<plen, durable, crashes>>

Can == Len(hist) < MaxOps
Next == \/ \E p \in Payloads : Can /\ Write(p)
        \/ Can /\ Sync
        \/ Can /\ Shift
        \/ Can /\ Close
        \/ \E c \in 0..(MaxRecs * (HDR + 3)) : Can /\ Crash(c)
        \/ Can /\ Recover
Spec == Init /\ [][Next]_vars

----------------------------------------------------------------------------
Range(s) == {s[i] : i \in 1..Len(s)}
IsPrefix(a, b) == Len(a) <= Len(b) /\ \A i \in 1..Len(a) : a[i] = b[i]
Recovering == ~open /\ open'
\* every record that was synced is returned by every later recovery
DurableSurvive == [][Recovering => durable \subseteq Range(lastRead')]_vars
\* what a recovery returns is a prefix of what the log is supposed to hold (nothing invented, no gaps)
PrefixOnly == [][Recovering => IsPrefix(lastRead', logical)]_vars
\* after a recovery the files hold exactly the returned records, so that appended records stay readable
CleanAfterRecover == [][Recovering => (LET res == ReadAll(Stream(segs'), 0, <<>>) IN res[2] = "eof" /\ res[1] = lastRead')]_vars
TypeOK == /\ Len(segs) = Len(synced) /\ Len(segs) >= 1
          /\ \A i \in 1..Len(segs) : synced[i] <= Len(segs[i])
=============================================================================
