SPECIFICATION TSpec
CONSTANTS
  N = 1
  Decs = {}
  TS = {}
  MaxOps = 0
INVARIANT Report
