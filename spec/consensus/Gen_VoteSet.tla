---- MODULE Gen_VoteSet ----
EXTENDS VoteSet, Json
CONSTANT Depth
Emit == (Len(hist) = Depth) => PrintT(<<"B", ToJson([n |-> N, steps |-> hist])>>)
====
