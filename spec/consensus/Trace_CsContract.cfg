SPECIFICATION TSpec
CONSTANTS
  N = 4
INVARIANT Report
