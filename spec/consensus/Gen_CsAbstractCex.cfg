SPECIFICATION GSpec
CONSTANTS
  Corr = {"a", "b", "c"}
  NByz = 1
  Values = {"A", "B"}
  MaxRound = 3
  MaxCrash = 1
  MidCrash = TRUE
  SendBeforeSync = FALSE
  FixWal = FALSE
  Order <- OrderDef
INVARIANT EmitCex
CONSTRAINT StopAtCex
VIEW GView
