SPECIFICATION Spec
CONSTANTS
  MaxRecs = 3
  Payloads = {1, 2}
  MaxCrash = 2
  MaxSegs = 2
  HDR = 2
  Impl = "required"
  MaxOps = 6
  Depth = 6
INVARIANT Emit
