---- MODULE MC_CsAbstract ----
EXTENDS CsAbstract
OrderDef == <<"c", "byz", "a", "b">>
====
