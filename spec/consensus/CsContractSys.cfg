SPECIFICATION SSpec
CONSTANTS
  N = 4
  Corr = {0, 1, 2}
  Byz = {3}
  Values = {"A", "B"}
  MaxRound = 1
  MaxMsgs = 7
INVARIANT Agreement
