---- MODULE MC_VoteSet ----
EXTENDS VoteSet
ViewNoHist == <<slot>>
====
