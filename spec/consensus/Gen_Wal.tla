---- MODULE Gen_Wal ----
EXTENDS Wal, Json
CONSTANT Depth
Emit == (Len(hist) = Depth) => PrintT(<<"B", ToJson(hist)>>)
\* only behaviours that contain a crash are interesting for the replay
====
