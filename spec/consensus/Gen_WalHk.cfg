SPECIFICATION Spec
CONSTANTS
  MaxRecs = 4
  Payloads = {3, 5}
  MaxCrash = 1
  MaxSegs = 3
  HDR = 2
  Impl = "required"
  FileLimit = 6
  TotalLimit = 12
  EagerSync = FALSE
  MaxOps = 9
  Depth = 9
INVARIANT Emit
