---- MODULE Gen_CsAbstract ----
(* Behaviour generator over CsAbstract: the same actions with a history of what every validator did in each
   phase. tools/props/cscommon.py projects such a behaviour on one correct validator and compiles it into a
   schedule of deliveries / timer waits / restarts for a real engine (DESIGN.md Appendix D.5). With
   EmitCex (and Agreement not listed as an invariant) the violating behaviours of a sensitivity configuration
   (FixWal = FALSE) are printed instead. *)
EXTENDS CsAbstract, Json, Sequences
OrderDef == <<"c", "byz", "a", "b">>
VARIABLE hist
gvars == <<gr, phase, lockedVal, lockedRound, walVal, walRound, decision, polka, pcq, prop, crashes, hist>>
Log(x) == hist' = Append(hist, x)
GInit == Init /\ hist = <<>>
GNext == \/ ProposePhase /\ Log([a |-> "propose", r |-> gr, proposer |-> Proposer(gr), prop |-> prop'])
         \/ \E f \in [Corr -> Values \cup {Nil, None}] :
              PrevotePhaseF(f) /\ Log([a |-> "prevote", r |-> gr, f |-> f, polka |-> polka'[gr]])
         \/ \E g \in [Corr -> PcKinds] :
              PrecommitPhaseG(g) /\ Log([a |-> "precommit", r |-> gr, g |-> g, polka |-> polka[gr], pcq |-> pcq'[gr]])
         \/ NextRound /\ Log([a |-> "nextround", r |-> gr])
         \/ \E i \in Corr, r \in Rounds : UnlockR(i, r) /\ Log([a |-> "unlock", i |-> i, r |-> r, val |-> polka[r]])
         \/ \E i \in Corr, r \in Rounds : CommitR(i, r) /\ Log([a |-> "commit", i |-> i, r |-> r, val |-> pcq[r]])
         \/ \E i \in Corr : CrashRestart(i) /\ Log([a |-> "crash", i |-> i])
GSpec == GInit /\ [][GNext]_gvars
Done == gr = MaxRound /\ phase = "between"
Emit == Done => PrintT(<<"B", ToJson(hist)>>)
EmitCex == ~Agreement => PrintT(<<"B", ToJson(hist)>>)
\* stop exploring behind a violation (the sensitivity configuration only needs the violating prefixes)
StopAtCex == Agreement
\* the counterexample search identifies states without their history: every state keeps the (shortest) history it was first reached with
GView == <<gr, phase, lockedVal, lockedRound, walVal, walRound, decision, polka, pcq, prop, crashes>>
====
