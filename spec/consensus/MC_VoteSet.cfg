SPECIFICATION Spec
CONSTANTS
  N = 4
  Decs = {"nil", "A", "B"}
  TS = {1, 2}
  MaxOps = 100000
VIEW ViewNoHist
INVARIANT AtMostOneDecision
PROPERTIES Sticky LastAccepted SupportMonotone
