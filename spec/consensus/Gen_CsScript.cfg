SPECIFICATION Spec
CONSTANTS
  H = 1
  N = 4
  MaxRound = 2
  MaxCrash = 2
  MaxOps = 22
INVARIANT Emit
