------------------------------ MODULE VoteSet ------------------------------
(* Vote set of one (height, round, type) (consensus/voteset.go), property C04.
   slot[i] is the vote currently held for validator slot i: None or [dec, ts] (decision and
   timestamp; two messages with equal decision and timestamp are "the same vote").
   Add transcribes voteSet.add: identical vote -> not added; a slot whose vote supports the
   decision that currently has +2/3 is never replaced (sticky); otherwise the slot is
   (re)written.  Tallies are RECOUNTED from the slots (no counters in the model). *)
EXTENDS Integers, Sequences, FiniteSets, TLC
CONSTANTS N, Decs, TS, MaxOps
None == [dec |-> "none", ts |-> 0]
VARIABLES slot, hist
vars == <<slot, hist>>
Idx == 1..N
\* tallies are functions of a slot vector s (a sequence of votes), so that the trace spec can
\* evaluate them on slot vectors observed on the real code for any number of validators
NV(s) == Len(s)
Count(s, d) == Cardinality({i \in 1..NV(s) : s[i].dec = d})
Filled(s) == Cardinality({i \in 1..NV(s) : s[i] # None})
Quorum(s, c) == 3 * c > 2 * NV(s)                \* "more than two thirds of the validator slots"
DecsOf(s) == {s[i].dec : i \in 1..NV(s)} \ {"none"}
Winners(s) == {d \in DecsOf(s) : Quorum(s, Count(s, d))}
Decision(s) == IF Winners(s) = {} THEN "none" ELSE CHOOSE d \in Winners(s) : TRUE
HasTwoThirdsAny(s) == Quorum(s, Filled(s))

Init == slot = [i \in Idx |-> None] /\ hist = <<>>

Add(i, d, t) ==
  LET v == [dec |-> d, ts |-> t]
      old == slot[i]
      refuse == \/ old = v                                                   \* duplicate
                \/ old # None /\ Decision(slot) # "none" /\ old.dec = Decision(slot)   \* sticky
      ns == IF refuse THEN slot ELSE [slot EXCEPT ![i] = v]
  IN /\ slot' = ns
     /\ hist' = Append(hist, [i |-> i, dec |-> d, ts |-> t, added |-> ~refuse,
                              any23 |-> HasTwoThirdsAny(ns), decision |-> Decision(ns),
                              slots |-> ns,
                              members |-> {j \in Idx : ns[j] # None /\ ns[j].dec = Decision(ns)}])

Can == Len(hist) < MaxOps
Next == \E i \in Idx, d \in Decs, t \in TS : Can /\ Add(i, d, t)
Spec == Init /\ [][Next]_vars
----------------------------------------------------------------------------
AtMostOneDecision == Cardinality(Winners(slot)) <= 1
\* a +2/3 decision is reported exactly when more than two thirds of the slots hold a vote for it
\* (by construction of Decision) and, once reached, can never be removed or changed
Sticky == [][Decision(slot) # "none" => Decision(slot') = Decision(slot)]_vars
\* a vote that is accepted is the vote held afterwards; a refused one changes nothing
LastAccepted == [][hist' # hist => LET h == hist'[Len(hist')] IN
                     IF h.added THEN slot'[h.i] = [dec |-> h.dec, ts |-> h.ts] ELSE slot' = slot]_vars
\* support for the +2/3 decision never shrinks
SupportMonotone == [][Decision(slot) # "none" =>
                        Count(slot', Decision(slot)) >= Count(slot, Decision(slot))]_vars
=============================================================================
