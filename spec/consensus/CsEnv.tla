------------------------------- MODULE CsEnv -------------------------------
(* Environment of ONE real consensus engine (validator `me` of N = 4 at height 1): everything
   the other validators, the network, the timers and the power supply can do to it.  The
   other validators are arbitrary (they may be Byzantine: the per-validator contract
   CsContract must hold whatever they do); one of them (`byz`) may also equivocate, i.e.
   replace a vote it already showed.  This module is a schedule GENERATOR: TLC's simulator
   produces behaviours (hist) that harness/csnode injects into the real engine; the verdict
   is taken by Trace_CsContract on what the engine did. *)
EXTENDS Integers, Sequences, FiniteSets, TLC
CONSTANTS H, N, MaxRound, MaxWait, MaxCrash, MaxOps
Vals == 0..(N - 1)
None == "none"
VARIABLES me, byz, sentv, props, waits, crashes, hist,
          rnd,      \* the round the environment currently plays in (guides the generator, never the verdict)
          inplay    \* values that were proposed so far
vars == <<me, byz, sentv, props, waits, crashes, hist, rnd, inplay>>
Others == Vals \ {me}
Proposer(r) == (H + r) % N
\* values: "nil", a block fabricated by another validator ("B0".."B3"), or the block the engine itself proposed
BlockOf(i) == "B" \o ToString(i)
Blocks == {BlockOf(i) : i \in Others} \cup {"own"}
Decs == Blocks \cup {"nil"}
Types == {"pv", "pc"}

Init == /\ me \in Vals /\ byz \in Vals /\ byz # me
        /\ sentv = [i \in Vals |-> [t \in Types |-> [r \in 0..MaxRound |-> None]]]
        /\ props = {} /\ waits = 0 /\ crashes = 0 /\ hist = <<>>
        /\ rnd = 0 /\ inplay = IF Proposer(0) = me THEN {"own"} ELSE {}

Log(x) == hist' = Append(hist, x)
\* the proposer of the current round (if it is not the engine) shows a proposal: the fresh block it built
\* (pol = -1), a block with a foreign proposer field (invalid), or a re-proposal of a value in play
Propose(v, pol) ==
  /\ Proposer(rnd) # me /\ rnd \notin props
  /\ \/ pol = -1 /\ v \in {BlockOf(i) : i \in Others}
     \/ pol \in 0..(rnd - 1) /\ v \in inplay
  /\ props' = props \cup {rnd} /\ inplay' = inplay \cup {v}
  /\ Log([op |-> "proposal", r |-> rnd, from |-> Proposer(rnd), val |-> v, pol |-> pol])
  /\ UNCHANGED <<me, byz, sentv, waits, crashes, rnd>>
\* a set of other validators shows votes of one type for one decision, in the current or the previous round
Votes(t, r, S, v) ==
  /\ S # {} /\ S \subseteq Others /\ r \in {rnd - 1, rnd} /\ r >= 0
  /\ v \in inplay \cup {"nil"}
  /\ \A i \in S : sentv[i][t][r] = None \/ (i = byz /\ sentv[i][t][r] # v)
  /\ sentv' = [i \in Vals |-> IF i \in S THEN [sentv[i] EXCEPT ![t][r] = v] ELSE sentv[i]]
  /\ Log([op |-> "votes", type |-> t, r |-> r, from |-> S, val |-> v])
  /\ UNCHANGED <<me, byz, props, waits, crashes, rnd, inplay>>
\* the environment moves on to the next round (the engine follows through votes, round skips or timeouts)
Advance ==
  /\ rnd < MaxRound /\ rnd' = rnd + 1
  /\ inplay' = IF Proposer(rnd + 1) = me THEN inplay \cup {"own"} ELSE inplay
  /\ UNCHANGED <<me, byz, sentv, props, waits, crashes, hist>>
\* the fast-sync client hands over a block with the precommits of some other validators for one round
Block(r, S, v) ==
  /\ S # {} /\ S \subseteq Others /\ r \in 0..rnd /\ v \in inplay \ {"own"}
  /\ Log([op |-> "block", r |-> r, from |-> S, val |-> v])
  /\ UNCHANGED <<me, byz, sentv, props, waits, crashes, rnd, inplay>>
\* let the engine's timers run
Wait == /\ waits < MaxWait /\ waits' = waits + 1 /\ Log([op |-> "wait"])
        /\ UNCHANGED <<me, byz, sentv, props, crashes, rnd, inplay>>
\* terminate and restart the engine: gracefully, or by a power loss after k more effects of the next step with
\* the unsynced tail of its logs lost ("synced"), torn ("torn") or kept ("all")
Crash(mode, k) ==
  /\ crashes < MaxCrash /\ crashes' = crashes + 1
  /\ Log([op |-> "crash", mode |-> mode, k |-> k])
  /\ UNCHANGED <<me, byz, sentv, props, waits, rnd, inplay>>

Can == Len(hist) < MaxOps
Next == \/ \E v \in Blocks, pol \in -1..MaxRound : Can /\ Propose(v, pol)
        \/ \E t \in Types, r \in 0..MaxRound, S \in SUBSET Others, v \in Decs : Can /\ Votes(t, r, S, v)
        \/ \E r \in 0..MaxRound, S \in SUBSET Others, v \in Blocks : Can /\ Block(r, S, v)
        \/ Can /\ Advance
        \/ Can /\ Wait
        \/ \E mode \in {"graceful", "synced", "torn", "all"}, k \in {0, 1, 2, 3, 4, 6, 1000} : Can /\ Crash(mode, k)
Spec == Init /\ [][Next]_vars
=============================================================================
