SPECIFICATION Spec
CONSTANTS
  Corr = {"a", "b", "c", "d", "e"}
  NByz = 2
  Values = {"A", "B"}
  MaxRound = 2
  MaxCrash = 1
  MidCrash = TRUE
  SendBeforeSync = FALSE
  FixWal = TRUE
  Order <- OrderDef
INVARIANTS Agreement CommitHasQuorum ValidLock
