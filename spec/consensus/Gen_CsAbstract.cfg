SPECIFICATION GSpec
CONSTANTS
  Corr = {"a", "b", "c"}
  NByz = 1
  Values = {"A", "B"}
  MaxRound = 2
  MaxCrash = 1
  MidCrash = TRUE
  SendBeforeSync = FALSE
  FixWal = TRUE
  Order <- OrderDef
INVARIANT Emit
