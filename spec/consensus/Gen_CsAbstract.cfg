SPECIFICATION GSpec
CONSTANTS
  Corr = {"a", "b", "c"}
  NByz = 1
  Values = {"A", "B"}
  MaxRound = 2
  MaxCrash = 1
  FixWal = TRUE
  Order <- OrderDef
INVARIANT Emit
