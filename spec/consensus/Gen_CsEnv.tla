---- MODULE Gen_CsEnv ----
EXTENDS CsEnv, Json
CONSTANT Depth
Emit == (Len(hist) = Depth) => PrintT(<<"B", ToJson([me |-> me, byz |-> byz, steps |-> hist])>>)
====
