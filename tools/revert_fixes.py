#!/usr/bin/env python3
"""tools/revert_fixes.py [ids...] : for every `fixed` entry of known_findings.json revert its fix: commit in a scratch
worktree and run the property's quick check there (VERIF_REPO): the violation must be reported again."""
import json, os, subprocess, sys, tempfile
ROOT = os.path.dirname(os.path.dirname(os.path.abspath(__file__)))
want = set(sys.argv[1:])
rc = 0
for k in json.load(open(os.path.join(ROOT, "known_findings.json")))["findings"]:
    if k.get("status") != "fixed" or (want and k["commit"] not in want and k["property"] not in want):
        continue
    wt = tempfile.mkdtemp(prefix="wt-rev-", dir="/var/tmp"); os.rmdir(wt)
    subprocess.run(["git", "-C", "/repo", "worktree", "add", "-q", "--detach", wt, "HEAD"], check=True)
    try:
        p = subprocess.run(["git", "-C", wt, "revert", "--no-commit", k["commit"]], stdout=subprocess.PIPE, stderr=subprocess.STDOUT, text=True)
        if p.returncode != 0:
            print("REVERT %s %s: cannot revert: %s" % (k["property"], k["commit"], p.stdout[-200:])); rc = 1; continue
        r = subprocess.run(["python3", os.path.join(ROOT, "tools", "check.py"), k["property"], "quick"], cwd=ROOT,
                           env=dict(os.environ, VERIF_REPO=wt), stdout=subprocess.PIPE, stderr=subprocess.STDOUT, text=True)
        viol = [l for l in r.stdout.splitlines() if l.startswith("VIOLATION")]
        what = [l.strip() for l in r.stdout.splitlines() if l.startswith("  what:")]
        ok = r.returncode == 1 and viol
        print("REVERT %s %s: %s %s" % (k["property"], k["commit"], "REPORTED AGAIN" if ok else "NOT REPORTED rc=%d" % r.returncode,
                                       what[0][:160] if what else ""), flush=True)
        rc |= 0 if ok else 1
    finally:
        subprocess.run(["git", "-C", "/repo", "worktree", "remove", "--force", wt])
sys.exit(rc)
