#!/usr/bin/env python3
"""tools/seed_report.py <log files...> : fold `SEEDED <id> by <prop> <tier>: CAUGHT|MISSED ...` lines (chronological) into
seeded/<id>/meta.json (history of runs, final status) and write seeded/RESULTS.md."""
import json, os, re, sys
ROOT = os.path.dirname(os.path.dirname(os.path.abspath(__file__)))
runs = {}
for f in sys.argv[1:]:
    for ln in open(f, errors="replace"):
        m = re.match(r"SEEDED (\S+) by (\S+) (\S+): (CAUGHT|MISSED|ERROR[^ ]*( rc=\d+)?)\s*(.*)", ln)
        if m:
            runs.setdefault(m.group(1), []).append(dict(check=m.group(2), tier=m.group(3), result=m.group(4), what=m.group(6).replace("what: ", "")[:300]))
rows = []
for sid in sorted(os.listdir(os.path.join(ROOT, "seeded"))):
    d = os.path.join(ROOT, "seeded", sid)
    mp = os.path.join(d, "meta.json")
    if not os.path.isfile(mp):
        continue
    meta = json.load(open(mp))
    if sid in runs:
        meta["check_runs"] = runs[sid]
        meta["caught"] = runs[sid][-1]["result"] == "CAUGHT"
        meta["missed_first"] = runs[sid][0]["result"] != "CAUGHT"
        json.dump(meta, open(mp, "w"), indent=1)
    r = meta.get("check_runs", [])
    rows.append((sid, meta.get("property"), "caught" if meta.get("caught") else ("not claimed" if meta.get("not_claimed") else ("MISSED" if r else "not run")),
                 "missed at first, caught after strengthening" if meta.get("missed_first") and meta.get("caught") else (meta.get("not_claimed", "")[:200] if not meta.get("caught") else ""),
                 (r[-1]["what"] if r else "")[:140]))
with open(os.path.join(ROOT, "seeded", "RESULTS.md"), "w") as fh:
    fh.write("# Seeded changes (independent sub-agents) and the checks that catch them\n\n| seed | property | result | note | evidence (last run) |\n|---|---|---|---|---|\n")
    for r in rows:
        fh.write("| %s | %s | %s | %s | %s |\n" % tuple(str(x).replace("|", "/") for x in r))
print("%d seeds, %d caught, %d missed, %d not claimed, %d not run" % (len(rows), sum(r[2] == "caught" for r in rows), sum(r[2] == "MISSED" for r in rows), sum(r[2] == "not claimed" for r in rows), sum(r[2] == "not run" for r in rows)))
