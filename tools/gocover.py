#!/usr/bin/env python3
"""tools/gocover.py <dir-with-.cover-files> [file-substring...] : merge the Go cover profiles written by replay stages run with
VERIF_COVER=<coverpkg pattern> (see vlib.go_replay) and list, per source file, the statement blocks of the code under test
that NO replay executed. Diagnostic only (never part of a verdict): it shows which parts of the implementation the
conformance stage of a check binds to, and where a change could not be noticed."""
import glob, os, re, sys
d = sys.argv[1]
pats = sys.argv[2:]
blocks = {}
for f in glob.glob(os.path.join(d, "*.cover")):
    for ln in open(f):
        m = re.match(r"(\S+):(\d+)\.(\d+),(\d+)\.(\d+) (\d+) (\d+)", ln)
        if not m:
            continue
        k = (m.group(1), int(m.group(2)), int(m.group(4)), int(m.group(6)))
        blocks[k] = blocks.get(k, 0) + int(m.group(7))
files = {}
for (fn, a, b, n), c in blocks.items():
    files.setdefault(fn, []).append((a, b, n, c))
for fn in sorted(files):
    if pats and not any(p in fn for p in pats):
        continue
    bl = sorted(files[fn])
    tot = sum(n for _, _, n, _ in bl)
    cov = sum(n for _, _, n, c in bl if c)
    print("%s: %d/%d statements (%.0f%%)" % (fn, cov, tot, 100.0 * cov / max(1, tot)))
    if os.environ.get("GOCOVER_BLOCKS"):
        # merge adjacent uncovered blocks
        cur = None
        for a, b, n, c in bl:
            if c:
                if cur:
                    print("   not run: lines %d-%d (%d stmts)" % cur)
                cur = None
            else:
                cur = (cur[0], b, cur[2] + n) if cur else (a, b, n)
        if cur:
            print("   not run: lines %d-%d (%d stmts)" % cur)
