#!/usr/bin/env python3
"""tools/check.py <Cnn> <quick|thorough> [--replay <path>]

Exit 0: property held on everything explored (KNOWN-FINDING lines may be printed).
Exit 1: VIOLATION property=<id> replay=<path> printed (real code falsified the property).
Exit 2: machinery problem (timeout, build failure, model/code disagreement) - never a verdict.
"""
import importlib, os, sys, traceback, json
sys.path.insert(0, os.path.dirname(os.path.abspath(__file__)))
import vlib


def main():
    if len(sys.argv) < 3:
        print(__doc__)
        return 2
    prop = sys.argv[1]
    tier = sys.argv[2]
    replay = None
    if tier == "--replay":
        replay = sys.argv[3]
        tier = json.load(open(replay)).get("tier", "quick")
    elif len(sys.argv) >= 5 and sys.argv[3] == "--replay":
        replay = sys.argv[4]
    tier = os.environ.get("VERIF_TIER_OVERRIDE", tier)
    if tier not in ("quick", "thorough"):
        print("bad tier", tier)
        return 2
    seed = int(os.environ.get("VERIF_SEED", "1") or "1")
    if replay:
        seed = json.load(open(replay)).get("seed", seed)
    mod = importlib.import_module("props." + prop.lower())
    ctx = vlib.Ctx(prop, tier, seed, replay)
    try:
        rc = mod.run(ctx)
        return rc
    except vlib.MachineryError as e:
        print("MACHINERY-ERROR property=%s: %s" % (prop, e), flush=True)
        return 2
    except Exception:
        traceback.print_exc()
        print("MACHINERY-ERROR property=%s: unexpected exception" % prop, flush=True)
        return 2
    finally:
        ctx.cleanup()


if __name__ == "__main__":
    sys.exit(main())
