#!/usr/bin/env python3
"""tools/selfmut.py <Cnn> <tier> <mutants.json> : self-test of a check against small mutants.
mutants.json: [{"name":..., "file": "consensus/voteset.go", "old": "...", "new": "...", "expect": "violation"|"pass"}]
Each mutant is applied to a scratch git worktree of /repo (untracked hook files are copied in), the
check runs with VERIF_REPO pointing there, the worktree is removed. Prints one line per mutant."""
import json, os, subprocess, sys, shutil, tempfile
ROOT = os.path.dirname(os.path.dirname(os.path.abspath(__file__)))
prop, tier, mf = sys.argv[1], sys.argv[2], sys.argv[3]
muts = json.load(open(mf))
ok_all = True
for m in muts:
    wt = tempfile.mkdtemp(prefix="wt-%s-" % prop, dir="/var/tmp")
    os.rmdir(wt)
    subprocess.run(["git", "-C", "/repo", "worktree", "add", "-q", "--detach", wt, "HEAD"], check=True)
    try:
        # untracked verif hook files
        out = subprocess.run(["git", "-C", "/repo", "ls-files", "--others", "--exclude-standard"], stdout=subprocess.PIPE, text=True).stdout
        for f in out.split():
            os.makedirs(os.path.dirname(os.path.join(wt, f)), exist_ok=True)
            shutil.copy(os.path.join("/repo", f), os.path.join(wt, f))
        p = os.path.join(wt, m["file"])
        s = open(p).read()
        if m["old"] not in s:
            print("MUTANT %s: pattern not found" % m["name"]); ok_all = False; continue
        open(p, "w").write(s.replace(m["old"], m["new"], 1))
        env = dict(os.environ, VERIF_REPO=wt)
        r = subprocess.run(["python3", os.path.join(ROOT, "tools", "check.py"), prop, tier], cwd=ROOT, env=env,
                           stdout=subprocess.PIPE, stderr=subprocess.STDOUT, text=True)
        viol = [l for l in r.stdout.splitlines() if l.startswith("VIOLATION")]
        what = [l for l in r.stdout.splitlines() if l.startswith("  what:")]
        res = "violation" if r.returncode == 1 and viol else ("pass" if r.returncode == 0 else "error rc=%d" % r.returncode)
        good = res == m.get("expect", "violation")
        ok_all &= good
        print("MUTANT %s: %s (expected %s) %s %s" % (m["name"], res, m.get("expect", "violation"), "OK" if good else "MISSED",
                                                    (what[0][:160] if what else (r.stdout[-300:] if not good else ""))), flush=True)
    finally:
        subprocess.run(["git", "-C", "/repo", "worktree", "remove", "--force", wt])
sys.exit(0 if ok_all else 1)
