"""C31 The encrypted peer channel is a faithful byte stream (spec/net/SecureChannel.tla)."""
import json


def run(ctx):
    if ctx.replay:
        return rerun(ctx)
    # 1. exhaustive model check: all runs of <= MaxOps writes/reads (both directions) with one attack
    #    (incl. the far replay at distances 2^8, 2^16 (and 2^24 thorough); NonceUnique: the nonce counter never repeats)
    maxops = ctx.pick(4, 6)
    r = ctx.model_check("net", "MC_SecureChannel", "MC_SecureChannel.cfg",
                        constants={"MaxOps": maxops, "FarDist": ctx.pick("{256, 65536}", "{256, 65536, 16777216}")},
                        coverage=True, timeout=ctx.pick(600, 3000))
    ctx.check_coverage(r, ["Write", "ReadLeft", "ReadFrame", "Tamper", "Drop", "Dup", "Swap", "Replay(", "ReplayFar", "Reflect"])
    ctx.exhaustive = True
    # 2. behaviours: all of depth 3 (BFS) + random walks
    depth = 3
    bs = ctx.behaviours("net", "Gen_SecureChannel", "Gen_SecureChannel.cfg",
                        constants={"MaxOps": depth, "Depth": depth}, timeout=900)
    wl = ctx.pick(10, 14)
    walks = ctx.behaviours("net", "Gen_SecureChannel", "Gen_SecureChannel.cfg",
                           constants={"MaxOps": wl, "Depth": wl},
                           simulate="num=%d" % ctx.pick(1500, 15000), depth=wl + 1, seed=ctx.seed, timeout=1500)
    # 2b. far replays: the recorded first frame comes back exactly 2^16 (thorough: also 2^24) frames later.
    #     Directed walks with only this attack enabled; kept are runs where the reader then meets the replayed frame.
    def far_runs(dist, num, keep):
        fw = ctx.behaviours("net", "Gen_SecureChannel", "Gen_SecureChannel.cfg",
                            constants={"MaxOps": 7, "Depth": 7, "AttackKinds": '{"replayfar"}', "FarDist": "{%d}" % dist,
                                       "WriteSizes": "{1, 1025}", "ReadSizes": "{7, 4096}"},
                            simulate="num=%d" % num, depth=8, seed=ctx.seed, timeout=900)
        good = []
        for b in fw:
            at = [i for i, st in enumerate(b) if st["op"] == "attack" and st["kind"] == "replayfar" and st["i"] == dist]
            if at and any(st["op"] == "read" and st["d"] == b[at[0]]["d"] and st["res"] == -1 for st in b[at[0] + 1:]):
                good.append(b)
        if len(good) < min(keep, 3):
            from vlib import MachineryError
            raise MachineryError("vacuity: only %d generated runs reach the far replay at distance %d" % (len(good), dist))
        return good[:keep]
    far = far_runs(65536, 400, ctx.pick(6, 20))
    far_objs = []
    if not ctx.quick():
        # 2^24 filler frames take about a minute per suite: one run, one suite (chosen by the seed)
        far_objs = [{"behaviour": b, "sub": ctx.seed, "suite": ctx.seed % 3} for b in far_runs(16777216, 400, 1)]
    allb = bs + walks + far + far_objs
    inp = ctx.path("in", "behaviours.ndjson")
    with open(inp, "w") as fh:
        for b in allb:
            fh.write(json.dumps(b) + "\n")
    # 3. replay into pairs of network.SecureConn (all three AEAD suites) over an in-memory transport
    recs = ctx.go_replay("securechan", "TestReplay", inp, shards=ctx.pick(2, 4), timeout=ctx.pick(600, 1800))
    ctx.absorb(recs)
    for b in (walks[:2] + bs[-1:] + far[:1]):
        ctx.sample([{k: s[k] for k in ("op", "d", "n", "i", "kind", "res", "off")} for s in b])
    return ctx.finish(
        rule="a behaviour = one TLC-generated sequence of Write(direction, size), Read(direction, buffer size) and "
             "at most one transport attack (all of depth %d by BFS + %d random walks of depth %d + directed runs in which the "
             "recorded first frame is replayed exactly 2^8 / 2^16 (thorough: 2^24) frames later), each executed "
             "for the three AEAD suites with fresh ECDH keys; distinct by its call sequence; non-trivial if it "
             "contains a read" % (depth, len(walks), wl),
        assumptions=["ECDH, HKDF and the AEAD ciphers are trusted primitives (symbolic in the spec: a frame opens "
                     "iff untampered, right direction key, expected nonce)",
                     "the transport keeps each conn.Write as one unit and returns arbitrary partial reads",
                     "the two unused bytes of the 4-byte frame prefix are not attacked (they are ignored by the reader)",
                     "a Read is issued only when data is in transit (a real Read would block otherwise)"])


def rerun(ctx):
    """Re-execute exactly the behaviour (and concretization) stored in a replay file."""
    d = json.load(open(ctx.replay))["detail"]
    inp = ctx.path("in", "behaviours.ndjson")
    with open(inp, "w") as fh:
        fh.write(json.dumps({"behaviour": d["behaviour"], "sub": d["sub"], "suite": d["suite"]}) + "\n")
    ctx.absorb(ctx.go_replay("securechan", "TestReplay", inp))
    return ctx.finish(rule="re-execution of one stored behaviour", assumptions=["replay of %s" % ctx.replay])
