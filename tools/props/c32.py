"""C32 Peer identity is bound to a key over the session secret (spec/net/Handshake.tla)."""
import json


def run(ctx):
    if ctx.replay:
        return rerun(ctx)
    # 1. exhaustive model check: three concurrent sessions (honest dialer, attacker's node, self-connection), the attacker chooses every deliverable signature message
    consts = {"MaxOps": 9}
    if ctx.quick():
        consts.update({"SigForms": '{"full", "rflip", "empty"}', "PkForms": '{"comp", "bad"}'})
    r = ctx.model_check("net", "MC_Handshake", "MC_Handshake.cfg", constants=consts, coverage=True,
                        timeout=ctx.pick(600, 3000))
    ctx.check_coverage(r, ["Start", "ToAcceptor", "ToDialer"])
    ctx.exhaustive = True
    # 2. behaviours: every run of <= 3 events (all single deliveries after one or two key exchanges) + random walks
    bs = ctx.behaviours("net", "Gen_Handshake", "Gen_Handshake.cfg", constants={"MaxOps": 3, "Depth": 3, "Sessions": "{1, 2}"}, timeout=900)
    walks = ctx.behaviours("net", "Gen_Handshake", "Gen_Handshake.cfg", constants={"MaxOps": 9, "Depth": 9},
                           simulate="num=%d" % ctx.pick(1500, 12000), depth=11, seed=ctx.seed, timeout=1500)
    allb = bs + walks
    # vacuity guard on the generated cases: every verdict class of the spec must occur
    seen = {st["res"] for b in allb for st in b}
    missing = {"accept", "error:pubkey", "error:sigparse", "error:verify", "error:self", "error:remote"} - seen
    if missing:
        from vlib import MachineryError
        raise MachineryError("vacuity: verdict classes never generated: %s" % sorted(missing))
    inp = ctx.path("in", "behaviours.ndjson")
    with open(inp, "w") as fh:
        for b in allb:
            fh.write(json.dumps(b) + "\n")
    # 3. replay into three real Authenticators (nodes a, b, m) with real key exchanges and real signatures
    recs = ctx.go_replay("handshake", "TestReplay", inp, shards=ctx.pick(2, 4), timeout=ctx.pick(600, 1800))
    ctx.absorb(recs)
    for b in (walks[:2] + bs[-1:]):
        ctx.sample(b)
    return ctx.finish(
        rule="a behaviour = TLC-generated run of up to three handshake sessions against one acceptor (key exchanges, then "
             "signature messages chosen by the network attacker among everything it can construct: genuine, replayed, "
             "spliced from the other session, with other public keys, with damaged encodings): all runs of <=3 events "
             "(sessions 1, 2) by BFS + %d random walks of <=9 events (sessions 1-3); distinct by its event sequence; non-trivial if a signature "
             "message is delivered" % len(walks),
        assumptions=["secp256k1 ECDSA, SHA3, ECDH(P-256) and HKDF are trusted primitives (symbolic in the spec)",
                     "the attacker knows only the session secret of its own session and cannot sign with other keys",
                     "the recovery byte V is not covered by Signature.Verify: signatures without V or with a flipped V "
                     "are still signatures by that key over that secret and are accepted (modelled so)",
                     "handlers are driven synchronously (one message at a time per connection); the TLS secure suite "
                     "is not exercised (plaintext and ECDHE with the three AEAD suites are)",
                     "the dialer side has no self-identity test: a reflected SignatureRequest makes the dialer accept "
                     "its own identity (it is a signature by that key over this session's secret; modelled so)"])


def rerun(ctx):
    """Re-execute exactly the behaviour (and concretization) stored in a replay file."""
    d = json.load(open(ctx.replay))["detail"]
    inp = ctx.path("in", "behaviours.ndjson")
    with open(inp, "w") as fh:
        fh.write(json.dumps({"behaviour": d["behaviour"], "sub": d["sub"]}) + "\n")
    ctx.absorb(ctx.go_replay("handshake", "TestReplay", inp))
    return ctx.finish(rule="re-execution of one stored behaviour", assumptions=["replay of %s" % ctx.replay])
