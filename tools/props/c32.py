"""C32 Peer identity is bound to a key over the session secret (spec/net/Handshake.tla)."""
import json


def run(ctx):
    # 1. exhaustive model check: two concurrent sessions, the attacker chooses every deliverable signature message
    consts = {"MaxOps": 6}
    if ctx.quick():
        consts.update({"SigForms": '{"full", "nov", "rflip", "empty"}', "PkForms": '{"comp", "bad"}'})
    r = ctx.model_check("net", "MC_Handshake", "MC_Handshake.cfg", constants=consts, coverage=True,
                        timeout=ctx.pick(600, 3000))
    ctx.check_coverage(r, ["Start", "ToAcceptor", "ToDialer"])
    ctx.exhaustive = True
    # 2. behaviours: every run of <= 3 events (all single deliveries after one or two key exchanges) + random walks
    bs = ctx.behaviours("net", "Gen_Handshake", "Gen_Handshake.cfg", constants={"MaxOps": 3, "Depth": 3}, timeout=900)
    walks = ctx.behaviours("net", "Gen_Handshake", "Gen_Handshake.cfg", constants={"MaxOps": 6, "Depth": 6},
                           simulate="num=%d" % ctx.pick(1500, 12000), depth=8, seed=ctx.seed, timeout=1500)
    allb = bs + walks
    if ctx.replay:
        d = json.load(open(ctx.replay))["detail"]
        allb = [{"behaviour": d["behaviour"], "sub": d["sub"]}]
    inp = ctx.path("in", "behaviours.ndjson")
    with open(inp, "w") as fh:
        for b in allb:
            fh.write(json.dumps(b) + "\n")
    # 3. replay into three real Authenticators (nodes a, b, m) with real key exchanges and real signatures
    recs = ctx.go_replay("handshake", "TestReplay", inp, shards=ctx.pick(2, 4), timeout=ctx.pick(600, 1800))
    ctx.absorb(recs)
    if not ctx.replay:
        for b in (walks[:2] + bs[-1:]):
            ctx.sample(b)
    return ctx.finish(
        rule="a behaviour = TLC-generated run of two handshake sessions against one acceptor (key exchanges, then "
             "signature messages chosen by the network attacker among everything it can construct: genuine, replayed, "
             "spliced from the other session, with other public keys, with damaged encodings): all runs of <=3 events "
             "by BFS + %d random walks of <=6 events; distinct by its event sequence; non-trivial if a signature "
             "message is delivered" % len(walks),
        assumptions=["secp256k1 ECDSA, SHA3, ECDH(P-256) and HKDF are trusted primitives (symbolic in the spec)",
                     "the attacker knows only the session secret of its own session and cannot sign with other keys",
                     "the recovery byte V is not covered by Signature.Verify: signatures without V or with a flipped V "
                     "are still signatures by that key over that secret and are accepted (modelled so)",
                     "handlers are driven synchronously (one message at a time per connection); the TLS secure suite "
                     "is not exercised (plaintext and ECDHE with the three AEAD suites are)",
                     "the dialer side has no self-identity test: a reflected SignatureRequest makes the dialer accept "
                     "its own identity (it is a signature by that key over this session's secret; modelled so)"])
