"""C32 Peer identity is bound to a key over the session secret (spec/net/Handshake.tla)."""
import json


def run(ctx):
    if ctx.replay:
        return rerun(ctx)
    # (the secure suite none / tls:<aead> / ecdhe:<aead> is a dimension of every run; the nodes really negotiate it)
    # 1. exhaustive model check: three concurrent sessions (honest dialer, attacker's node, self-connection), the attacker chooses every deliverable signature message
    #    plus a connection opened by the attacker with a recorded SecureRequest (transcript replay, session 4)
    #    and the environment creating many other peer ids (IdentityFinal: an assigned identity never changes)
    consts = {"MaxOps": 12}
    if ctx.quick():
        consts.update({"SigForms": '{"full", "rflip", "empty"}', "PkForms": '{"comp", "bad"}'})
    else:
        # all four sessions with 4 x 3 encodings; all 7 x 3 encodings with sessions 1, 2 and the replayed connection
        consts.update({"SigForms": '{"full", "nov", "rflip", "empty"}'})
    r = ctx.model_check("net", "MC_Handshake", "MC_Handshake.cfg", constants=consts, coverage=True,
                        timeout=ctx.pick(600, 3000))
    ctx.check_coverage(r, ["Start", "ReplayTranscript", "ToAcceptor", "ToDialer", "OtherIds", "Misuse", "FreshMisuse", "Reflect"])
    if not ctx.quick():
        r2 = ctx.model_check("net", "MC_Handshake", "MC_Handshake.cfg", constants={"MaxOps": 9, "Sessions": "{1, 2, 4}"},
                             coverage=True, timeout=3000, label="all encodings")
        ctx.check_coverage(r2, ["Start", "ReplayTranscript", "ToAcceptor", "ToDialer"])
    # probe: a model of a dialer WITHOUT the self-identity test must violate NoIdentityWithoutKey (reflection attack)
    rp = ctx.tlc("net", "MC_Handshake", "MC_Handshake.cfg", expect_violation=True, count=False, timeout=900, label="reflection probe",
                 constants={"DialerSelfCheck": "FALSE", "Sessions": "{1, 2}", "MaxOps": 7,
                            "SigForms": '{"full", "rflip", "empty"}', "PkForms": '{"comp", "bad"}'})
    if rp.violation != "NoIdentityWithoutKey":
        from vlib import MachineryError
        raise MachineryError("probe: the model without the dialer self check violates %s, expected NoIdentityWithoutKey" % rp.violation)
    ctx.exhaustive = True
    # 2. behaviours: every run of <= 3 events (all single deliveries after one or two key exchanges) + random walks
    #    (quick: 4 of the 7 signature encodings and 2 of the 3 key encodings in the BFS part; the walks use all)
    red = {} if not ctx.quick() else {"SigForms": '{"full", "nov", "rflip", "empty"}', "PkForms": '{"comp", "bad"}',
                                      "Suites": '{"none", "tls:chacha", "ecdhe:aes128"}'}
    bs = ctx.behaviours("net", "Gen_Handshake", "Gen_Handshake.cfg",
                        constants=dict({"MaxOps": 3, "Depth": 3, "Sessions": "{1, 2}"}, **red), timeout=900)
    # every message the attacker can deliver on a connection opened by replaying a's recorded SecureRequest
    tx = ctx.behaviours("net", "Gen_Handshake", "Gen_Handshake.cfg",
                        constants=dict({"MaxOps": 3, "Depth": 3, "Sessions": "{1, 4}"}, **red), timeout=900)
    mis = [b for b in tx if any(st["op"] in ("misuse", "freshmisuse") for st in b)
           and not any(st["op"] == "replaytx" for st in b)]
    tx = [b for b in tx if any(st["op"] == "replaytx" for st in b)]
    bs = bs + tx + mis
    walks = ctx.behaviours("net", "Gen_Handshake", "Gen_Handshake.cfg", constants={"MaxOps": 12, "Depth": 12},
                           simulate="num=%d" % ctx.pick(500, 5000), depth=14, seed=ctx.seed, timeout=1500)
    allb = bs + walks
    # vacuity guard on the generated cases: every verdict class of the spec must occur
    seen = {st["res"] for b in allb for st in b}
    missing = {"accept", "error:pubkey", "error:sigparse", "error:verify", "error:self", "error:remote",
               "error:decode", "error:sequence", "error:param"} - seen
    from vlib import MachineryError
    if missing:
        raise MachineryError("vacuity: verdict classes never generated: %s" % sorted(missing))
    # ... and the whole-transcript replay must be generated: a replayed SecureRequest followed by the recorded,
    # intact SignatureRequest of the same session on the new connection (predicted: error:verify)
    def full_replay(b):
        for i, st in enumerate(b):
            if st["op"] == "replaytx":
                for nx in b[i + 1:]:
                    if (nx["op"] == "toacc" and nx["s"] == st["s"] and nx["sc"] == st["sc"] and nx["sw"] == st["sw"]
                            and nx["pkw"] == st["sw"] and nx["pkf"] != "bad" and nx["sf"] == "full"):
                        if nx["res"] != "error:verify":
                            raise MachineryError("spec predicts %s for a replayed transcript" % nx["res"])
                        return True
        return False
    # ... and so must the environment action OtherIds after an identity was assigned
    nchurn = sum(1 for b in allb if any(st["op"] == "churn" and st["acc"] for st in b))
    if nchurn < 20:
        raise MachineryError("vacuity: OtherIds after an accepted connection generated only %d times" % nchurn)
    ctx.notes.append("runs with 150 foreign peer ids created after an identity was assigned: %d" % nchurn)
    nrefl = sum(1 for b in allb if any(st["op"] == "reflect" for st in b))
    if nrefl < 10:
        raise MachineryError("vacuity: the reflection attack was generated only %d times" % nrefl)
    ctx.notes.append("runs with a reflected SignatureRequest: %d" % nrefl)
    nfull = sum(1 for b in allb if full_replay(b))
    if nfull < 2:
        raise MachineryError("vacuity: transcript replay generated only %d times" % nfull)
    # ... for every kind of secure suite (the session secret must not depend on it)
    kinds = {b[0]["suite"].split(":")[0] for b in allb if full_replay(b)}
    if kinds != {"none", "tls", "ecdhe"}:
        raise MachineryError("vacuity: transcript replays generated only for the suites %s" % sorted(kinds))
    ctx.notes.append("whole-transcript replays generated: %d" % nfull)
    inp = ctx.path("in", "behaviours.ndjson")
    with open(inp, "w") as fh:
        for b in allb:
            fh.write(json.dumps(b) + "\n")
    # 3. replay into three real Authenticators (nodes a, b, m) with real key exchanges and real signatures
    recs = ctx.go_replay("handshake", "TestReplay", inp, shards=ctx.pick(2, 4), timeout=ctx.pick(600, 1800))
    ctx.absorb(recs)
    for b in (walks[:2] + bs[-1:]):
        ctx.sample(b)
    return ctx.finish(
        rule="a behaviour = TLC-generated run of up to three handshake sessions against one acceptor (key exchanges, then "
             "signature messages chosen by the network attacker among everything it can construct: genuine, replayed, "
             "spliced from the other session, with other public keys, with damaged encodings): all runs of <=3 events "
             "(sessions 1, 2) and all deliveries on a connection opened by transcript replay, by BFS + %d random walks of <=11 events (sessions 1-4); distinct by its event sequence; non-trivial if a signature "
             "message is delivered" % len(walks),
        assumptions=["secp256k1 ECDSA, SHA3, ECDH(P-256) and HKDF are trusted primitives (symbolic in the spec)",
                     "the attacker knows only the session secret of its own session and cannot sign with other keys; it can replay "
                     "recorded SecureRequest bytes on new connections but does not hold the private ephemeral key behind them",
                     "the recovery byte V is not covered by Signature.Verify: signatures without V or with a flipped V "
                     "are still signatures by that key over that secret and are accepted (modelled so)",
                     "handlers are driven synchronously (one message at a time per connection); the TLS secure suite "
                     "is not exercised (plaintext and ECDHE with the three AEAD suites are)",
                     "both sides must refuse their own identity: a peer that echoes the dialer's SignatureRequest has not "
                     "proved possession of any key (spec: error:self on the dialer side too)"])


def rerun(ctx):
    """Re-execute exactly the behaviour (and concretization) stored in a replay file."""
    d = json.load(open(ctx.replay))["detail"]
    inp = ctx.path("in", "behaviours.ndjson")
    with open(inp, "w") as fh:
        fh.write(json.dumps({"behaviour": d["behaviour"], "sub": d["sub"]}) + "\n")
    ctx.absorb(ctx.go_replay("handshake", "TestReplay", inp))
    return ctx.finish(rule="re-execution of one stored behaviour", assumptions=["replay of %s" % ctx.replay])
