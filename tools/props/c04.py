"""C04 Vote tallies report a 2/3 majority exactly when one exists (spec/consensus/VoteSet.tla)."""
import json


def run(ctx):
    decs = ctx.pick('{"nil", "A", "A3", "B"}', '{"nil", "A", "A2", "A3", "B"}')
    for n in ctx.pick((2, 4, 5), (1, 2, 3, 4, 5, 6)):
        r = ctx.model_check("consensus", "MC_VoteSet", "MC_VoteSet.cfg",
                            constants={"N": n, "Decs": decs if n <= 5 else '{"nil", "A", "B"}'},
                            coverage=(n == 4), timeout=ctx.pick(300, 1800))
        if n == 4:
            ctx.check_coverage(r)
    ctx.exhaustive = True
    allb = []
    if ctx.replay:
        allb = [json.load(open(ctx.replay))["detail"]["behaviour"]]
    else:
        for n, d in ctx.pick(((2, 3), (3, 3), (4, 2)), ((1, 5), (2, 4), (3, 3), (4, 3), (5, 2))):
            allb += ctx.behaviours("consensus", "Gen_VoteSet", "Gen_VoteSet.cfg",
                                   constants={"N": n, "MaxOps": d, "Depth": d}, timeout=600)
        for n in ctx.pick((1, 5, 7, 8), (1, 2, 3, 4, 5, 6, 7, 8, 10, 11)):
            wl = ctx.pick(30, 60)
            allb += ctx.behaviours("consensus", "Gen_VoteSet", "Gen_VoteSet.cfg",
                                   constants={"N": n, "MaxOps": wl, "Depth": wl, "Decs": '{"nil", "A", "A2", "A3", "B"}'},
                                   simulate="num=%d" % ctx.pick(150, 3000), depth=wl + 1, seed=ctx.seed + n,
                                   timeout=600)
    inp = ctx.path("in", "behaviours.ndjson")
    with open(inp, "w") as fh:
        for b in allb:
            fh.write(json.dumps(b) + "\n")
    recs = ctx.go_replay("voteset", "TestReplay", inp, shards=4)
    # verdict: Trace_VoteSet.tla evaluates the property on what the real vote set held and reported
    lines, owner = [], {}
    ndiv = 0
    for r in recs:
        d = r.get("detail") or {}
        if isinstance(d, dict) and d.get("trace") and (r.get("status") == "ok" or ndiv < 400):
            if r.get("status") == "divergence":
                ndiv += 1
            owner[r["case"]] = r
            lines += d["trace"]
    judged = {}
    if lines:
        ok, tr = ctx.validate_trace("consensus", "Trace_VoteSet", "Trace_VoteSet.cfg", lines, timeout=900)
        import vlib
        rep = vlib.parse_tagged(tr.printed, "R")
        if not ok or not rep or rep[-1]["consumed"] != len(lines):
            raise vlib.MachineryError("trace validation did not consume the whole trace: %s" % tr.out[-1500:])
        for b in rep[-1]["bad"]:
            judged.setdefault(b["t"], b)
        ctx.notes.append("trace validation: %d observation lines of %d real executions judged by Trace_VoteSet, "
                         "%d executions rejected" % (len(lines), len(owner), len(judged)))
    for r in recs:
        if r.get("status") == "divergence" and r["case"] in judged:
            b = judged[r["case"]]
            r["status"] = "violation"
            r["key"] = "voteset:" + b["kind"]
            r["what"] = "real vote set violates %s at step %d: %s" % (b["kind"], b["k"], r.get("what"))
    ctx.absorb(recs)
    for b in allb[:1] + allb[-1:]:
        ctx.sample(dict(n=b["n"], steps=[{k: s[k] for k in ("i", "dec", "ts", "added", "decision")} for s in b["steps"][:12]]))
    return ctx.finish(
        rule="a case = one TLC-generated sequence of votes (slot, decision, timestamp) added to a real voteSet of n slots "
             "(all sequences of the BFS depth for small n + seeded random walks for n up to 7/10, decisions nil/A/A2/B "
             "where A2 shares A's block id with another part-set id); distinct by (n, vote sequence); non-trivial if a vote "
             "is refused or a +2/3 decision exists at some step",
        assumptions=["votes are well-formed and signed (signature checks happen before the vote set)",
                     "verdict = Trace_VoteSet.tla on the slots/decision the real object held and reported; a mismatch with the "
                     "transcribed add rules that keeps the property is reported as divergence only"])
