"""C25 Header compression is lossless and format-stable (spec/codec/Lzw.tla, Trace_Lzw.tla)."""
import json, os, random, re
import vlib


def _plan(ctx):
    rnd = random.Random(ctx.seed)
    p = []

    def add(kind, n, k=0):
        p.append(dict(kind=kind, n=n, k=k, seed=rnd.randrange(1 << 30)))
    for k in (0, 1, 3, 9, 30, 90, 300, 1000, 2048):          # logs-bloom-like: 256 bytes, k bits set
        for _ in range(ctx.pick(1, 6)):
            add("bloom", 256, k)
    for n in (1, 2, 3, 7, 255, 257, 770, 2000, 4500):   # code widths 9..12 and the table reset (3838 codes)
        add("random", n)
    add("alpha", 2000, 2)
    add("alpha", 3000, 16)
    add("repeat", 1000, 3)
    add("repeat", 600, 1)
    add("ramp", 1024)
    if not ctx.quick():
        for n in (256, 300, 800, 1800, 4000, 9000, 12000, 20000):
            add("random", n)
        add("alpha", 6000, 4)
        add("repeat", 5000, 300)
        add("alpha", 40000, 2)
        add("alpha", 30000, 64)
        add("repeat", 40000, 1)
        add("repeat", 20000, 7)
        for _ in range(10):
            add("random", rnd.randrange(1, 3000))
            add("bloom", rnd.choice([32, 256, 2048]), rnd.randrange(0, 200))
    return p


def run(ctx):
    # 1. exhaustive model check of the reference encoder against the reference decoder (Lossless), small alphabet
    n = ctx.pick(6, 9)
    r = ctx.model_check("codec", "MC_Lzw", "MC_Lzw.cfg", constants={"MaxLen": n}, coverage=True,
                        timeout=ctx.pick(400, 2400), label="alphabet {0,1,255}")
    ctx.check_coverage(r, ["Feed", "Close"])
    ctx.exhaustive = True
    #    and Lossless / TypeOK along random inputs over all 256 byte values, long enough to widen the codes
    sl = ctx.pick(320, 900)
    rs = ctx.tlc("codec", "MC_Lzw", "Sim_Lzw.cfg", constants={"MaxLen": sl}, simulate="num=%d" % ctx.pick(1, 5),
                 depth=sl + 2, seed=ctx.seed, timeout=ctx.pick(400, 2400), javaopts="-Xss512m", count=False,
                 label="Lossless on random walks")
    ctx.log("TLC simulate Sim_Lzw: %d states checked, %.1fs" % (rs.generated, rs.wall))
    if ctx.replay:
        beh = json.load(open(ctx.replay))["detail"]["behaviour"]
        bs, plan = [], [dict(kind="explicit", n=len(beh["input"]), k=0, seed=0, input=beh["input"])]
    else:
        # 2. behaviours with predicted outputs: every input over {0,1,255} up to 7 bytes, random walks over all bytes
        bs = ctx.behaviours("codec", "Gen_Lzw", "Gen_Lzw.cfg", constants={"MaxLen": ctx.pick(6, 8)}, timeout=900)
        wl = ctx.pick(600, 2200)
        bs += ctx.behaviours("codec", "Gen_Lzw", "GenSim_Lzw.cfg", constants={"MaxLen": wl},
                             simulate="num=%d" % ctx.pick(5, 30), depth=wl + 2, seed=ctx.seed, timeout=2400)
        if not ctx.quick():
            bs += ctx.behaviours("codec", "Gen_Lzw", "GenSim_Lzw.cfg", constants={"MaxLen": 4600},
                                 simulate="num=2", depth=4602, seed=ctx.seed + 1, timeout=2400)
        plan = _plan(ctx)
    # 3. replay TLC's predictions into common.Compress / Decompress
    if bs:
        inp = ctx.path("in", "lzw.ndjson")
        with open(inp, "w") as fh:
            for b in bs:
                fh.write(json.dumps(b) + "\n")
        ctx.absorb(ctx.go_replay("lzw", "TestReplay", inp))
    # 4. record real outputs for seeded inputs, validate the batch against the reference encoder
    pin = ctx.path("in", "plan.ndjson")
    with open(pin, "w") as fh:
        for p in plan:
            fh.write(json.dumps(p) + "\n")
    recs = ctx.go_replay("lzw", "TestRecord", pin)
    ctx.absorb(recs, count_traces=False)
    tfile = ctx.path("work", "s0", "trace.ndjson")
    if not os.path.exists(tfile):
        raise vlib.MachineryError("recorder wrote no trace.ndjson")
    cases = [json.loads(l) for l in open(tfile) if l.strip()]
    if len(cases) != len(plan):
        raise vlib.MachineryError("recorder wrote %d cases for a plan of %d" % (len(cases), len(plan)))
    ok, r = ctx.validate_trace("codec", "Trace_Lzw", "Trace_Lzw.cfg", cases, timeout=ctx.pick(600, 3000))
    done = len([l for l in r.printed if l.startswith('<<"T"')])
    ctx.log("trace validation: %d cases, %d bytes, %d accepted, %d states, %.1fs"
            % (len(cases), sum(len(c["input"]) for c in cases), done, r.distinct, r.wall))
    ctx.states += r.distinct
    ctx.transitions += r.generated
    bad = [l for l in r.printed if l.startswith('<<"BAD"')]
    if not ok:
        raise vlib.MachineryError("trace validation: unexpected TLC violation %s\n%s" % (r.violation, r.out[-2000:]))
    if not bad:
        if done != len(cases):
            raise vlib.MachineryError("trace validation stopped after %d of %d cases without a mismatch" % (done, len(cases)))
        ctx.traces_validated += len(cases)
    else:
        m = re.match(r'<<"BAD", (\d+), (\d+), "([^"]*)">>', bad[0].strip())
        if not m:
            raise vlib.MachineryError("cannot parse mismatch record %s" % bad[0])
        i, off, what = int(m.group(1)), int(m.group(2)), m.group(3)
        ctx.traces_validated += done
        pl = plan[i - 1]
        ctx.violations.append(dict(
            key="lzw:format:%s" % pl["kind"],
            what="common.Compress of the %s input #%d (%d bytes, k=%s, seed %s): %s near output byte %d of %d"
                 % (pl["kind"], i, len(cases[i - 1]["input"]), pl.get("k"), pl.get("seed"), what, off,
                    len(cases[i - 1]["output"])),
            case="r%d" % (i - 1), detail=dict(behaviour=cases[i - 1], plan=pl, offset=off)))
    for b in bs[5:6] + bs[-1:]:
        ctx.sample(dict(input=b["input"][:40], output=b["output"][:40], input_len=len(b["input"])))
    for pl in plan[:1] + plan[-2:-1]:
        ctx.sample({k: v for k, v in pl.items() if k != "input"})
    return ctx.finish(
        rule="(a) every input over the alphabet {0,1,255} up to 6/8 bytes and TLC random walks over all byte values "
             "(600/2200/4600 bytes) with the output predicted by the reference encoder, compared with common.Compress "
             "and decompressed again; (b) seeded inputs (bloom-like 256-byte strings with 0..2048 bits set, random "
             "strings of 1..9000/20000 bytes crossing the 9,10,11,12-bit code widths and the table reset, "
             "low-entropy and periodic strings) compressed by the real code and re-computed byte by byte by the "
             "reference encoder in TLC (one state per input byte). Distinct by input; non-trivial if longer than "
             "one byte",
        assumptions=["the reference encoder/decoder pair of Lzw.tla defines the legacy format (MSB-first, literal "
                     "width 8, first code a literal, clear code at 4095 assigned codes)",
                     "inputs larger than 40 kB are not explored"])
