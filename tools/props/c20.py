"""C20 State sync rebuilds exactly the trusted state and stores nothing else (spec/trie/StateSync.tla)."""
import json
import os


def run(ctx):
    env = {}
    if ctx.replay:
        d = json.load(open(ctx.replay))["detail"]
        env["VERIF_FIX_SEED"] = str(d.get("seed", ""))
        allb = [d["behaviour"]]
    else:
        if not os.environ.get("VERIF_SKIP_MC"):  # developer switch used by the mutant self-tests
            r0 = ctx.model_check("trie", "MC_StateSync", "MC_StateSync_cov.cfg", coverage=True, timeout=900)
            ctx.check_coverage(r0, ["Deliver", "DeliverDup", "DeliverForged", "DeliverEarly"])
            # every target map over the key universe, every delivery order, duplicates and unrequested payloads anywhere
            ctx.model_check("trie", "MC_StateSync", "MC_StateSync.cfg", timeout=ctx.pick(900, 3000),
                            constants={"Vals": "{1, 3}"})
            if not ctx.quick():
                ctx.model_check("trie", "MC_StateSync", "MC_StateSync_6.cfg", timeout=3000)
            ctx.exhaustive = False  # TLC stage exhaustive; the replayed behaviours are random walks
        allb = ctx.behaviours("trie", "Gen_StateSync", ctx.pick("Gen_StateSync_q.cfg", "Gen_StateSync.cfg"), simulate="num=%d" % ctx.pick(200, 600),
                              depth=42, seed=ctx.seed, timeout=ctx.pick(900, 3000))
        if not ctx.quick():  # three-symbol alphabet (6561 initial target maps are enumerated first: thorough only)
            allb += ctx.behaviours("trie", "Gen_StateSync", "Gen_StateSync_w3.cfg", simulate="num=300",
                                   depth=52, seed=ctx.seed + 7, timeout=3000)
        for b in allb[:3]:
            ctx.sample([{k: s.get(k) for k in ("op", "i", "res", "unres", "nstored", "map") if k in s} for s in b[:14]])
    # one level higher: the sync processor (service/sync2) with peers answering in TLC-chosen ways (spec/trie/SyncProc.tla)
    procb = []
    if ctx.replay and json.load(open(ctx.replay))["detail"].get("proc"):
        procb, allb = allb, []
    elif not ctx.replay:
        if not os.environ.get("VERIF_SKIP_MC"):
            r1 = ctx.model_check("trie", "MC_SyncProc", "MC_SyncProc_cov.cfg", coverage=True, timeout=900)
            ctx.check_coverage(r1, ["SUBSET", "Late", "Migrate"])  # "SUBSET ..." is the Respond disjunct (its text is cut after the quantifier)
            ctx.model_check("trie", "MC_SyncProc", "MC_SyncProc.cfg", timeout=ctx.pick(900, 3000),
                            constants={"Vals": ctx.pick("{1}", "{1, 2}")})
        procb = ctx.behaviours("trie", "Gen_SyncProc", ctx.pick("Gen_SyncProc_q.cfg", "Gen_SyncProc.cfg"), simulate="num=%d" % ctx.pick(25, 300),
                               depth=32, seed=ctx.seed + 3, timeout=ctx.pick(900, 3000))
    if procb:
        pin = ctx.path("in", "proc.ndjson")
        with open(pin, "w") as fh:
            for b in procb:
                fh.write(json.dumps(b) + "\n")
        precs = ctx.go_replay("statesync", "TestReplayProc", pin, timeout=ctx.pick(900, 3000), env=env, shards=ctx.pick(4, 8))
        ctx.absorb(precs)
        ctx.notes.append("sync processor behaviours: %d" % len(procb))
    inp = ctx.path("in", "behaviours.ndjson")
    with open(inp, "w") as fh:
        for b in allb:
            fh.write(json.dumps(b) + "\n")
    recs = ctx.go_replay("statesync", "TestReplay", inp, timeout=ctx.pick(900, 3000), env=env, shards=ctx.pick(2, 4))
    ctx.absorb(recs)
    done = sum((r.get("extra") or {}).get("completed_syncs", 0) for r in recs if r.get("summary"))
    ctx.notes.append("behaviours that run the sync to completion (rebuilt trie compared with the source): %d" % done)
    return ctx.finish(
        rule="a behaviour = one target trie (random map over 6 (quick) / 8 keys with shared prefixes, 2 object values so that "
             "data and subtrees are shared, and a third value whose data is byte-identical to the leaf node of another key, so that "
             "one hash is wanted in the MerkleTrie and the BytesByHash bucket) plus one TLC-chosen arrival sequence: answers to the i-th outstanding request "
             "in any order, duplicates, forged payloads, genuine but unrequested entries; distinct by (map, arrival "
             "sequence); non-trivial if the sync completes (then the rebuilt trie is compared with the source)",
        assumptions=["MapDB backends, builder over a LayerDB as in merkle.NewBuilder",
                     "the trie is a trie for objects whose values are 32-byte hashes of data in the BytesByHash bucket "
                     "(all nodes are hash-addressed); the value object checks the local store before requesting, as trie nodes do",
                     "hashes are collision free (symbolic in the spec)"])
