"""C06 Double-sign evidence is accepted only for genuine conflicts (spec/cert/DoubleSign.tla)."""
import json

FULL = {"Signers": '{"s1", "s2"}', "Heights": "{1, 2}", "Rounds": "{0, 1}", "Nids": "{0, 1, 2, 9}",
        "Bodies": '{"x", "y", "nil"}', "Auxes": "{1, 2}"}
# Us = unsigned part of a precommit (BTP vote bases / proof parts): 0 none, 1, 2 two different lists
# one slot family of the log: the log is partitioned by (kind, signer, height, round)
SLOT = {"Signers": '{"s1"}', "Heights": "{1}", "Rounds": "{0}", "Nids": "{0, 1, 2, 9}",
        "Bodies": '{"x", "y", "nil"}', "Auxes": "{1, 2}"}
SLOT2 = {"Signers": '{"s1"}', "Heights": "{1}", "Rounds": "{0, 1}", "Nids": "{0, 1, 2, 9}",
         "Bodies": '{"x", "nil"}', "Auxes": "{1, 2}"}
SMALL = {"Signers": '{"s1", "s2"}', "Heights": "{1}", "Rounds": "{0, 1}", "Nids": "{0, 1, 2, 9}",
         "Bodies": '{"x", "nil"}', "Auxes": "{1, 2}"}


def run(ctx):
    # 1. exhaustive: (a) every ordered pair of the full alphabet through Check and every single Receive,
    #    (b) every sequence of <= 3/4 Receives over a reduced alphabet (quick: 1 signer, 1 height, 2 rounds, 2 bodies, u in {0,1}: 84 messages; thorough: 1 round, 2 bodies, u in {0,1,2}: 54 messages)
    us = ctx.pick("{0, 1}", "{0, 1, 2}")
    if not ctx.replay:
      # quick: one height (264 messages, 69696 pairs); thorough: the full alphabet with three unsigned variants
      r1 = ctx.model_check("cert", "MC_DoubleSign", "MC_DoubleSign_pairs.cfg",
                         constants=dict(FULL, Heights=ctx.pick("{1}", "{1, 2}"), Us=us, MaxOps=1), coverage=True, timeout=900,
                         label="all ordered pairs")
      ctx.check_coverage(r1, ["Receive", "Check", "Decode"])
      r2 = ctx.model_check("cert", "MC_DoubleSign", "MC_DoubleSign.cfg",
                           constants=dict(ctx.pick(SLOT2, dict(SLOT, Bodies='{"x", "nil"}')), Us=us, MaxOps=ctx.pick(3, 4)), coverage=True, timeout=1500,
                           label="log sequences")
      ctx.check_coverage(r2, ["Receive"], allow_zero=("Check", "Decode"))
      ctx.exhaustive = True
    items = []
    if ctx.replay:
        d = json.load(open(ctx.replay))["detail"]
        items.append(dict(t="beh", steps=d["behaviour"]))
        rule_n = (0, 0, 0)
    else:
        # 2. the decision table of the predicate over the full alphabet (528 messages, 278784 ordered pairs with
        #    u in {0,1}; 672 / 451584 with u in {0,1,2})
        rt = ctx.tlc("cert", "Gen_DoubleSign", "Gen_DoubleSign.cfg", constants=dict(FULL, Us=us, Mode='"table"', MaxOps=0, Depth=0),
                     count=False, timeout=600, label="table")
        from vlib import parse_tagged
        alph = parse_tagged(rt.printed, "A")
        rows = parse_tagged(rt.printed, "R")
        if len(alph) != 1 or len(rows) != len(alph[0]):
            raise __import__("vlib").MachineryError("table generator printed %d alphabets, %d rows" % (len(alph), len(rows)))
        items.append(dict(t="alphabet", msgs=alph[0]))
        items += [dict(t="row", m=r["m"], evs=r["evs"]) for r in rows]
        ctx.log("table: %d messages, %d predicted conflicts" % (len(rows), sum(len(r["evs"]) for r in rows)))
        # 3. log behaviours: all Receive sequences of depth 2/3 within one slot family + random walks over everything
        d = ctx.pick(2, 3)
        bs = ctx.behaviours("cert", "Gen_DoubleSign", "Gen_DoubleSign.cfg",
                            constants=dict(SLOT if ctx.quick() else dict(SLOT, Bodies='{"x", "nil"}'), Us="{0, 1}",
                                           Mode='"log"', MaxOps=d, Depth=d), timeout=900)
        wl = ctx.pick(8, 16)
        walks = ctx.behaviours("cert", "Gen_DoubleSign", "Gen_DoubleSign.cfg",
                               constants=dict(SMALL, Us=us, Mode='"log"', MaxOps=wl, Depth=wl),
                               simulate="num=%d" % ctx.pick(300, 4000), depth=wl + 2, seed=ctx.seed, timeout=900)
        # 3b. bytes that are not a correctly signed message of the stated type, for every message of one slot family
        dec = ctx.behaviours("cert", "Gen_DoubleSign", "Gen_DoubleSign.cfg",
                             constants=dict(SLOT, Us="{0, 1}", Mode='"decode"', MaxOps=1, Depth=1), timeout=900)
        items += [dict(t="beh", steps=b) for b in bs + walks + dec]
        for b in (walks[:1] + bs[-1:]):
            ctx.sample([dict(op=s["op"], m=s["m"], ev=s["ev"]) for s in b][:6])
        rule_n = (len(rows), len(bs), len(walks))
    inp = ctx.path("in", "cases.ndjson")
    with open(inp, "w") as fh:
        for it in items:
            fh.write(json.dumps(it) + "\n")
    # 4. replay into DecodeDoubleSignData/IsConflictWith and the engine's double-sign log
    recs = ctx.go_replay("doublesign", "TestReplay", inp, timeout=900)
    ctx.absorb(recs)
    return ctx.finish(
        rule="(a) one case per message m of the alphabet (3 kinds x 2 signers x 2 heights x 2 rounds x 3 "
             "network ids x 3 bodies x 2 timestamps/POL rounds, precommits additionally x 2/3 unsigned BTP parts re-encoded "
             "under the same signature): IsConflictWith(m, m2) for every m2 of the alphabet "
             "(%d rows = all ordered pairs, verdict predicted by TLC), non-trivial if some partner conflicts; "
             "(b) %d BFS + %d random Receive sequences on the double-sign log, distinct by message sequence, "
             "non-trivial if evidence is reported" % rule_n,
        assumptions=["signatures are symbolic in the spec: two messages have the same signed hash iff all signed fields agree; "
                     "secp256k1/SHA3 are trusted",
                     "the log is driven through the add-only hook consensus/verif_export_cert.go (VerifDSMLog) with the "
                     "engine's capacity, so no eviction happens within a behaviour",
                     "real=no-conflict where the spec says conflict is reported as divergence, not as violation "
                     "(C06 is a soundness property: evidence only for genuine conflicts)"])
