"""C21 Contract storage containers do not collide (spec/data/KeyCodec.tla, ContainerKeys.tla, Containers.tla)."""
import json

ALPHA_Q = '{"e", "z", "a", "m7f", "m80", "az", "x81", "x80", "L55", "L56"}'
ALPHA_T = '{"e", "z", "o", "a", "m7f", "m80", "ff", "az", "aa", "x81", "x80", "xb8", "adr", "h32", "L54", "L55", "L56", "L57", "L255", "L256", "L257"}'
GEN_Q = '{"e", "z", "a", "m80", "az", "x81", "L55", "L56"}'
GEN_T = '{"e", "z", "a", "m7f", "m80", "az", "x81", "xb8", "adr", "L55", "L56", "L255", "L256"}'
WALK_IDS = '{"e", "z", "o", "a", "m7f", "m80", "ff", "az", "aa", "x81", "x80", "xb8", "adr", "h32", "L54", "L55", "L56", "L57", "L255", "L256", "L257"}'
PROBES = ('{"empty", "one", "nc1", "short_ok", "short_tr", "short_tr2", "long_ok", "long_tr", "long_small", "long_nosz", '
          '"long_lz", "long2_ok", "long2_tr", "long3_tr", "long3_lz", "long4", "long5", "long6", "long7_lz", "long8_lz", "list", "list_after", "f8"}')
# (builder type, raw prefix id) combinations the containers are replayed under
KINDS = [("hash", '""', "adv"), ("hash", '"adr"', "adv"), ("phash", '"p"', "adv"), ("rlp", '""', "adv"),
         ("hash", '""', "scoredb")]      # the last: containers of system SCOREs through service/scoredb


def run(ctx):
    if not ctx.replay:
        model_check(ctx)
    replay(ctx)
    return finish(ctx)


def model_check(ctx):
    # 1. key encoding: constant-level obligations over all tuples (ASSUMEs) + the key-builder machine
    r = ctx.model_check("data", "MC_ContainerKeys", "MC_ContainerKeys.cfg",
                        constants={"TupleIds": ctx.pick(ALPHA_Q, ALPHA_T), "MaxParts": ctx.pick(3, 3),
                                   "PartIds": ctx.pick('{"e", "z", "a", "m80", "L56"}',
                                                       '{"e", "z", "a", "m80", "az", "x81", "L55", "L56"}')},
                        coverage=True, timeout=ctx.pick(400, 2400))
    ctx.check_coverage(r, ["New", "AppendTo", "Probe"])
    # 2. containers over one shared store refine independent array/map/cell
    if ctx.quick():
        r = ctx.model_check("data", "MC_Containers", "MC_Containers.cfg",
                            constants={"MaxOps": 5, "MaxLen": 2, "Snaps": "FALSE"}, coverage=True, timeout=600)
        # with read-only snapshots of the store (one history step less: the snapshot multiplies the state space)

    else:
        r = ctx.model_check("data", "MC_Containers", "MC_Containers_All.cfg", coverage=True, timeout=3000)
        ctx.exhaustive = True
    ctx.check_coverage(r, ["ArrPut", "ArrPop", "ArrSet", "ArrGet", "ArrSize", "DictSet", "DictDelete", "DictGet",
                           "DictBadArity", "VarSet", "VarDelete", "VarGet"], allow_zero=("Freeze", "AnySnap"))
    # with read-only snapshots of the store and the depth-3 dictionary (GetDB with one key, two keys at once, two chained
    # calls); shorter histories: both multiply the state space
    rs = ctx.model_check("data", "MC_Containers", "MC_Containers.cfg",
                         constants={"MaxOps": ctx.pick(3, 4), "MaxLen": 2, "Snaps": "TRUE", "Deep": "TRUE"}, coverage=True,
                         timeout=ctx.pick(900, 3000), label="snapshots + depth-3 dictionary")
    ctx.check_coverage(rs, ["Freeze", "AnySnapRead", "AnySnapWrite", "DictSet", "DictGet", "DictDelete"])
    # the same for the containers of system SCOREs (service/scoredb: type part 0x00/0x01/0x02, one shared name)
    ctx.model_check("data", "MC_Containers", "MC_Containers.cfg",
                    constants={"MaxOps": ctx.pick(3, 5), "MaxLen": 2, "Universe": '"scoredb"', "BType": '"hash"', "Snaps": "FALSE",
                               "Deep": "TRUE"},
                    timeout=1800, label="scoredb universe")
    # sensitivity guard: the same universe under the non-injective raw builder must collide
    g = ctx.tlc("data", "MC_ContainersRaw", "MC_ContainersRaw.cfg", expect_violation=True, count=False,
                timeout=600, label="sensitivity guard (raw builder collides)")
    if g.violation != "Refines":
        raise_guard(g)


def replay(ctx):
    # 3. key-builder behaviours -> real ToKey/NewHashKey/Append/Build/SplitKeys
    if ctx.replay:
        d = json.load(open(ctx.replay))["detail"]
        kb, cb = ([d["behaviour"]], []) if d.get("kind") == "keys" else ([], [d["behaviour"]])
    else:
        kb = ctx.behaviours("data", "Gen_ContainerKeys", "Gen_ContainerKeys.cfg",
                            constants={"PartIds": ctx.pick(GEN_Q, GEN_T)}, timeout=1500)
        # calls with two arguments, all builder types, branching (two builders derived from one)
        kb += ctx.behaviours("data", "Gen_ContainerKeys", "Gen_ContainerKeys.cfg",
                             constants={"PartIds": ctx.pick('{"e", "m80", "L56", "L256"}', '{"e", "z", "m80", "x81", "L55", "L56", "L256"}'),
                                        "RawIds": '{"a", "adr"}', "MaxBuilders": 3, "MaxNew": 1, "MaxArgs": 2,
                                        "MaxParts": 4, "MaxOps": 2, "Depth": 2}, timeout=1500)
        # a part of 65536 bytes (3-byte size field), every builder type, alone and after a short part
        kb += ctx.behaviours("data", "Gen_ContainerKeys", "Gen_ContainerKeys.cfg",
                             constants={"PartIds": '{"a", "L65536"}', "RawIds": '{"a"}', "MaxBuilders": 2, "MaxNew": 1,
                                        "MaxArgs": 1, "MaxParts": 2, "MaxOps": 2, "Depth": 2,
                                        "Types": '{"hash", "phash", "rlp", "raw", "tkey"}'}, timeout=900)
        # SplitKeys on crafted (truncated, non-minimal, list-tagged) inputs
        kb += ctx.behaviours("data", "Gen_ContainerKeys", "Gen_ContainerKeys.cfg",
                             constants={"PartIds": "{}", "RawIds": "{}", "MaxOps": 1, "Depth": 1, "ProbeIds": PROBES},
                             timeout=600)
        # 4. container behaviours: all of depth 2 + random walks per key-builder kind
        cb = []
        for i, (bt, raw, uni) in enumerate(KINDS):
            cs = {"BType": '"%s"' % bt, "BRawId": raw, "Universe": '"%s"' % uni}
            if i == 0 or not ctx.quick():
                cb += ctx.behaviours("data", "Gen_Containers", "Gen_Containers.cfg",
                                     constants=dict(cs, MaxOps=2, Depth=2), timeout=900)
            if ctx.quick() and i in (1, 3):
                continue        # quick: random walks for hash, prefixed-hash and scoredb containers only
            wl = ctx.pick(16, 30)
            cb += ctx.behaviours("data", "Gen_Containers", "Gen_Containers.cfg",
                                 constants=dict(cs, MaxOps=wl, Depth=wl, Deep="TRUE"),
                                 simulate="num=%d" % ctx.pick(60, 600), depth=wl + 1, seed=ctx.seed + i,
                                 timeout=900)
    if kb:
        inp = ctx.path("in", "keys.ndjson")
        with open(inp, "w") as fh:
            for b in kb:
                fh.write(json.dumps(b) + "\n")
        ctx.absorb(ctx.go_replay("containers", "TestReplayKeys", inp))
        ctx.sample([{k: s[k] for k in ("op", "type", "raw", "from", "ps")} for s in kb[len(kb) // 2]["steps"]])
    if cb:
        inp = ctx.path("in", "containers.ndjson")
        with open(inp, "w") as fh:
            for b in cb:
                fh.write(json.dumps(b) + "\n")
        ctx.absorb(ctx.go_replay("containers", "TestReplay", inp))
        for b in (cb[-1:] + cb[:1]):
            ctx.sample([{k: s[k] for k in ("op", "c", "i", "ks", "v", "via", "res")} for s in b][:12])


def finish(ctx):
    return ctx.finish(
        rule="key case = one TLC-generated sequence of ToKey/NewHashKey/Append calls (all chains of 3 calls over "
             "the part alphabet, all 2-call sequences with two-argument calls and two builders derived from one, SplitKeys probes), distinct by its "
             "(op,type,raw,from,parts) sequence; container case = one TLC-generated call sequence on 2 arrays, "
             "2 dictionaries and 2 variables sharing one store (all of depth 2 + random walks per key-builder "
             "kind and for the scoredb containers of system SCOREs), distinct by its call sequence and builder kind, "
             "non-trivial if it has >= 2 writes",
        assumptions=["SHA3-256 is collision free (hashes are symbolic terms in the spec)",
                     "key parts are compared as byte strings: Go values of different types with equal ToBytes() "
                     "form are the same part by design",
                     "raw prefixes (NewHashKey prefix, PrefixedHashBuilder first key) are compared only among "
                     "prefixes of equal length; the RawBuilder is excluded (not injective by design)",
                     "store backends: in-memory map, the real MPT (trie_manager.NewMutable over MapDB) and a contract account "
                     "of a real world state next to a second contract that performs the same calls with other values"])


def raise_guard(g):
    from vlib import MachineryError
    raise MachineryError("sensitivity guard: Containers with the raw builder should violate Refines, TLC says %s"
                         % g.violation)
