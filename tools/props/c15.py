"""C15 Transaction fees and transfers conserve ICX (spec/txexec/TxExec.tla).

The pipeline is shared with C16 (props/c16.py): one model, one replay driver, one trace spec.
  1. exhaustive TLC run of TxExec over the program catalogue (MC_TxExec)
  2. behaviours: BFS over all transaction shapes (Gen_TxExec) + staged random walks (Sim_TxExec)
  3. replay into real transitions (harness/txexec), which records what the real code did
  4. Trace_TxExec validates the recorded executions; its verdict-bearing predicates decide.
"""
import json

# verdict-bearing predicates of Trace_TxExec, by property
PREDS_C15 = ["StepBounds", "PriceReported", "FailedFeeExact", "PlainTransfer", "Conserved", "NonNegative",
             "SenderCharged", "TreasuryGetsFees", "TotalConserved"]
PREDS_C16 = ["FailedOnlyPayer", "OnlyPayerHash", "NoOutputOnFailure", "StatusConsistent", "FrameEffects",
             "FrameOutput", "ControlFlow"]

BASE = dict(Users='{"a", "b", "c"}', Contracts='{"x", "y", "s", "e"}', SyncContracts='{"s"}', EEContracts='{"e"}',
            Hangers='{"z"}', HxTwins='{"xh"}', CxTwins='{"ac"}',
            Ghosts='{"g"}', Keys='{"k1", "k2"}',
            Prices="{0, 1, 2}", MsgLen="6", CallLen="37", MidPrice="TRUE")

# chain configurations: step costs of the genesis (constants of the specification) and the
# environment variables that make the harness build the same chain
CHAINS = {
    "plain": dict(consts=dict(DefaultCost="2", InputCost="0", CallCost="1", WithMsg="FALSE", InvokeLimit="9"),
                  env=dict(VERIF_TX_DEFAULT="2", VERIF_TX_INPUT="0", VERIF_TX_CALL="1", VERIF_TX_BTP="0", VERIF_TX_INVOKE="9", VERIF_TX_CHAIN="plain"),
                  bals=dict(FundVals="{0, 1, 4, 7, 12, 20}", SimBals="{0, 3, 6, 14, 25}")),
    "input": dict(consts=dict(DefaultCost="1", InputCost="1", CallCost="2", WithMsg="FALSE", InvokeLimit="268435456"),
                  env=dict(VERIF_TX_DEFAULT="1", VERIF_TX_INPUT="1", VERIF_TX_CALL="2", VERIF_TX_BTP="0", VERIF_TX_CHAIN="input"),
                  # a call costs >= 38 steps here: balances around 1x and 2x that
                  bals=dict(FundVals="{0, 4, 40, 44, 50, 90, 130}", SimBals="{0, 6, 41, 47, 85, 120}")),
    "btp": dict(consts=dict(DefaultCost="2", InputCost="0", CallCost="1", WithMsg="TRUE", InvokeLimit="7"),
                env=dict(VERIF_TX_DEFAULT="2", VERIF_TX_INPUT="0", VERIF_TX_CALL="1", VERIF_TX_BTP="1", VERIF_TX_REVISION="9",
                         VERIF_TX_INVOKE="7", VERIF_TX_CHAIN="btp"),
                bals=dict(FundVals="{0, 1, 4, 7, 12, 20}", SimBals="{0, 3, 6, 14, 25}")),
}


def consts(chain, **kw):
    c = dict(BASE)
    c.update(CHAINS[chain]["consts"])
    c.update({k: str(v) for k, v in kw.items()})
    return c


INVOKE_CAP = {}
_CHAIN = ["plain"]


def chain_of(b):
    return _CHAIN[0]


def features(b):
    """coverage features of one behaviour (vacuity guard of the generated set)"""
    f = set()
    ntx = 0
    for s in b:
        if s["op"] == "tx":
            ntx += 1
            r, tx = s["res"], s["tx"]
            f.add("code:" + r["code"])
            f.add("kind:" + tx["kind"] + ("" if r["ok"] else ":failed"))
            if r["rb"]:
                f.add("charge-loop:rollback")
            if r["fr"]:
                f.add("charge-loop:price0")
            if r["ok"] and r["logs"] > 0:
                f.add("ok-with-logs")
            if r["ok"] and r["msgs"] > 0:
                f.add("ok-with-msgs")
            if r["ok"] and r["orc"] and not all(r["orc"]):
                f.add("ok-with-failed-charge-inside")
            if not r["ok"] and r["entered"]:
                f.add("failed-after-entering-contract")
            if not r["ok"] and r["entered"] and any(o["o"] in ("set", "take", "call", "xfer") for o in tx["prog"]):
                f.add("failed-after-mutation")
            if any(o["o"] == "call" and any(p["o"] == "call" for p in o["sub"]) for o in tx["prog"]):
                f.add("nested-depth-2")
            if tx["to"] == "g":
                f.add("to-contract-without-code")
            if tx["to"] in ("xh", "ac") and tx["value"] > 0 and r["code"] == "fail":
                f.add("transfer-to-wrong-address-form:" + tx["to"])
            if any(o["o"] == "xfer" and o["a"] == "xh" for o in tx["prog"]) and r["entered"]:
                f.add("inter-call-transfer-to-wrong-address-form")
            if tx["to"] == "e":
                f.add("ee-contract:" + ("ok" if r["ok"] else "failed"))
                if r["ok"] and any(o["o"] == "call" for o in tx["prog"]):
                    f.add("ee-contract:ok-with-inter-call")
            if any(o["o"] == "call" and o["a"] == "e" for o in tx["prog"]) and tx["to"] != "e" and r["entered"]:
                f.add("ee-contract:called-from-other-kind")
            if tx["limit"] < r["su"]:
                f.add("limit-below-minimum-charge")
            if tx["limit"] > INVOKE_CAP.get(chain_of(b), 1 << 40) and r["entered"]:
                f.add("limit-above-invoke-limit")
            if r["code"] == "timeout":
                # where the mutations that must be rolled back were made
                f.add("timeout:" + ("sync-frame" if tx["to"] == "s" else "direct" if tx["to"] == "z" else
                                    "ee-frame" if tx["to"] == "e" else "async-frame"))
                if any(o["o"] == "call" and o["a"] == "s" for o in tx["prog"]):
                    f.add("timeout:below-nested-sync-frame")
                if any(o["o"] == "ev" for o in tx["prog"]):
                    f.add("timeout:after-events")
        elif s["op"] == "end":
            f.add("blocks-of-%d" % min(ntx, 3))
            ntx = 0
        else:
            f.add("op:" + s["op"])
            if s["op"] == "price" and ntx > 0:
                f.add("price-change-inside-block")
    return f


REQUIRED = ["code:ok", "code:balance", "code:fail", "charge-loop:rollback", "charge-loop:price0",
            "ok-with-logs", "ok-with-failed-charge-inside", "failed-after-mutation", "nested-depth-2",
            "to-contract-without-code", "kind:transfer", "kind:message", "kind:call", "kind:call:failed",
            "blocks-of-1", "blocks-of-2", "blocks-of-3", "op:price", "op:fund", "price-change-inside-block",
            "code:timeout", "timeout:sync-frame", "timeout:async-frame", "timeout:direct",
            "timeout:below-nested-sync-frame", "timeout:after-events", "timeout:ee-frame",
            "ee-contract:ok", "ee-contract:failed", "ee-contract:ok-with-inter-call",
            "ee-contract:called-from-other-kind", "transfer-to-wrong-address-form:xh",
            "transfer-to-wrong-address-form:ac", "inter-call-transfer-to-wrong-address-form", "limit-below-minimum-charge", "limit-above-invoke-limit"]


def generate(ctx, chain, *, bfs, walks, wdepth, maxtx=3, par=1, users=None):
    """BFS over the transaction shapes (Gen_TxExec) and random walks (Sim_TxExec, `par` TLC
    processes with seeds derived from ctx.seed)."""
    from concurrent.futures import ThreadPoolExecutor
    bs = []
    if bfs:
        bs += ctx.behaviours("txexec", "Gen_TxExec", "Gen_TxExec.cfg",
                             constants=consts(chain, MaxTx=3, MaxOps=2, Depth=2, FundVals="{}", **bfs), timeout=1500)
    if walks:
        def sim(k):
            return ctx.behaviours("txexec", "Sim_TxExec", "Sim_TxExec.cfg",
                                  constants=consts(chain, MaxTx=maxtx, MaxOps=wdepth, Depth=wdepth,
                                                   SimCBals="{0, 1, 3}", **dict(CHAINS[chain]["bals"], **(users or {}))),
                                  simulate="num=%d" % max(1, walks // par), depth=4 * wdepth,
                                  seed=ctx.seed * 16 + k, timeout=2400)
        if par <= 1:
            bs += sim(0)
        else:
            with ThreadPoolExecutor(par) as ex:
                for part in ex.map(sim, range(par)):
                    bs += part
    seen, out = set(), []
    for b in bs:
        k = json.dumps(b, sort_keys=True)
        if k not in seen:
            seen.add(k)
            out.append(b)
    return out


def require(bs, needed, label):
    import vlib
    _CHAIN[0] = label
    INVOKE_CAP[label] = int(CHAINS[label]["consts"]["InvokeLimit"])
    feats = set()
    for b in bs:
        feats |= features(b)
    missing = [f for f in needed if f not in feats]
    if missing:
        raise vlib.MachineryError("vacuity: generated behaviours (%s) never exercise %s" % (label, missing))
    return feats


def replay_and_validate(ctx, chain, allb, preds, label):
    """Replays behaviours on the chain configuration and validates the recorded executions."""
    inp = ctx.path("in", "behaviours-%s.ndjson" % label)
    with open(inp, "w") as fh:
        for b in allb:
            fh.write(json.dumps(b) + "\n")
    shards = 1 if len(allb) < 600 else 4
    recs = ctx.go_replay("txexec", "TestReplay", inp, shards=shards, env=CHAINS[chain]["env"], timeout=1500)
    ctx.absorb(recs)
    byc = {}
    trace = []
    for r in recs:
        if r.get("status") == "ok" and isinstance(r.get("detail"), dict):
            d = r["detail"]
            byc[r["case"]] = d
            for blk in d.get("blocks") or []:
                blk["case"] = "%s/%s" % (label, blk["case"])
                trace.append(blk)
    if not trace:
        raise ctx_error("no block was executed")
    cs = consts(chain, MaxTx=3, MaxOps=0, FundVals="{}", Users='{"a", "b", "c", "d"}')
    for k in ("WithMsg", "MsgLen", "CallLen", "SyncContracts", "EEContracts", "MCShift"):
        cs.pop(k, None)
    import vlib
    from concurrent.futures import ThreadPoolExecutor
    chunks = [trace[i:i + 2000] for i in range(0, len(trace), 2000)]
    with ThreadPoolExecutor(min(4, len(chunks))) as ex:
        results = list(ex.map(lambda ch: validate_trace(ctx, ch, cs), chunks))
    verdicts = []
    wall = 0.0
    for ch, (ok, r) in zip(chunks, results):
        done = vlib.parse_tagged(r.printed, "D")
        if not ok or not done or done[-1].get("blocks") != len(ch):
            raise vlib.MachineryError("Trace_TxExec did not consume the recorded trace (%s)\n%s"
                                      % (r.violation, r.out[-3000:]))
        verdicts += vlib.parse_tagged(r.printed, "V")
        wall += r.wall
    ctx.log("Trace_TxExec[%s]: %d blocks / %d transactions validated, %.1fs"
            % (label, len(trace), sum(len(b["txs"]) for b in trace), wall))
    bad_cases = set()
    for v in verdicts:
        mine = [p for p in v["fails"] if p in preds]
        if not mine:
            continue
        lab, case = v["case"].split("/", 1)
        idx = int(case[1:])
        bad_cases.add(case)
        kind = v.get("kind", "?")
        key = "txexec:%s:%s:%s" % (sorted(mine)[0], kind, "ok" if v.get("ok") else "failed")
        what = ("recorded execution of the real code violates %s: chain=%s case=%s block %d tx %d %s; "
                "pre=%s receipt=%s post=%s"
                % (",".join(sorted(mine)), chain, case, v["blk"], v["tx"], json.dumps(v.get("txd", kind)),
                   json.dumps(v.get("pre")), json.dumps(v.get("rc", {"fees": v.get("fees")})),
                   json.dumps(v.get("post"))))
        ctx.violations.append(dict(key=key, what=what, case=case,
                                   detail=dict(behaviour=allb[idx], chain=chain, fails=sorted(v["fails"]),
                                               blk=v["blk"], tx=v["tx"])))
    for case, d in byc.items():
        if d.get("mism") and case not in bad_cases:
            ctx.divergences.append(dict(case="%s/%s" % (label, case), what="; ".join(d["mism"][:3])))
    return len(trace)


def validate_trace(ctx, trace, cs):
    """ctx.validate_trace with constants (the chain configuration) appended to the cfg."""
    data = "\n".join(json.dumps(x, sort_keys=True) for x in trace) + "\n"
    r = ctx.tlc("txexec", "Trace_TxExec", "Trace_TxExec.cfg", timeout=1800, workers=1,
                extra_files={"trace.ndjson": data}, expect_violation=True, count=False, label="trace",
                constants=cs)
    return (r.violation is None), r


def ctx_error(msg):
    import vlib
    return vlib.MachineryError(msg)


def run_pipeline(ctx, preds, what):
    import vlib
    if ctx.replay:
        rp = json.load(open(ctx.replay))
        d = rp["detail"]
        replay_and_validate(ctx, d.get("chain", "plain"), [d["behaviour"]], preds, "replay")
        return finish(ctx, what, 1, 0, 0)
    # 1. exhaustive model check (all properties of the model + binding consistency)
    mc = ctx.pick(dict(MaxTx=2, MaxOps=3, MCFrom='{"a"}', MCBals="{4}", MCCBals="{2}", MCValues="{0, 1}",
                       MCExtras="{0, 3}", FundVals="{1}"),
                  dict(MaxTx=2, MaxOps=3, MCFrom='{"a", "b"}', MCBals="{0, 3, 9}", MCCBals="{0, 2}",
                       MCValues="{0, 1}", MCExtras="{0, 1, 3, 6}", MCShift=1, FundVals="{3}"))
    r = ctx.model_check("txexec", "MC_TxExec", "MC_TxExec.cfg", constants=consts("btp", **mc), coverage=True,
                        timeout=ctx.pick(600, 3000))
    ctx.check_coverage(r, ["ExecTx", "EndBlock", "SetPrice", "Fund"])
    ctx.exhaustive = True
    # 2. behaviours on the default chain configuration
    bfs = ctx.pick(dict(MCFrom='{"a"}', MCBals="{5}", MCCBals="{1}", MCValues="{0, 1}", MCExtras="{0, 2, 6}"),
                   dict(MCFrom='{"a", "b"}', MCBals="{5}", MCCBals="{0, 2}", MCValues="{0, 1, 2}",
                        MCExtras="{0, 1, 2, 3, 5, 8}", MCShift=1))
    par = ctx.pick(1, 4)
    allb = generate(ctx, "plain", bfs=bfs, walks=ctx.pick(120, 1600), wdepth=ctx.pick(12, 16),
                    maxtx=ctx.pick(3, 4), par=par,
                    users=ctx.pick(None, dict(Users='{"a", "b", "c", "d"}', SimBals="{0, 3, 6, 14}")))
    feats = require(allb, REQUIRED, "plain")
    ctx.cov.update({"feature:" + f: 1 for f in sorted(feats)})
    # 3./4. replay + trace validation
    nblocks = replay_and_validate(ctx, "plain", allb, preds, "plain")
    extra = 0
    if not ctx.quick():
        # other chain configurations: input bytes cost steps (out of step before the call);
        # revision 9 with an open BTP network (contracts send BTP messages) and a low invoke limit
        for chain, n, need in (("input", 480, ["code:step", "code:ok", "code:fail", "failed-after-mutation"]),
                               ("btp", 480, ["ok-with-msgs", "code:ok", "code:fail", "failed-after-mutation"])):
            bs = generate(ctx, chain, bfs=None, walks=n, wdepth=14, par=par)
            require(bs, need, chain)
            extra += len(bs)
            nblocks += replay_and_validate(ctx, chain, bs, preds, chain)
    for b in allb[:1] + allb[-2:]:
        ctx.sample([dict(op=s["op"], tx=s.get("tx"), res=s.get("res")) if s["op"] == "tx" else
                    {k: s[k] for k in s if k != "w"} for s in b][:8])
    return finish(ctx, what, len(allb), extra, nblocks)


def finish(ctx, what, n, extra, nblocks):
    return ctx.finish(
        rule="a behaviour = one TLC-generated chain history (initial world, fund / step price changes, blocks of "
             "<= 3 transactions of kinds transfer / message / call with a scripted program) with the model's "
             "predictions; %d on the default chain configuration (BFS over every transaction shape + random walks "
             "with value/limit choices at the boundaries) and %d on the other chain configurations; %d blocks "
             "executed by real transitions and validated by Trace_TxExec; distinct by its sequence of "
             "(kind, from, to, value, limit, program size); non-trivial if a transaction fails or runs a "
             "program. %s" % (n, extra, nblocks, what),
        assumptions=["basic platform, fixture default revision (revision 9 only for the BTP message runs), no fee sharing",
                     "blocks are executed as already validated (transition.alreadyValidated=true), so "
                     "transactions whose sender cannot afford them reach transactionHandler.Execute",
                     "contracts are system SCOREs scripted by the specification (no Java/Python execution engine)",
                     "the pre-state of a behaviour is established by a harness setup transaction; balances are small "
                     "integers (loop units), 3 users, 2 contracts, 1 contract address without code, the treasury",
                     "state outside the projected accounts is covered for failed transactions only (real state hash)"])


def run(ctx):
    return run_pipeline(ctx, PREDS_C15, "Verdict-bearing (C15): " + ", ".join(PREDS_C15))
