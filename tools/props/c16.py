"""C16 A failed transaction changes nothing but the fee (spec/txexec/TxExec.tla).

Same model, replay driver and trace spec as C15 (see props/c15.py); the verdict-bearing
predicates are the ones about failed transactions and failed frames."""
from props import c15


def run(ctx):
    return c15.run_pipeline(ctx, c15.PREDS_C16, "Verdict-bearing (C16): " + ", ".join(c15.PREDS_C16))
