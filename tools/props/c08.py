"""C08 Block encoding round-trips and binds body to header (spec/chain/BlockBinding.tla)."""
import json


def run(ctx):
    if ctx.replay:
        bs = [json.load(open(ctx.replay))["detail"]["behaviour"]]
    else:
        # 1. exhaustive: 5 x 5 real block shapes x every mix of part sources (3^5) x every damage class/position
        r = ctx.model_check("chain", "MC_BlockBinding", "MC_BlockBinding.cfg", coverage=True, timeout=600)
        ctx.check_coverage(r, ["Swap", "Damage", "Decode"])
        ctx.exhaustive = True
        # 2. every reachable stream with the predicted verdict
        bs = ctx.behaviours("chain", "Gen_BlockBinding", "Gen_BlockBinding.cfg", timeout=600)
        ctx.sample(bs[len(bs) // 2][0])
        ctx.sample(bs[-1][0])
    inp = ctx.path("in", "cases.ndjson")
    with open(inp, "w") as fh:
        for b in bs:
            fh.write(json.dumps(b) + "\n")
    # 3. real blocks of two real chains, recombined / damaged, into the real decoder (two entry points)
    #    (thorough: three independently built pairs of chains, i.e. different keys, transactions, messages, digests)
    for k in range(1 if (ctx.quick() or ctx.replay) else 3):
        recs = ctx.go_replay("blockbinding", "TestReplay", inp, shards=1 if ctx.replay else ctx.pick(2, 4), timeout=1500,
                             env={"VERIF_SEED": str(ctx.seed + 1000 * k)})
        ctx.absorb(recs)
    return ctx.finish(
        rule="a case = one byte stream: the real encoding of a real block X (5 shapes: with/without transactions, votes, BTP "
             "digest) whose patch list, transaction list, vote list, BTP digest and network-section filter each come from X, "
             "from a real block Y of another chain (5 shapes) or are empty (3^5 mixes), or X's encoding cut at / inside every "
             "top-level field, with an inflated list length, a flipped type tag or trailing bytes, or with one header field that no "
             "body hash protects re-encoded malformed (proposer of 0/19/20/22 bytes, type byte 2 or 255, absent; over-long "
             "version/height/timestamp; odd-length prevID, votesHash, nextValidatorsHash, logsBloom, result, nsFilter) while "
             "everything else stays hash-consistent; %d cases, each decoded by "
             "BlockManager and BlockDataFactory (malformed headers also by NewBlockFromHeaderReader); verdict predicted by TLC; every accepted stream is additionally checked "
             "against the literal binding statement" % len(bs),
        assumptions=["partial scope for 'arbitrary bytes': only the malformed classes the spec enumerates (truncation at and inside "
                     "every top-level field, inflated list length, flipped type tag, trailing bytes); unstructured random "
                     "bytes are outside the model (DESIGN.md section 7)",
                     "hashes are symbolic in the spec (SHA3 trusted); block version 2; test service manager and test "
                     "transactions of goloop's test package; one BTP network (so filters of non-empty digests coincide)",
                     "for inflated lengths and flipped tags the spec only predicts 'no crash'; acceptance is then judged by the "
                     "binding check on the decoded block"])
