"""Topology stage of C33: P2P connection management (spec/net/Topology.tla).

stage(ctx) runs the model checks, generates behaviours and replays them into real PeerToPeer instances;
run(ctx) makes the stage usable on its own:
    VERIF_EVIDENCE_DIR=/var/tmp/topo-evidence python3 tools/check.py C33_TOPOLOGY quick
"""
import json


def stage(ctx):
    # 1a. only discover-loop requests, accurate role views: agreement of both ends + limits, 8 events deep
    r = ctx.model_check("net", "MC_Topology", "MC_TopologyDiscover.cfg", constants={"MaxOps": ctx.pick(8, 10)},
                        coverage=True, timeout=ctx.pick(600, 3000), label="topology discover")
    ctx.check_coverage(r, ["ConnRequest", "Deliver", "PeerClose"], allow_zero=("InjectResp", "RoleChange", "Learn"))
    # 1b. arbitrary requests, one forged response, one role change: limits, valid types, roots never in a tree
    #     (quick: two of the five role configurations)
    r2 = ctx.model_check("net", "MC_Topology", ctx.pick("MC_TopologyQuick.cfg", "MC_Topology.cfg"),
                         constants={"MaxOps": ctx.pick(3, 4) if False else 3}, coverage=True,
                         timeout=ctx.pick(900, 3000), label="topology arbitrary")
    ctx.check_coverage(r2, ["ConnRequest", "Deliver", "InjectResp", "RoleChange", "Learn", "PeerClose"])
    # 2. behaviours
    wl = ctx.pick(10, 14)
    walks = ctx.behaviours("net", "Gen_Topology", "Gen_Topology.cfg", constants={"MaxOps": wl, "Depth": wl},
                           simulate="num=%d" % ctx.pick(500, 6000), depth=wl + 2, seed=ctx.seed, timeout=1500)
    disc = ctx.behaviours("net", "Gen_Topology", "Gen_Topology.cfg",
                          constants={"MaxOps": wl, "Depth": wl, "OnlyDiscover": "TRUE", "MaxInject": 0},
                          simulate="num=%d" % ctx.pick(700, 6000), depth=wl + 2, seed=ctx.seed, timeout=1500)
    # every discover-driven run of 6 events in which two nodes compete for the single slots of a third
    lim = ctx.behaviours("net", "Gen_Topology", "Gen_TopologyLimits.cfg", timeout=900)
    # directed walks: one node with two candidates for its single parent slot (the second answer finds the slot taken:
    # retry as uncle, or give the peer up) -- discover-only, no closes, depth 10
    up = ctx.behaviours("net", "Gen_Topology", "Gen_TopologyUpstream.cfg", constants={"MaxOps": 10, "Depth": 10},
                        simulate="num=%d" % ctx.pick(300, 3000), depth=12, seed=ctx.seed, timeout=900)
    nretry = sum(1 for b in up if any(str(e.get("v", "")).startswith("retry:") for e in b))
    if nretry < 5:
        from vlib import MachineryError
        raise MachineryError("vacuity: the upstream-slot-taken retry was generated only %d times" % nretry)
    ctx.notes.append("topology: runs in which a response finds the parent/uncle slot taken and retries: %d" % nretry)
    allb = walks + disc + lim + up
    inp = ctx.path("in", "topology.ndjson")
    with open(inp, "w") as fh:
        for b in allb:
            fh.write(json.dumps(b) + "\n")
    recs = ctx.go_replay("topology", "TestReplay", inp, shards=ctx.pick(2, 4), timeout=ctx.pick(600, 1800))
    ctx.absorb(recs)
    ctx.notes.append("topology stage: %d arbitrary walks + %d discover-only walks of depth %d replayed into %d-node "
                     "PeerToPeer meshes" % (len(walks), len(disc), wl, 3))
    return len(allb)


def run(ctx):
    n = stage(ctx)
    return ctx.finish(rule="topology stage alone: %d TLC-generated walks over requests, deliveries, forged responses, "
                           "role changes and closes among three nodes" % n,
                      assumptions=["connections exist between all nodes (dialling and the address books are not modelled)",
                                   "one handler call at a time"])
