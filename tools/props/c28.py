"""C28 Hexary block-hash accumulator is deterministic, provable and rewindable (spec/trie/Hexary.tla)."""
import json
import os


def run(ctx):
    env = {}
    wl = ctx.pick(12, 16)
    if ctx.replay:
        d = json.load(open(ctx.replay))["detail"]
        env["VERIF_FIX_SALT"] = str(d.get("salt", ""))
        allb = [d["behaviour"]]
    else:
        # vacuity guard (small, bounded), then the design checks with arity 2 and 3
        if not os.environ.get("VERIF_SKIP_MC"):  # developer switch used by the mutant self-tests
            r0 = ctx.model_check("trie", "MC_Hexary", "MC_Hexary_cov.cfg", coverage=True, timeout=900)
            ctx.check_coverage(r0, ["Add", "SetLen", "Finalize", "Reopen", "Check", "SyncAll", "HeaderRead"])
            ctx.model_check("trie", "MC_Hexary", "MC_Hexary.cfg", constants={"MaxLen": ctx.pick(12, 18)}, timeout=ctx.pick(900, 3000))
            ctx.model_check("trie", "MC_Hexary", "MC_Hexary_a3.cfg", constants={"MaxLen": ctx.pick(10, 14)}, timeout=ctx.pick(900, 3000))
            ctx.model_check("trie", "MC_Hexary", "MC_Hexary_v2.cfg", constants={"MaxOps": ctx.pick(6, 8)}, timeout=ctx.pick(900, 3000))
            ctx.exhaustive = False  # TLC stage exhaustive; the replayed behaviours are random walks
        # behaviours with the real arity 16: lengths crossing 16 and 256 (thorough: 4096), rewinds around the powers
        allb = ctx.behaviours("trie", "Gen_Hexary", "Gen_Hexary.cfg", constants={"MaxOps": wl, "Depth": wl},
                              simulate="num=%d" % ctx.pick(70, 250), depth=wl + 1, seed=ctx.seed, timeout=ctx.pick(900, 3000),
                              javaopts="-Xss512m")
        # directed: every history of 5 calls over {add 1/15/16/240 hashes, Finalize}: headers taken at lengths 1, 16, 17, 256,
        # 272 ... are retained by the driver and compared again after every later call
        allb += ctx.behaviours("trie", "Gen_Hexary", "Gen_Hexary_dir.cfg", timeout=ctx.pick(900, 3000), javaopts="-Xss512m")
        # directed 2: every history of 5 calls over {add 1-2 hashes of either version, rewind by 1-2, GetMerkleHeader}: header read
        # at n, rewind, a different suffix back to n, header read again
        allb += ctx.behaviours("trie", "Gen_Hexary", "Gen_Hexary_dir2.cfg", timeout=ctx.pick(900, 3000), javaopts="-Xss512m")
        if not ctx.quick():  # long accumulators: crossing 4096 = 16^3 (each TLC step evaluates thousands of adds)
            allb += ctx.behaviours("trie", "Gen_Hexary", "Gen_Hexary.cfg", simulate="num=25", depth=9, seed=ctx.seed + 5,
                                   constants={"MaxOps": 8, "Depth": 8, "MaxLen": 9000, "AddSizes": "{1, 17, 255, 3839, 4096}"},
                                   timeout=1500, javaopts="-Xss512m")
        for b in allb[:3]:
            ctx.sample([{k: s.get(k) for k in ("op", "v", "n", "l", "res", "len")} for s in b])
    inp = ctx.path("in", "behaviours.ndjson")
    with open(inp, "w") as fh:
        for b in allb:
            fh.write(json.dumps(b) + "\n")
    recs = ctx.go_replay("hexary", "TestReplay", inp, timeout=ctx.pick(900, 3000), env=env, shards=ctx.pick(2, 4))
    ctx.absorb(recs)
    mx = max([(r.get("extra") or {}).get("max_len", 0) for r in recs if r.get("summary")] or [0])
    ctx.notes.append("longest accumulator in this run: %d hashes" % mx)
    return ctx.finish(
        rule="a behaviour = one TLC random walk of %d calls (add 1..256 [thorough: ..4096] hashes of one of two versions, "
             "SetLen to a rewind point around the powers of 16 / neighbours of the length / 0, Finalize, reopen, proof "
             "check of a key with tampered variants) on the real accumulator; distinct by its call sequence; non-trivial "
             "if it contains a successful rewind or a proof check" % wl,
        assumptions=["MapDB buckets", "the hash at position p is a function of (p, version); two versions",
                     "the design is model-checked with arity 2 and 3, the conformance runs use the real arity 16",
                     "hashes are collision free (symbolic in the spec)"])
