"""C07 Imported blocks extend their parent with consistent height, link and time (spec/chain/ChainImport.tla)."""
import json
import os


def times(t):
    return "{" + ", ".join(str(i) for i in range(0, t + 1)) + "}"


def tree_stage(ctx):
    """Candidate tree of the block manager (spec/chain/BlockTree.tla): Propose/Import/Finalize/Dispose/Dup/readers/waiters."""
    misuse = "TRUE" if os.environ.get("VERIF_C07_MISUSE") else "FALSE"
    race = "TRUE" if os.environ.get("VERIF_C07_RACE") else "FALSE"   # demonstrates a known crash of the real manager
    if ctx.replay:
        bs = [json.load(open(ctx.replay))["detail"]["behaviour"]]
    else:
        r = ctx.model_check("chain", "MC_BlockTree", "MC_BlockTree.cfg",
                            constants=dict(MaxHandles=ctx.pick(3, 4), MaxOps=ctx.pick(6, 7), Misuse=misuse, Race=race, Quiet="FALSE"),
                            coverage=True, timeout=ctx.pick(600, 1800))
        ctx.check_coverage(r, ["Extend", "ExtendCancelled", "Finalize", "Dispose", "Dup", "CancelLate", "GetLast", "GetByHeight",
                               "GetBlock", "WaitFor"], allow_zero=tuple(([] if misuse == "TRUE" else ["DisposeAgain"]) + ([] if race == "TRUE" else ["ExtendRaced"])))
        d = ctx.pick(2, 3)
        bs = ctx.behaviours("chain", "Gen_BlockTree", "Gen_BlockTree.cfg",
                            constants=dict(MaxHandles=4, MaxOps=d, Depth=d, Misuse=misuse, Race=race, Quiet="FALSE"), timeout=900)
        wl = ctx.pick(10, 16)
        walks = ctx.behaviours("chain", "Gen_BlockTree", "Gen_BlockTree.cfg",
                               constants=dict(MaxHandles=ctx.pick(5, 6), MaxOps=wl, Depth=wl, Misuse=misuse, Race=race, Quiet="FALSE"),
                               simulate="num=%d" % ctx.pick(250, 1500), depth=wl + 2, seed=ctx.seed, timeout=900)
        # walks of tree-changing calls only: they build and prune deeper trees (branches with children are discarded)
        walks += ctx.behaviours("chain", "Gen_BlockTree", "Gen_BlockTree.cfg",
                                constants=dict(MaxHandles=ctx.pick(6, 7), MaxOps=wl, Depth=wl, Misuse=misuse, Race=race, Quiet="TRUE"),
                                simulate="num=%d" % ctx.pick(150, 800), depth=wl + 2, seed=ctx.seed + 7, timeout=900)
        ctx.sample([dict(op=s["op"], res=s.get("res"), p=s.get("p"), v=s.get("v"), h=s.get("h")) for s in walks[0]][:8])
        bs = bs + walks
    inp = ctx.path("in", "tree.ndjson")
    with open(inp, "w") as fh:
        for b in bs:
            fh.write(json.dumps(b) + "\n")
    recs = ctx.go_replay("chainimport", "TestTree", inp, shards=1 if ctx.replay else 4, timeout=1500)
    ctx.absorb(recs)
    return len(bs)


def run(ctx):
    tree = os.environ.get("VERIF_C07_TREE", "")
    if tree == "only" or (ctx.replay and json.load(open(ctx.replay)).get("key", "").startswith("tree:")):
        n = tree_stage(ctx)
        return ctx.finish(rule="%d behaviours of the block manager's candidate tree (BlockTree.tla)" % n,
                          assumptions=["standalone run of the candidate-tree stage"])
    T = 4
    if ctx.replay:
        items = [json.load(open(ctx.replay))["detail"]["behaviour"]]
        counts = (0, 0)
    else:
        # 1. exhaustive: every history of <= 5/6 imports and finalizations, every block (27 structural variants x every
        #    vote multiset of size 0..4 over 4/5 timestamps x every timestamp), 4 validators
        r = ctx.model_check("chain", "MC_ChainImport", "MC_ChainImport.cfg",
                            constants=dict(N=4, Times=times(ctx.pick(3, 4)), MaxVotes=4, MaxGrow=3, MaxOps=ctx.pick(5, 6)),
                            coverage=True, timeout=ctx.pick(600, 1800))
        ctx.check_coverage(r, ["Import", "Finalize"])
        ctx.exhaustive = True
        items = []
        ntab = 0
        # 2. decision table for n = 4 and 1 (quick) / 1..4 (thorough) validators, histories by random walks
        for n in ctx.pick([4, 1], [4, 3, 2, 1]):
            c = dict(N=n, Times=times(T), MaxVotes=n, MaxGrow=3, MaxOps=1, Depth=1, Family='"table"')
            tb = ctx.behaviours("chain", "Gen_ChainImport", "Gen_ChainImport.cfg", constants=c, timeout=900)
            ntab += len(tb)
            items += [dict(n=n, steps=b) for b in tb]
            if n == 4:
                ctx.sample(tb[len(tb) // 3][0])
        wl = ctx.pick(7, 9)
        nw = 0
        for n in ctx.pick([4], [4, 3]):
            c = dict(N=n, Times=times(T), MaxVotes=n, MaxGrow=3, MaxOps=wl, Depth=wl, Family='"walk"')
            wk = ctx.behaviours("chain", "Gen_ChainImport", "Gen_ChainImport.cfg", constants=c,
                                simulate="num=%d" % ctx.pick(150, 1500), depth=wl + 2, seed=ctx.seed, timeout=900)
            nw += len(wk)
            items += [dict(n=n, steps=b) for b in wk]
            ctx.sample([dict(op=s["op"], b=s.get("b"), res=s.get("res"), tip=s["tip"]) for s in wk[0]][:4])
        counts = (ntab, nw)
    inp = ctx.path("in", "cases.ndjson")
    with open(inp, "w") as fh:
        for it in items:
            fh.write(json.dumps(it) + "\n")
    # 3. real block manager: Propose -> mutate/re-encode -> Import -> Finalize
    recs = ctx.go_replay("chainimport", "TestReplay", inp, shards=1 if ctx.replay else 4, timeout=1500)
    ctx.absorb(recs)
    # 4. the candidate tree of the same block manager (BlockTree.tla); VERIF_C07_TREE=off skips it, =only runs it alone
    ntree = 0
    if tree != "off" and not ctx.replay:
        ntree = tree_stage(ctx)
    return ctx.finish(
        rule="a case = one history on a real block manager: %d single imports (every tip kind x every vote-timestamp multiset x "
             "every block timestamp without structural deviation, and every combination of height/parent/version deviations "
             "with unanimous votes) + %d random histories of imports and finalizations from genesis; distinct by "
             "(validators, step sequence); verdict predicted by TLC; plus %d behaviours of the candidate tree (BlockTree.tla: "
             "Propose/Import/Finalize/Dispose/Dup/Cancel/readers/waiters on a tree of depth <= 2 above the last finalized block, "
             "branching 2; all of depth 2/3 + random walks), after each call the manager's node map and reference counts are "
             "compared with the prediction" % (counts + (ntree,)),
        assumptions=["abstract time unit = 1 microsecond (the unit of block timestamps); vote lists contain valid precommits of distinct validators only (forged "
                     "lists are C05)",
                     "test service manager of goloop's test package (no transactions in the blocks); block version 2 only; "
                     "deviating versions are 1 and 3",
                     "ChainImport.tla imports children of the last finalized block only; BlockTree.tla covers candidates on "
                     "candidates (the manager supports two levels: voters are taken from the finalized block below the parent)",
                     "candidate handles are disposed at most once (double Dispose is caller misuse; explored only with "
                     "VERIF_C07_MISUSE=1); requests complete before Cancel can win in this harness, so Cancel=true is modelled "
                     "and model-checked but not observed on the real manager",
                     "a rejected acceptable block is reported as divergence, not violation"])
