"""C33 Flooded messages are delivered once and only from authorized origins (spec/net/Flood.tla)."""
import json


def run(ctx):
    if ctx.replay:
        return rerun(ctx)
    # 1a. decision table: every (role, connection type, src, dest, ttl, protocol, via) combination, two calls deep
    #     (the cost is the step property, evaluated for every packet on every transition)
    r = ctx.model_check("net", "MC_Flood", "MC_Flood.cfg",
                        constants={"MaxOps": 2, "Bodies": ctx.pick("{1}", "{1, 2}")},
                        coverage=True, timeout=ctx.pick(600, 2400), label="table")
    classes = ['"deliver"', '"drop:duplicate"', '"drop:onehop-not-source"', '"drop:origin-not-root"', '"drop:self"',
               '"drop:conntype"', '"close:proto"']
    ctx.check_coverage(r, classes)
    # 1b. relay sequences through three peers against the bucketed duplicate filter
    #     (quick: flooded packets only; thorough: interleaved with one-hop packets, one call deeper)
    r2 = ctx.model_check("net", "MC_Flood", "MC_FloodRelay.cfg",
                         constants={"MaxOps": ctx.pick(5, 6), "Ttls": ctx.pick("{0}", "{0, 1}")}, coverage=True,
                         timeout=ctx.pick(600, 2400), label="relay 2x2")
    ctx.check_coverage(r2, classes[:2], allow_zero=("origin-not-root", "drop:self", "drop:conntype", "close:proto", "onehop"))
    if not ctx.quick():
        r3 = ctx.model_check("net", "MC_Flood", "MC_FloodRelay.cfg",
                             constants={"MaxOps": 6, "NB": 3, "LB": 1, "Ttls": "{0}"}, coverage=True, timeout=2400, label="relay 3x1")
        ctx.check_coverage(r3, classes[:2], allow_zero=("origin-not-root", "drop:self", "drop:conntype", "close:proto", "onehop"))
    # vacuity probe: a second delivery after the window does occur in the relay model
    rv = ctx.tlc("net", "MC_Flood", "MC_FloodRelayVac.cfg", constants={"MaxOps": 5}, expect_violation=True, count=False,
                 timeout=600, label="vacuity probe")
    if rv.violation is None:
        raise ctx_machinery("vacuity: no redelivery after the window in the relay model")
    ctx.exhaustive = True
    # 2. behaviours: the complete one-call table (all configurations) + random relay walks
    table = ctx.behaviours("net", "Gen_Flood", "Gen_FloodTable.cfg", timeout=900)
    wl = ctx.pick(8, 12)
    walks = ctx.behaviours("net", "Gen_Flood", "Gen_Flood.cfg", constants={"MaxOps": wl, "Depth": wl},
                           simulate="num=%d" % ctx.pick(1500, 10000), depth=wl + 2, seed=ctx.seed, timeout=1500)
    relay = ctx.behaviours("net", "Gen_Flood", "Gen_FloodRelay.cfg", constants={"MaxOps": wl, "Depth": wl},
                           simulate="num=%d" % ctx.pick(1500, 10000), depth=wl + 2, seed=ctx.seed, timeout=1500)
    allb = table + walks + relay
    inp = ctx.path("in", "behaviours.ndjson")
    with open(inp, "w") as fh:
        for b in allb:
            fh.write(json.dumps(b) + "\n")
    # 3. replay into PeerToPeer.onPacket with a real PacketPool of the same geometry
    recs = ctx.go_replay("flood", "TestReplay", inp, shards=ctx.pick(2, 4), timeout=ctx.pick(600, 1800))
    ctx.absorb(recs)
    # 4. optional: the connection-management model (spec/net/Topology.tla) -- about 50 s more in the quick tier,
    #    therefore part of the thorough tier and, in the quick tier, behind a switch: VERIF_C33_TOPOLOGY=1 (or on its own: tools/check.py C33_TOPOLOGY quick)
    import os
    if os.environ.get("VERIF_C33_TOPOLOGY") == "1" or (not ctx.quick() and os.environ.get("VERIF_C33_TOPOLOGY") != "0"):
        from props import c33_topology
        c33_topology.stage(ctx)
    for b in (relay[:2] + table[-1:]):
        ctx.sample([{k: s[k] for k in s if k in ("op", "role", "ctype", "via", "src", "dest", "ttl", "body", "proto", "res")} for s in b])
    return ctx.finish(
        rule="a behaviour = a peer configuration (roles, connection types) and a TLC-generated sequence of packets "
             "(src, dest, ttl, body, protocol) each arriving through one of three peers: the complete one-call table "
             "(%d cases) + %d random walks over all combinations + %d relay walks over packets that pass the origin "
             "rules (pool 2x2), depth %d; distinct by configuration and packet sequence; non-trivial if something is "
             "delivered or refused as duplicate" % (len(table), len(walks), len(relay), wl),
        assumptions=["the packet hash is collision free (it is the dedup key)",
                     "one onPacket call at a time (the pool has its own mutex; the receive routines of different "
                     "peers are serialized by the driver)",
                     "'at most once' holds within the pool window: an id is forgotten after (NB-1)*LB..NB*LB newer "
                     "ids by construction (defaults 20x500)",
                     "a relayed broadcast (via # src) cannot be attributed and is accepted from any connected peer"])


def ctx_machinery(msg):
    from vlib import MachineryError
    return MachineryError(msg)


def rerun(ctx):
    """Re-execute exactly the behaviour (and concretization) stored in a replay file."""
    d = json.load(open(ctx.replay))["detail"]
    inp = ctx.path("in", "behaviours.ndjson")
    with open(inp, "w") as fh:
        fh.write(json.dumps({"behaviour": d["behaviour"], "sub": d["sub"]}) + "\n")
    ctx.absorb(ctx.go_replay("flood", "TestReplay", inp))
    return ctx.finish(rule="re-execution of one stored behaviour", assumptions=["replay of %s" % ctx.replay])
