"""Shared stages of C17/C18 (spec/trie/MPT.tla, harness/mpt)."""
import json
import os


def model_check(ctx):
    if os.environ.get("VERIF_SKIP_MC"):  # developer switch used by the mutant self-tests
        return
    # vacuity guard on a small bounded configuration (coverage accounting is expensive on the recursive operators)
    r0 = ctx.model_check("trie", "MC_MPT", "MC_MPT_cov.cfg", coverage=True, timeout=600)
    ctx.check_coverage(r0, ["Set", "Del", "Snap", "Reset", "Flush", "Reload", "ClearCache", "Check"], allow_zero=("Look", "SnapLazy"))
    # exhaustive: every map over the key universe, any set/delete order (no op bound): one state per map
    ctx.model_check("trie", "MC_MPT", ctx.pick("MC_MPT.cfg", "MC_MPT_thorough.cfg"), timeout=ctx.pick(600, 3000))
    # with snapshot slots: set/delete/snapshot/reset/flush/reload/clear-cache in any order
    ctx.model_check("trie", "MC_MPT", ctx.pick("MC_MPT_snap.cfg", "MC_MPT_snap5.cfg"), timeout=ctx.pick(600, 3000))
    if not ctx.quick():
        ctx.model_check("trie", "MC_MPT", "MC_MPT_snap2.cfg", timeout=3000)
    # copy-on-write refinement (MPTHeap.tla): node heap with dirty/frozen flags, in-place update vs copy as in the code;
    # the heap trie equals the value-level trie, snapshots are isolated, frozen nodes never change
    ctx.model_check("trie", "MC_MPTHeap", "MC_MPTHeap.cfg", timeout=ctx.pick(900, 3000),
                    constants={"MaxOps": ctx.pick("4", "6")})
    # ... with the persistence states: flush (flushed nodes + database), ClearCache (flushed nodes become hash references,
    # pointers of frozen nodes rewired), reload (root hash reference), realization from the database on set/delete/get:
    # no sequence of flush/clear/reload changes Get, the structure or the root
    ctx.model_check("trie", "MC_MPTHeap", "MC_MPTHeap_cache.cfg", timeout=ctx.pick(900, 3000),
                    constants={"MaxOps": ctx.pick("6", "8")})
    # three-symbol alphabet, three value sizes (29 bytes straddles the embed/hash limit), bounded depth
    ctx.model_check("trie", "MC_MPT", "MC_MPT_w3.cfg", timeout=ctx.pick(600, 3000),
                    constants={"MaxOps": ctx.pick("3", "4")})


def behaviours(ctx):
    if ctx.replay:
        d = json.load(open(ctx.replay))["detail"]
        b = d["behaviour"]
        b["fix_nibbles"], b["fix_salt"] = d.get("nibbles", ""), d.get("salt")
        return [b], 0, 0
    wl = ctx.pick(30, 45)
    n2 = ctx.pick(110, 1200)
    n3 = ctx.pick(50, 500)
    walks = ctx.behaviours("trie", "Gen_MPT", "Gen_MPT.cfg", constants={"MaxOps": wl, "Depth": wl},
                           simulate="num=%d" % n2, depth=wl + 1, seed=ctx.seed, timeout=ctx.pick(600, 3000))
    walks3 = ctx.behaviours("trie", "Gen_MPT", "Gen_MPT_w3.cfg", constants={"MaxOps": wl, "Depth": wl},
                            simulate="num=%d" % n3, depth=wl + 1, seed=ctx.seed + 1000, timeout=ctx.pick(600, 3000))
    # small universe, one slot: flush / clear-cache / reload are frequent, so mutations and reads often meet hash references
    walks3 += ctx.behaviours("trie", "Gen_MPT", "Gen_MPT_cache.cfg", constants={"MaxOps": wl, "Depth": wl},
                             simulate="num=%d" % ctx.pick(120, 800), depth=wl + 1, seed=ctx.seed + 2000, timeout=ctx.pick(600, 3000))
    # directed: EVERY history of 4 calls (set/delete incl. the ones that change nothing, snapshot, flush, reload, clear-cache)
    # on a trie that starts populated: mutations that meet hash references and end without a change
    walks3 += ctx.behaviours("trie", "Gen_MPT", "Gen_MPT_dir.cfg", timeout=ctx.pick(900, 3000))
    # directed 2: EVERY history of 3 calls over set/delete, GetSnapshot WITHOUT hashing it, and a later look at that snapshot,
    # on a trie with a key that is a proper prefix of others (value in a branch node)
    walks3 += ctx.behaviours("trie", "Gen_MPT", "Gen_MPT_dir2.cfg", timeout=ctx.pick(900, 3000))
    bfs = []
    if not ctx.quick():
        bfs = ctx.behaviours("trie", "Gen_MPT", "Gen_MPT.cfg", constants={"MaxOps": 2, "Depth": 2}, timeout=1200)
    return bfs + walks + walks3, len(bfs), wl


def replay(ctx, allb, aspect):
    inp = ctx.path("in", "behaviours.ndjson")
    with open(inp, "w") as fh:
        for b in allb:
            fh.write(json.dumps(b) + "\n")
    recs = ctx.go_replay("mpt", "TestReplay", inp, env={"VERIF_ASPECT": aspect}, shards=ctx.pick(2, 4),
                         timeout=ctx.pick(600, 3000))
    ctx.absorb(recs)
    extra = [r.get("extra") for r in recs if r.get("summary")]
    return extra


def sample(ctx, allb):
    for b in allb[:2] + allb[-1:]:
        ctx.sample([{k: s[k] for k in ("op", "k", "v", "s", "res", "m")} for s in b["steps"][:12]])
