"""C14 World state snapshots are isolated and the state hash is canonical (spec/state/WorldState.tla)."""
import json
import os


def run(ctx):
    env = {}
    wl = ctx.pick(30, 45)
    if ctx.replay:
        d = json.load(open(ctx.replay))["detail"]
        env["VERIF_FIX_SALT"] = str(d.get("salt", ""))
        allb = [d["behaviour"]]
    else:
        if not os.environ.get("VERIF_SKIP_MC"):  # developer switch used by the mutant self-tests
            r0 = ctx.model_check("state", "MC_WorldState", "MC_WorldState_cov.cfg", coverage=True, timeout=900)
            ctx.check_coverage(r0, ["SetBalance", "SetValue", "DeleteValue", "InitContract", "SetBlock", "Deploy", "Accept", "AddDeposit", "Withdraw", "WithdrawAll", "PaySteps", "Touch", "GetSnapshot", "Reset",
                                    "ClearCache", "Flush", "Reload"])
            # the full alphabet (block flag, contract deployment and acceptance) to bounded depth
            ctx.model_check("state", "MC_WorldState", "MC_WorldState_quick.cfg", constants={"MaxOps": ctx.pick(5, 7)},
                            timeout=ctx.pick(900, 3000))
            # every history (no bound) over 2 accounts x 1 storage key x balance 0..1 x contract flag x 1 snapshot slot
            ctx.model_check("state", "MC_WorldState", "MC_WorldState.cfg", timeout=ctx.pick(900, 3000))
            ctx.exhaustive = not ctx.quick()  # thorough also replays the complete BFS set of depth 2
        allb = ctx.behaviours("state", "Gen_WorldState", "Gen_WorldState.cfg", constants={"MaxOps": wl, "Depth": wl},
                              simulate="num=%d" % ctx.pick(600, 1500), depth=wl + 1, seed=ctx.seed, timeout=ctx.pick(900, 3000))
        # directed: EVERY history of 4 calls on one account with one storage key and one snapshot slot (contains
        # snapshot-before-the-first-storage-write / write / Reset / read for an absent and for a balance-only account)
        allb += ctx.behaviours("state", "Gen_WorldState", "Gen_WorldState_dir.cfg", timeout=1800)
        # directed: EVERY history of 6 calls over {SetBalance 0/1, GetSnapshot into slot 2, Reset to slot 1 (the empty state)
        # or slot 2} on one world state object: several resets between snapshots taken at different points, then emptying
        allb += ctx.behaviours("state", "Gen_WorldState", "Gen_WorldState_dir2.cfg", timeout=1800)
        # directed: EVERY history of 5 calls over {InitContractAccount, AddDeposit, WithdrawDeposit, PaySteps (fee sharing),
        # GetSnapshot, Reset}: the deposit object is updated in place after a snapshot was taken
        allb += ctx.behaviours("state", "Gen_WorldState", "Gen_WorldState_dir3.cfg", timeout=1800)
        if not ctx.quick():
            allb += ctx.behaviours("state", "Gen_WorldState", "Gen_WorldState.cfg", constants={"MaxOps": 2, "Depth": 2,
                                   "Accts": '{"a", "b"}', "MaxSnaps": 1, "SnapSlots": "{1}"}, timeout=1800)
        for b in allb[:3]:
            ctx.sample([{k: s.get(k) for k in ("op", "a", "k", "v", "s", "res")} for s in b[:16]])
    inp = ctx.path("in", "behaviours.ndjson")
    with open(inp, "w") as fh:
        for b in allb:
            fh.write(json.dumps(b) + "\n")
    recs = ctx.go_replay("worldstate", "TestReplay", inp, timeout=ctx.pick(900, 3000), env=env, shards=ctx.pick(2, 4))
    ctx.absorb(recs)
    return ctx.finish(
        rule="a behaviour = one TLC random walk of %d calls (SetBalance/SetValue/DeleteValue/InitContractAccount/SetBlock/DeployContract/AcceptContract/"
             "GetAccountState on 3 accounts x 2 storage keys, GetSnapshot into 2 slots, Reset, ClearCache, Flush, reload from "
             "the state hash) on the real world state; after every call all accounts are read back through the state "
             "and through every snapshot, hashes of equal contents are compared; distinct by call sequence; "
             "non-trivial if it contains a reset, reload or clear-cache" % wl,
        assumptions=["MapDB backend", "accounts without deposits or API info; contract accounts via InitContractAccount with pending/current contract code (2 code ids) and the blocked state bit",
                     "no validator/extension/BTP state (nil)", "sequential use of one world state", "IsEmpty of a mutable account object is compared in one direction only (an object that once had storage keeps its store object)"])
