"""C01 Consensus agreement (spec/consensus/CsAbstract.tla, CsContract.tla, CsEnv.tla)."""
import json
import vlib
from props import cscommon


def run(ctx):
    # 1. design-level safety: exhaustive TLC run of the phase-synchronous evidence abstraction
    consts = dict(MaxRound=ctx.pick(2, 3), MaxCrash=ctx.pick(1, 2), Values=ctx.pick('{"A", "B"}', '{"A", "B"}'))
    r = ctx.model_check("consensus", "MC_CsAbstract", "MC_CsAbstract.cfg", constants=consts, coverage=True,
                        timeout=ctx.pick(600, 3000))
    ctx.check_coverage(r)
    ctx.exhaustive = True
    if not ctx.quick():
        r7 = ctx.model_check("consensus", "MC_CsAbstract7", "MC_CsAbstract7.cfg", timeout=3000)
        ctx.notes.append("CsAbstract with 7 validators (2 Byzantine), rounds 0..2, 1 crash-restart: %d distinct states, all invariants hold" % r7.distinct)
        rs = ctx.tlc("consensus", "MC_CsAbstract", "MC_CsAbstract.cfg", constants=dict(MaxRound=3, MaxCrash=1, FixWal="FALSE"),
                     expect_violation=True, count=False, label="sensitivity: lock round not persisted on re-lock", timeout=1800)
        if rs.violation != "Agreement":
            raise vlib.MachineryError("sensitivity check failed: without persisting the lock round TLC must find a disagreement")
        ctx.notes.append("sensitivity: with the lock WAL written only on a new lock (FixWal=FALSE) TLC finds an Agreement violation")
        # the composition of contract-abiding validators, Byzantine ones and an asynchronous network: simulated
        rc = ctx.tlc("consensus", "CsContractSys", "CsContractSys.cfg", constants=dict(MaxRound=2, MaxMsgs=14),
                     simulate="num=%d" % 20000, depth=60, seed=ctx.seed, count=False, timeout=1800,
                     label="CsContractSys simulation (Agreement)")
        ctx.notes.append("CsContractSys: %d states visited by simulation, Agreement held" % rc.generated)
    # 2./3./4. schedules -> real engines -> CsContract
    if ctx.replay:
        beh = [json.load(open(ctx.replay))["detail"]["behaviour"]]
    else:
        beh = (cscommon.directed(ctx)
               + (cscommon.crash_sweep(ctx, bases=("sweep-relock-other", "sweep-commit-before-proposal"), ks=(0, 3), modes=("synced",))
                  if ctx.quick() else cscommon.crash_sweep(ctx, ks=(0, 1, 2, 3, 4, 6), modes=("synced", "torn")))
               + cscommon.env_behaviours(ctx, ctx.pick(40, 400), max_crash=2, max_ops=ctx.pick(14, 18)))
        if not ctx.quick():
            # the disagreement behaviours that TLC finds in the sensitivity configuration of CsAbstract (lock round not
            # persisted on re-lock), compiled into schedules: the repaired engine must refuse to follow them
            beh += cscommon.abstract_schedules(ctx, 60, cex=True, seed_off=7)
    recs = cscommon.run_nodes(ctx, beh, cscommon.C01_KINDS, shards=ctx.pick(14, 16))
    ctx.absorb(recs)
    # several real engines under one schedule: Agreement over the real Finalize calls + CsContract per engine
    if not ctx.replay:
        crecs = cscommon.run_nodes(ctx, cscommon.cluster_schedules(ctx), cscommon.C01_KINDS, shards=1, test="TestCluster")
        ctx.absorb(crecs)
        for rr in crecs:
            if rr.get("status") == "skip":
                ctx.notes.append("cluster schedule not realizable as compiled: %s" % rr.get("what"))
        # behaviours of the design model played by two or three REAL engines that exchange their real messages (the
        # other validators fabricated): Agreement over the real Finalize calls + CsContract per engine
        arecs = cscommon.run_nodes(ctx, cscommon.cluster_abstract_cases(ctx, ctx.pick(4, 60), seed_off=11), cscommon.C01_KINDS,
                                   shards=ctx.pick(4, 12), test="TestClusterAbstract")
        ctx.absorb(arecs)
    for rr in recs[:3]:
        if rr.get("sig"):
            ctx.sample(dict(case=rr["case"], signed=rr["sig"]))
    return ctx.finish(
        rule="a case = one schedule (TLC random walk of CsEnv: proposals, vote sets, timer waits, graceful restarts and power "
             "losses after k effects with WAL tails lost/torn/kept; plus directed schedules compiled from TLC counterexamples) "
             "executed on one real engine among 4 validators at height 1; distinct by validator index and the sequence of "
             "votes/proposals/restarts/finalize the engine produced; non-trivial if it signed a non-nil vote, restarted or finalized",
        assumptions=["other validators are fabricated from their wallets (arbitrary behaviour incl. one equivocator)",
                     "height 1, 4 validators, rounds 0..3; real timers (propose 0.6 s, others 1 s)",
                     "CsContract is the per-validator obligation that implies Agreement for < n/3 Byzantine validators; "
                     "CsAbstract is the exhaustively checked design abstraction"])
