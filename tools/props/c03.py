"""C03 Write-ahead log recovers exactly the durable prefix after any crash (spec/consensus/Wal.tla)."""
import json


def interesting(b):
    ops = [s["op"] for s in b]
    return "crash" in ops and ops[-1] == "recover"


def run(ctx):
    consts = dict(MaxRecs=ctx.pick(3, 4), MaxSegs=ctx.pick(2, 3), MaxCrash=ctx.pick(2, 3), MaxOps=ctx.pick(9, 11),
                  Payloads=ctx.pick("{1, 2}", "{0, 1, 2}"))
    r = ctx.model_check("consensus", "MC_Wal", "MC_Wal.cfg", constants=consts, coverage=True,
                        timeout=ctx.pick(300, 1800))
    ctx.check_coverage(r, allow_zero=("Housekeep",))   # FileLimit = 0 in this configuration: housekeeping off
    ctx.exhaustive = True
    # housekeeping (rotation + trimming by the ticker goroutine): both sync policies
    for eager in ctx.pick(("FALSE",), ("FALSE", "TRUE")):
        rh = ctx.model_check("consensus", "MC_Wal", "MC_WalHk.cfg", constants=dict(EagerSync=eager, MaxOps=ctx.pick(7, 9)),
                             coverage=(eager == "FALSE"), timeout=ctx.pick(600, 2400))
        if eager == "FALSE":
            ctx.check_coverage(rh)
    # the two deviations of wal.go written into the model (Impl="code") must be caught by the same properties:
    # guards against a vacuous specification
    rc = ctx.tlc("consensus", "MC_Wal", "MC_Wal.cfg", constants=dict(consts, Impl='"code"', MaxOps=8, MaxRecs=3),
                 expect_violation=True, count=False, label="sensitivity: Impl=code must violate", timeout=600)
    if not rc.violation:
        raise Exception("sensitivity check failed: the model with the known deviations satisfies all properties")
    ctx.notes.append("sensitivity: with the deviations of wal.go in the model TLC reports %s violated" % rc.violation)
    if ctx.replay:
        beh = [json.load(open(ctx.replay))["detail"]["behaviour"]]
        walks = []
    else:
        depth = ctx.pick(6, 8)
        gconst = dict(MaxOps=depth, Depth=depth, Payloads=ctx.pick("{1, 2}", "{1, 2}"))
        beh = [b for b in ctx.behaviours("consensus", "Gen_Wal", "Gen_Wal.cfg", constants=gconst, timeout=900)
               if interesting(b)]
        wl = ctx.pick(14, 18)
        walks = ctx.behaviours("consensus", "Gen_Wal", "Gen_Wal.cfg",
                               constants=dict(MaxOps=wl, Depth=wl, MaxRecs=8, MaxSegs=3, MaxCrash=4,
                                              Payloads="{0, 1, 2}"),
                               simulate="num=%d" % ctx.pick(4000, 40000), depth=wl + 1, seed=ctx.seed, timeout=900)
        walks = [b for b in walks if "crash" in [s["op"] for s in b]]
    hk = []
    if not ctx.replay:
        # housekeeping behaviours: BFS histories that contain a pass which rotates or trims, plus walks
        for eager in ("FALSE", "TRUE"):
            d = ctx.pick(5, 7)
            bs = ctx.behaviours("consensus", "Gen_Wal", "Gen_WalHk.cfg", constants=dict(EagerSync=eager, MaxOps=d, Depth=d),
                                timeout=ctx.pick(600, 2400))
            hk += [b for b in bs if any(s["op"] == "housekeep" and (s["rotate"] or s["synced"] or s["head"] > 1) for s in b)]
            wl = ctx.pick(12, 16)
            ws = ctx.behaviours("consensus", "Gen_Wal", "Gen_WalHk.cfg",
                                constants=dict(EagerSync=eager, MaxOps=wl, Depth=wl, MaxRecs=8, MaxSegs=5, MaxCrash=2),
                                simulate="num=%d" % ctx.pick(3000, 15000), depth=wl + 1, seed=ctx.seed + 7, timeout=900)
            hk += [b for b in ws if any(s["op"] == "housekeep" and s["head"] > 1 for s in b)]
        if not any(s["op"] == "housekeep" and s["head"] > 1 and any(t["op"] == "recover" for t in b[i:])
                   for b in hk for i, s in enumerate(b)):
            raise Exception("vacuity: no generated behaviour trims the head and recovers afterwards")
        ctx.cov["housekeeping_behaviours"] = len(hk)
        ctx.cov["housekeeping_trims"] = sum(1 for b in hk if any(s["op"] == "housekeep" and s["head"] > 1 for s in b))
    allb = beh + walks + hk
    ctx.log("%d BFS behaviours with crash+recover, %d walks with a crash, %d housekeeping behaviours" % (len(beh), len(walks), len(hk)))
    inp = ctx.path("in", "behaviours.ndjson")
    with open(inp, "w") as fh:
        for b in allb:
            fh.write(json.dumps(b) + "\n")
    recs = ctx.go_replay("wal", "TestReplay", inp, shards=ctx.pick(8, 16), timeout=ctx.pick(600, 3000), ramdisk=True)
    ctx.absorb(recs)
    for b in (beh[:1] + walks[:2]):
        ctx.sample(b)
    return ctx.finish(
        rule="a case = one TLC-generated history of WriteBytes/Sync/Shift/Housekeep/Close/Crash(cut)/Recover on real WAL files "
             "(every history of the BFS depth that contains a crash and ends in a recovery + seeded random walks; the thorough "
             "tier adds every byte offset inside a torn header and boundary offsets inside a torn payload); distinct by "
             "op sequence incl. payload classes and cut classes (+ byte variant); non-trivial if it contains a crash",
        assumptions=["crash model of the property: the tail segment keeps its synced bytes plus an arbitrary prefix of the "
                     "unsynced bytes; earlier segments are complete (Shift syncs before rotating)",
                     "recovery = the caller protocol of consensus.applyRoundWAL (read to error, CloseAndRepair unless clean EOF, reopen for append)",
                     "the housekeeping goroutine's ticker never fires; its passes are scheduled by the specification "
                     "(action Housekeep -> consensus.VerifWALHousekeep, hook) with the spec's limits in bytes; housekeeping "
                     "behaviours use records of exactly 4 bytes per cell, smaller than the writer's buffer"])
