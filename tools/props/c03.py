"""C03 Write-ahead log recovers exactly the durable prefix after any crash (spec/consensus/Wal.tla)."""
import json


def interesting(b):
    ops = [s["op"] for s in b]
    return "crash" in ops and ops[-1] == "recover"


def run(ctx):
    consts = dict(MaxRecs=ctx.pick(3, 4), MaxSegs=ctx.pick(2, 3), MaxCrash=ctx.pick(2, 3), MaxOps=ctx.pick(9, 11),
                  Payloads=ctx.pick("{1, 2}", "{0, 1, 2}"))
    r = ctx.model_check("consensus", "MC_Wal", "MC_Wal.cfg", constants=consts, coverage=True,
                        timeout=ctx.pick(300, 1800))
    ctx.check_coverage(r)
    ctx.exhaustive = True
    # the two deviations of wal.go written into the model (Impl="code") must be caught by the same properties:
    # guards against a vacuous specification
    rc = ctx.tlc("consensus", "MC_Wal", "MC_Wal.cfg", constants=dict(consts, Impl='"code"', MaxOps=8, MaxRecs=3),
                 expect_violation=True, count=False, label="sensitivity: Impl=code must violate", timeout=600)
    if not rc.violation:
        raise Exception("sensitivity check failed: the model with the known deviations satisfies all properties")
    ctx.notes.append("sensitivity: with the deviations of wal.go in the model TLC reports %s violated" % rc.violation)
    if ctx.replay:
        beh = [json.load(open(ctx.replay))["detail"]["behaviour"]]
        walks = []
    else:
        depth = ctx.pick(6, 8)
        gconst = dict(MaxOps=depth, Depth=depth, Payloads=ctx.pick("{1, 2}", "{1, 2}"))
        beh = [b for b in ctx.behaviours("consensus", "Gen_Wal", "Gen_Wal.cfg", constants=gconst, timeout=900)
               if interesting(b)]
        wl = ctx.pick(14, 18)
        walks = ctx.behaviours("consensus", "Gen_Wal", "Gen_Wal.cfg",
                               constants=dict(MaxOps=wl, Depth=wl, MaxRecs=8, MaxSegs=3, MaxCrash=4,
                                              Payloads="{0, 1, 2}"),
                               simulate="num=%d" % ctx.pick(4000, 40000), depth=wl + 1, seed=ctx.seed, timeout=900)
        walks = [b for b in walks if "crash" in [s["op"] for s in b]]
    allb = beh + walks
    ctx.log("%d BFS behaviours with crash+recover, %d walks with a crash" % (len(beh), len(walks)))
    inp = ctx.path("in", "behaviours.ndjson")
    with open(inp, "w") as fh:
        for b in allb:
            fh.write(json.dumps(b) + "\n")
    recs = ctx.go_replay("wal", "TestReplay", inp, shards=ctx.pick(8, 16), timeout=ctx.pick(600, 3000), ramdisk=True)
    ctx.absorb(recs)
    for b in (beh[:1] + walks[:2]):
        ctx.sample(b)
    return ctx.finish(
        rule="a case = one TLC-generated history of WriteBytes/Sync/Shift/Close/Crash(cut)/Recover on real WAL files "
             "(every history of the BFS depth that contains a crash and ends in a recovery + seeded random walks; the thorough "
             "tier adds every byte offset inside a torn header and boundary offsets inside a torn payload); distinct by "
             "op sequence incl. payload classes and cut classes (+ byte variant); non-trivial if it contains a crash",
        assumptions=["crash model of the property: the tail segment keeps its synced bytes plus an arbitrary prefix of the "
                     "unsynced bytes; earlier segments are complete (Shift syncs before rotating)",
                     "recovery = the caller protocol of consensus.applyRoundWAL (read to error, CloseAndRepair unless clean EOF, reopen for append)",
                     "housekeeping goroutine disabled by long intervals (rotation is driven explicitly through Shift)"])
