"""C30 P2P packet framing round-trips and detects corruption (spec/net/PacketStream.tla)."""
import json


def run(ctx):
    if ctx.replay:
        return rerun(ctx)
    # 1. exhaustive model check: every sequence of <=2 packets, every chunking, every single-cell alteration
    elens = ctx.pick("{0, 2}", "{0, 1, 3}")
    r = ctx.model_check("net", "MC_PacketStream", "MC_PacketStream.cfg", constants={"ELens": elens},
                        coverage=True, timeout=ctx.pick(600, 2400))
    ctx.check_coverage(r, ["Write", "Chunk", "Corrupt", "Close", "Eof"])
    ctx.exhaustive = True
    # 2. behaviours: every complete run of one packet with <= d events (BFS) + random walks with two packets
    d = ctx.pick(5, 6)
    bs = ctx.behaviours("net", "Gen_PacketStream", "Gen_PacketStream.cfg",
                        constants={"MaxPkts": 1, "Depth": d, "ELens": "{0, 2}"}, timeout=900)
    walks = ctx.behaviours("net", "Gen_PacketStream", "Gen_PacketStream.cfg",
                           constants={"MaxPkts": ctx.pick(2, 3), "Depth": 60},
                           simulate="num=%d" % ctx.pick(1500, 12000), depth=61, seed=ctx.seed, timeout=1500)
    # every complete run of one small packet with <= 6 events: includes all (cell, footer hash := 0) double alterations
    bs2 = ctx.behaviours("net", "Gen_PacketStream", "Gen_PacketStream.cfg",
                         constants={"MaxPkts": 1, "Depth": 6, "ELens": "{0}", "Lens": "{0, 1}", "Hdrs": "{1}"}, timeout=900)
    bs = bs + bs2
    allb = bs + walks
    # vacuity guard: the double alteration "a header/payload cell AND the footer hash blanked to zero" is generated
    def blanked(b):
        c = [e for e in b if e["op"] == "corrupt"]
        return len(c) == 2 and c[0]["kind"] in ("hv", "pl", "pay") and c[1]["kind"] == "hash" and c[1]["v"] == 0
    nblank = sum(1 for b in allb if blanked(b))
    if nblank < 20:
        from vlib import MachineryError
        raise MachineryError("vacuity: only %d runs alter a header/payload cell and blank the footer hash" % nblank)
    ctx.notes.append("runs with an altered header/payload cell and a zeroed footer hash: %d" % nblank)
    inp = ctx.path("in", "behaviours.ndjson")
    with open(inp, "w") as fh:
        for b in allb:
            fh.write(json.dumps(b) + "\n")
    # 3. replay into PacketWriter.WritePacket / PacketReader.ReadPacket over a chunked, alterable stream
    recs = ctx.go_replay("packet", "TestReplay", inp, shards=ctx.pick(2, 4), timeout=ctx.pick(600, 1800))
    ctx.absorb(recs)
    for b in (walks[:2] + bs[-1:]):
        ctx.sample([{k: s[k] for k in ("op", "hv", "pl", "el", "at", "kind", "v", "n", "nout", "dead")} for s in b])
    return ctx.finish(
        rule="a behaviour = one TLC-generated run (writes of packets, chunk deliveries, one in-transit "
             "alteration, optionally a second one of the same packet's footer hash (blanked to zero), close, eof): all complete runs of one packet with <=%d events by BFS + %d random walks; "
             "distinct by its event sequence; non-trivial if at least one chunk reaches the reader" % (d, len(walks)),
        assumptions=["FNV-64a is treated as an injective symbolic hash (a single altered byte of equal-length input "
                     "always changes FNV-1a; length changes collide with probability 2^-64)",
                     "payload/ext cells stand for blocks of 1..349525 / 1..341 bytes chosen per behaviour",
                     "the ext part and the extend-info are outside the hash by design (relays append to ext), "
                     "so their alteration is modelled but not required to be rejected",
                     "decoding of arbitrary unstructured garbage is not enumerated (only single alterations of "
                     "well-formed streams)"])


def rerun(ctx):
    """Re-execute exactly the behaviour (and concretization) stored in a replay file."""
    d = json.load(open(ctx.replay))["detail"]
    inp = ctx.path("in", "behaviours.ndjson")
    with open(inp, "w") as fh:
        fh.write(json.dumps({"behaviour": d["behaviour"], "sub": d["sub"]}) + "\n")
    ctx.absorb(ctx.go_replay("packet", "TestReplay", inp))
    return ctx.finish(rule="re-execution of one stored behaviour", assumptions=["replay of %s" % ctx.replay])
