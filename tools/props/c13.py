"""C13 Only the sender's key can authorize a transaction (spec/data/TxAuth.tla)."""
import json

FULL = {"DTypes": '{"none", "message", "call", "deploy", "deposit_add", "deposit_withdraw", "patch", "call_nodata", "call_nomethod", "deploy_nodata", "deploy_value", "patch_nodata", "patch_badtype", "deposit_nodata", "neg_value", "neg_step"}', "TxKinds": '{"v3", "v2"}', "VForms": '{"ok", "flip", "hi", "comp", "bad"}', "RForms": '{"ok", "flip"}', "SForms": '{"ok", "flip", "neg"}',
        "Lens": "{65, 64, 63, 66, 0}", "FromForms": '{"addr", "lastbyte", "firstbyte", "contract"}',
        "HashLens": "{32, 31, 1, 0, 33}"}


def run(ctx):
    if ctx.replay:
        cases = [json.load(open(ctx.replay))["detail"]["behaviour"]]
    else:
        # 1. exhaustive: the full case table (signer x signed id x claimed sender x from form x signature treatment,
        #    recover / verify / serialization round trips) with the three invariants
        r = ctx.model_check("data", "MC_TxAuth", "MC_TxAuth.cfg", constants=dict(FULL, MaxOps=1, MaxTreat=4), coverage=True,
                            timeout=ctx.pick(900, 1800))
        ctx.check_coverage(r, ["Submit", "RecoverOp", "VerifyOp", "RoundTrip"])
        ctx.exhaustive = True
        # 2. every case of the table, with its predicted verdict
        cases = ctx.behaviours("data", "Gen_TxAuth", "Gen_TxAuth.cfg",
                               constants=dict(FULL, MaxOps=1, Depth=1, MaxTreat=4), timeout=1800)
        # 3. histories of two verifications of the SAME transaction content (same id) in one process: the second verdict
        #    must not depend on the first (no cache of verified ids)
        r2 = ctx.model_check("data", "MC_TxAuth", "MC_TxAuthTwin.cfg", constants=dict(FULL, MaxOps=2, MaxTreat=4),
                             coverage=True, timeout=900, label="twins")
        ctx.check_coverage(r2, ["Len(hist) = 0", "Resubmit"])
        cases += ctx.behaviours("data", "Gen_TxAuth", "Gen_TxAuthTwin.cfg",
                                constants=dict(FULL, MaxOps=2, Depth=2, MaxTreat=4), timeout=1800)
    inp = ctx.path("in", "cases.ndjson")
    with open(inp, "w") as fh:
        for b in cases:
            fh.write(json.dumps(b) + "\n")
    # 3. real secp256k1 keys, real transaction ids: NewTransactionFromJSON + Verify(), crypto.NewSignature /
    #    ParseSignature / RecoverPublicKey / Verify / Serialize*
    ctx.absorb(ctx.go_replay("txauth", "TestReplay", inp, shards=ctx.pick(2, 4), timeout=1800))
    acc = [b for b in cases if b[0]["op"] == "submit" and b[0]["res"] == "accept"]
    rej = [b for b in cases if b[0]["op"] == "submit" and b[0]["res"] == "reject"]
    for b in acc[:1] + rej[:2] + cases[-2:]:
        ctx.sample(b)
    ctx.notes.append("%d submit cases predicted accept, %d reject, %d reject at parse"
                     % (len(acc), len(rej), len([b for b in cases if b[0].get("res") == "reject-parse"])))
    return ctx.finish(
        rule="a case = one row of the TLC-enumerated table: Transaction.Verify() for (claimed sender key, from-field "
             "form, transaction id, signer key, signed id, V/R/S/length treatment of the 65-byte signature) or a "
             "RecoverPublicKey / Signature.Verify / serialization round-trip call for (signature treatment, message, "
             "key, hash length); distinct by its row; keys are fresh real secp256k1 pairs (renewed every 64 cases), "
             "bit positions of flips are seeded",
        assumptions=["secp256k1 ECDSA is trusted: a signature whose R or S was altered never recovers a known key; "
                     "the (R, N-S, V^1) twin of a genuine signature and the same signature with the compact format\'s "
                     "compressed-key flag (V+4) are the same authorization (encoding malleability of the signature field, which is not part of the id)",
                     "the from field differs from the sender's address in one bit of the first/last id byte or in the "
                     "account/contract type only (closest misses)"])
