"""C29 BTP proofs require more than two thirds of distinct validator signatures (spec/cert/QuorumCert.tla, vector form)."""
import json

ALLW = '{"ok", "other", "forged", "garbage"}'


def ns(k):
    return "{" + ", ".join(str(i) for i in range(1, k + 1)) + "}"


def gen(ctx, family, form, n, n2, **kw):
    c = dict(MaxN=7, Whats=ALLW, MaxExtra=0, MaxOver=1, MinN=1, Ops='{"vector"}', Ns=n, MaxAnom=1, Ns2=n2, NsPerm="{}",
             Family='"%s"' % family, Form='"%s"' % form)
    return ctx.behaviours("cert", "Gen_QuorumCert", "Gen_QuorumCert.cfg", constants=c, timeout=900, **kw)


def run(ctx):
    if ctx.replay:
        allb = [json.load(open(ctx.replay))["detail"]["behaviour"]]
        counts = (0, 0, 0, 0)
    else:
        # 1. exhaustive: every signature vector over n <= 3/4 validators (slot empty or any of 3 kinds by any signer),
        #    built by any sequence of Add, and every single part at every claimed index
        #    vectors of every width 0..n+1 (quick: n <= 3, 2 kinds of signed content; thorough: n <= 3 with 3 kinds and
        #    widths 0..n+1, and n <= 4 with widths 0..n)
        runs = ctx.pick([dict(MaxN=3, MaxOver=1, Whats='{"ok", "other"}')],
                        [dict(MaxN=3, MaxOver=1), dict(MaxN=4, MaxOver=0)])
        for cst in runs:
            r = ctx.model_check("cert", "MC_QuorumCert", "MC_QuorumCert_vector.cfg", constants=cst,
                                coverage=True, timeout=ctx.pick(600, 1800))
            ctx.check_coverage(r, ["AddPart", "VerifyPart", "VerifyProof", "Reverify", "NewPart", "DecodeGarbage"], allow_zero=("AppendItem", "VerifyList", "DecodeGarbageList"))
        ctx.exhaustive = True
        # 2. decision table: every subset of own-index signatures for n = 1..7 with <= 1 anomalous slot
        #    (wrong index, non-validator, other decision, forged, unrecoverable), <= 2 for n <= 3/5; proofs of every
        #    other width (0..n-1 slots with every subset of own-index signatures; n+1 slots with an empty, validator-signed
        #    or stranger-signed extra slot); all parts; walks over every width
        table = gen(ctx, "table", "vector", ns(7), ns(ctx.pick(3, 5)))
        parts = gen(ctx, "walk", "part", ns(7), "{}")  # BFS over the single VerifyPart step
        walks = gen(ctx, "walk", "vector", ns(7), "{}", simulate="num=%d" % ctx.pick(300, 5000), depth=12, seed=ctx.seed)
        seen, allb = set(), []
        for b in table + parts + walks:
            k = json.dumps(b, sort_keys=True)
            if k not in seen:
                seen.add(k)
                allb.append(b)
        counts = (len(table), ctx.pick(3, 5), len(parts), len(walks))
        for b in (table[len(table) // 2:][:1] + parts[-1:] + walks[:1]):
            ctx.sample(b[0])
    inp = ctx.path("in", "cases.ndjson")
    with open(inp, "w") as fh:
        for b in allb:
            fh.write(json.dumps(b) + "\n")
    # 3. real proof contexts of the "eth" and "icon" network type modules
    recs = ctx.go_replay("btpproof", "TestReplay", inp, shards=1 if ctx.replay else 4, timeout=1500)
    ctx.absorb(recs)
    return ctx.finish(
        rule="a case = one signature vector for n validators (n=1..7): every subset of own-index signatures with anomalous "
             "slots (another validator's signature = wrong index, non-validator, signature of another decision, forged or "
             "unrecoverable bytes), in a proof of any width 0..n+1 (serialized proofs narrower or wider than the validator "
             "list included): %d table cases (<=1 anomaly for every n, <=2 for n<=%d), %d single parts at every claimed "
             "index (-1..n), %d random Add sequences; each run for the eth and the icon module; verdict predicted by TLC"
             % counts,
        assumptions=["signatures are symbolic in the spec (secp256k1/keccak/sha3 trusted)",
                     "the validators of a proof context are distinct and all have a key",
                     "a rejected valid proof is reported as divergence, not violation"])
