"""C12 A transaction keeps its identity across all representations (spec/data/TxRepr.tla)."""
import json

ALL_DATA = ('{"absent", "null", "empty", "hex", "esc", "num", "numstr", "float", "neg", "list0", "list1e", "list2e", '
            '"list", "dict0", "nested", "call", "patch"}')
# descriptor spaces: (A) textual forms of the fields, (B) data payloads x presence of optional fields
FORMS_Q = {"ValueOpts": '{"absent", "0", "a_lz", "icx_up"}', "NidOpts": '{"absent", "0", "1"}',
           "NonceOpts": '{"absent", "null", "0", "a_up"}', "StepOpts": '{"1f4", "1f4_up"}', "TsOpts": '{"icx"}',
           "FromOpts": '{"canon", "upper"}', "ToOpts": '{"canon", "noprefix", "cx"}', "DataOpts": '{"absent"}',
           "DTypeOpts": '{"absent"}', "MemoOpts": "{FALSE, TRUE}", "HashOpts": "{FALSE}"}
FORMS_T = {"ValueOpts": '{"absent", "null", "0", "0_lz", "a_lzup", "icx_up"}', "NidOpts": '{"absent", "0", "1", "a_lz"}',
           "NonceOpts": '{"absent", "null", "0", "a_up"}', "StepOpts": '{"1f4_up", "icx_lz"}',
           "TsOpts": '{"icx", "icx_lz"}', "FromOpts": '{"canon", "upper", "noprefix"}',
           "ToOpts": '{"canon", "upper", "noprefix", "cx"}', "DataOpts": '{"absent"}',
           "DTypeOpts": '{"absent"}', "MemoOpts": "{FALSE, TRUE}", "HashOpts": "{FALSE}"}
DATA_Q = {"ValueOpts": '{"absent", "0", "a"}', "NidOpts": '{"1"}', "NonceOpts": '{"absent", "1"}', "StepOpts": '{"1f4"}',
          "TsOpts": '{"icx"}', "FromOpts": '{"canon"}', "ToOpts": '{"canon"}', "DataOpts": ALL_DATA,
          "DTypeOpts": '{"absent", "message", "call", "patch"}', "MemoOpts": "{FALSE}", "HashOpts": "{FALSE, TRUE}"}
DATA_T = {"ValueOpts": '{"absent", "0", "icx"}', "NidOpts": '{"absent", "1"}', "NonceOpts": '{"absent", "1"}',
          "StepOpts": '{"1f4"}', "TsOpts": '{"icx"}', "FromOpts": '{"canon"}', "ToOpts": '{"canon", "cx"}',
          "DataOpts": ALL_DATA, "DTypeOpts": '{"absent", "message", "call", "patch"}', "MemoOpts": "{FALSE, TRUE}",
          "HashOpts": "{FALSE, TRUE}"}
MIX_Q = {"ValueOpts": '{"absent", "null", "a_lz", "icx_up"}', "NidOpts": '{"absent", "a_lz"}',
         "NonceOpts": '{"absent", "null", "a_up"}', "StepOpts": '{"1f4_up", "icx_lz"}',
         "TsOpts": '{"icx", "icx_lz"}', "FromOpts": '{"canon", "upper"}', "ToOpts": '{"upper", "noprefix", "cx"}',
         "DataOpts": '{"null", "esc", "float", "nested", "call"}',
         "DTypeOpts": '{"absent", "message", "call"}', "MemoOpts": "{FALSE, TRUE}", "HashOpts": "{FALSE, TRUE}"}
MIX = {"ValueOpts": '{"absent", "null", "0", "a", "a_lz", "a_up", "icx", "icx_up"}', "NidOpts": '{"absent", "null", "1", "a_lz"}',
       "NonceOpts": '{"absent", "null", "1", "a_up"}', "StepOpts": '{"1f4", "1f4_up", "icx_lz"}',
       "TsOpts": '{"icx", "icx_lz"}', "FromOpts": '{"canon", "upper"}', "ToOpts": '{"canon", "upper", "noprefix", "cx"}',
       "DataOpts": '{"absent", "null", "esc", "float", "list1e", "nested", "call"}',
       "DTypeOpts": '{"absent", "message", "call"}', "MemoOpts": "{FALSE, TRUE}", "HashOpts": "{FALSE, TRUE}"}


# version-2 and genesis transactions (spec/data/TxReprRaw.tla)
RAW_Q = {"ValueOpts": '{"icx_lz"}', "FeeOpts": '{"fee_up", "wrong"}', "TsOpts": '{"dec", "hex2"}',
         "FromOpts": '{"canon", "upper"}'}
RAW_T = {}


def run_raw(ctx, only=None):
    """v2 / genesis: JSON-only kinds; returns the number of cases replayed"""
    if only is not None:
        cases = [only]
    else:
        cs = dict(ctx.pick(RAW_Q, RAW_T))
        r = ctx.model_check("data", "MC_TxReprRaw", "MC_TxReprRaw.cfg", constants=cs, coverage=True,
                            timeout=ctx.pick(600, 1800), label="v2+genesis")
        ctx.check_coverage(r, ["ParseJSON", "Bytes", "ParseStored", "ToJSON", "CompareWith"])
        cases = ctx.behaviours("data", "Gen_TxReprRaw", "Gen_TxReprRaw.cfg", constants=cs, timeout=1800)
    inp = ctx.path("in", "rawcases.ndjson")
    with open(inp, "w") as fh:
        for b in cases:
            fh.write(json.dumps(b) + "\n")
    ctx.absorb(ctx.go_replay("txrepr", "TestReplayRaw", inp, shards=ctx.pick(2, 4), timeout=1800))
    for b in cases[:1] + cases[-1:]:
        ctx.sample([dict(op=s["op"], rep=s["rep"], pre=s["pre"], what=s.get("what", ""), desc=s.get("desc", "")) for s in b])
    return len(cases)


def run(ctx):
    forms, data = ctx.pick(FORMS_Q, FORMS_T), ctx.pick(DATA_Q, DATA_T)
    if ctx.replay:
        det = json.load(open(ctx.replay))["detail"]
        if det.get("kind") == "raw":
            run_raw(ctx, det["behaviour"])
            return finish(ctx)
        cases = [det["behaviour"]]
    else:
        run_raw(ctx)
        # 1. exhaustive: every descriptor of the two spaces x every conversion path of <= 4 calls from a submitted
        #    JSON document or from a peer's stored RLP form; id sensitivity for every single-field change
        for name, cs in (("forms", forms), ("data", data)):
            r = ctx.model_check("data", "MC_TxRepr", "MC_TxRepr.cfg", constants=dict(cs, MaxOps=4, Compare="TRUE"),
                                coverage=True, timeout=ctx.pick(900, 3000), label=name)
            ctx.check_coverage(r, ["ParseJSON", "Bytes", "ParseStored", "ToJSON", "CompareWith"])
        ctx.exhaustive = True
        # 2. cases: all maximal conversion paths and all id comparisons for every descriptor (BFS) ...
        #    (id comparisons only in the payload space)
        cases = []
        for cs, cmp in ((forms, "FALSE"), (data, "TRUE")):
            cases += ctx.behaviours("data", "Gen_TxRepr", "Gen_TxRepr.cfg",
                                    constants=dict(cs, MaxOps=4, Depth=4, Compare=cmp), timeout=2400)
        # ... + random descriptors of the mixed space with random paths
        cases += ctx.behaviours("data", "Gen_TxRepr", "Gen_TxRepr.cfg",
                                constants=dict(ctx.pick(MIX_Q, MIX), MaxOps=4, Depth=4, Compare="TRUE"),
                                simulate="num=%d" % ctx.pick(100, 300), depth=6, seed=ctx.seed, timeout=2400)
    inp = ctx.path("in", "cases.ndjson")
    with open(inp, "w") as fh:
        for b in cases:
            fh.write(json.dumps(b) + "\n")
    # 3. replay into NewTransactionFromJSON / UnmarshalJSON, Bytes / MarshalBinary, NewTransaction /
    #    UnmarshalBinary / Reset, ToJSON / MarshalJSON, ID, From, To, Timestamp, Nonce, Verify
    ctx.absorb(ctx.go_replay("txrepr", "TestReplay", inp, shards=ctx.pick(2, 4), timeout=1800))
    for b in cases[:1] + cases[len(cases) // 2:len(cases) // 2 + 1] + cases[-1:]:
        ctx.sample([dict(op=s["op"], rep=s["rep"], pre=s["pre"], what=s.get("what", ""), desc=s.get("other", "")) for s in b])
    return finish(ctx)


def finish(ctx):
    return ctx.finish(
        rule="a case = a transaction descriptor (presence and textual form of every field, data payload class, "
             "unknown/txHash fields) + either one maximal conversion path of 4 calls (ParseJSON / Bytes / ParseStored / "
             "ToJSON) from the submitted JSON or a peer's RLP form, or one id comparison with a single-field change; "
             "all descriptors of two product spaces by BFS + seeded random descriptors of the mixed space; distinct by "
             "(descriptor, path or changed field); non-trivial if it has >= 2 conversions or is a comparison; JSON key "
             "order, whitespace and string escapes are seeded; version-2 and genesis transactions (JSON-only kinds, "
             "TxReprRaw.tla): descriptor = forms of value/fee/timestamp, nonce/method/tx_hash presence, address forms, "
             "genesis with ICON or legacy serialization, each with all 4-call paths and all single-field comparisons",
        assumptions=["double-sign-report transactions have no JSON parser (binary form only) and are not driven; patch "
                     "transactions are version-3 transactions with dataType patch (data class \"patch\")",
                     "SHA3-256 and secp256k1 are trusted (ids are SHA3 of the predicted serialization text)",
                     "well-formed version-3 transactions only; numeric forms: canonical, leading zero, upper-case "
                     "digits; address forms: canonical, upper-case digits, missing hx prefix; JSON null for optional fields",
                     "the value equivalences of the serialization format taken as given: numbers are truncated to "
                     "integers and serialize like their decimal string, lists of empty strings serialize like []"])
