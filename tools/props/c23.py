"""C23 The RLP codec round-trips every supported value and rejects malformed input (spec/codec/Rlp.tla)."""
import json
import vlib

ACTIONS = ["EncBytes", "EncNil", "EncRaw", "EncList", "EncEnd", "Finish", "DecBytes", "DecList", "DecRaw", "DecSkip", "DecPop",
           "Corrupt", "SPush", "Scalar"]


def _dedup(bs):
    seen, out = set(), []
    for b in bs:
        k = json.dumps(b, sort_keys=True)
        if k not in seen:
            seen.add(k)
            out.append(b)
    return out


def run(ctx):
    # 1. exhaustive: every value tree within the bounds, every decoder walk with at most MaxDev deviations,
    #    every corruption; reference decoder = inverse of the header grammar
    small = {"Lens": "{0, 1, 55, 56}", "MaxDepth": 2, "MaxItems": 2, "MaxNodes": 3, "MaxDev": 1, "ScalarLen": 4}
    big = {"Lens": "{0, 1, 2, 55, 56, 255, 256, 65535, 65536}", "MaxDepth": 3, "MaxItems": 3, "MaxNodes": 4,
           "MaxDev": 1, "ScalarLen": 6}
    bs = []
    if ctx.quick():
        # quick: one TLC run checks the invariants on every state of the generator (no VIEW) and prints the behaviours
        r = ctx.tlc("codec", "Gen_Rlp", "GenMC_Rlp.cfg", constants=dict(small, ScalarLen=10), coverage=True,
                    timeout=900, label="Rlp (check + generate)")
        ctx.check_coverage(r, ACTIONS)
        bs = _dedup(vlib.parse_tagged(r.printed, "B"))
        ctx.log("TLC codec/Gen_Rlp GenMC_Rlp.cfg: %d distinct states, %d behaviours, %.1fs" % (r.distinct, len(bs), r.wall))
    else:
        r = ctx.model_check("codec", "MC_Rlp", "MC_Rlp.cfg", constants=big, coverage=True, timeout=3000)
        ctx.check_coverage(r, ACTIONS)
    #    typed values (codec.go encodeValue/decodeValue): every (type, value) of the universe is written as an
    #    item tree whose bytes parse back to it; maps in key order; (thorough) distinct values of a type that the
    #    decoder can tell apart have distinct item trees.  Codec hooks: consensus messages (lists with an optional
    #    last field) and TypedObj/TypedDict.  In the quick tier the generator runs check the invariants as well.
    ty, hk = [], []

    def hooks_cov(r, need, tag):
        if not r.coverage:
            raise vlib.MachineryError("vacuity: no coverage statistics for RlpMsg")
        for a in need:
            if not any(a in k and v[1] > 0 for k, v in r.coverage.items()):
                raise vlib.MachineryError("vacuity: action %s never taken in RlpMsg (%s)" % (a, tag))
        ctx.cov.update({k + "@" + tag: v[1] for k, v in r.coverage.items() if any(a in k for a in need)})
    if ctx.quick():
        r = ctx.tlc("codec", "Gen_RlpTyped", "GenMC_RlpTyped.cfg", constants={"Level": 1}, coverage=True, timeout=600,
                    label="typed level 1 (check + generate)")
        ctx.check_coverage(r, ["PickType", "Marshal", "Cross"])
        ty = _dedup(vlib.parse_tagged(r.printed, "B"))
        r = ctx.tlc("codec", "Gen_RlpMsg", "GenMC_RlpMsg.cfg", constants={"Level": 1, "Family": '"both"'},
                    coverage=True, timeout=600, label="hooks (check + generate)")
        hooks_cov(r, ["PickMsg", "MarshalMsg", "MarshalAny"], "both")
        hk = _dedup(vlib.parse_tagged(r.printed, "B"))
        ctx.log("typed: %d behaviours, hooks: %d behaviours" % (len(ty), len(hk)))
    else:
        r = ctx.model_check("codec", "MC_RlpTyped", "MCI_RlpTyped.cfg", constants={"Level": 1}, coverage=True,
                            timeout=3000, label="typed level 1")
        ctx.check_coverage(r, ["PickType", "Marshal", "Cross"])
        for fam in ("msg", "any"):
            r = ctx.model_check("codec", "MC_RlpMsg", "MCI_RlpMsg.cfg", constants={"Level": 1, "Family": '"%s"' % fam},
                                coverage=True, timeout=3000, label="hooks " + fam)
            hooks_cov(r, ["PickMsg", "MarshalMsg"] if fam == "msg" else ["MarshalAny"], fam)
    ctx.exhaustive = True
    # 2. behaviours
    if ctx.replay:
        ty, hk = [], []
        rp = json.load(open(ctx.replay))
        bs = [rp["detail"]["behaviour"]]
        if rp["detail"].get("typed"):
            ty, bs = bs, []
        elif rp["detail"].get("hooks"):
            hk, bs = bs, []
    else:
        if not ctx.quick():
            hk = ctx.behaviours("codec", "Gen_RlpMsg", "Gen_RlpMsg.cfg",
                                constants={"Level": 1, "Family": '"both"'}, timeout=1200)
            ty = ctx.behaviours("codec", "Gen_RlpTyped", "Gen_RlpTyped.cfg", constants={"Level": 2}, timeout=3000)
            gbig = dict(big, ScalarLen=10, MaxNodes=4, MaxItems=2)
            bs = ctx.behaviours("codec", "Gen_Rlp", "Gen_Rlp.cfg", constants=gbig, timeout=2400)
    # 3. replay into codec.RLP (streaming API + MarshalToBytes/UnmarshalFromBytes)
    if bs:
        inp = ctx.path("in", "rlp.ndjson")
        with open(inp, "w") as fh:
            for b in bs:
                fh.write(json.dumps(b) + "\n")
        ctx.absorb(ctx.go_replay("rlp", "TestReplay", inp, timeout=1800))
    if ty:
        inp = ctx.path("in", "typed.ndjson")
        with open(inp, "w") as fh:
            for b in ty:
                fh.write(json.dumps(b) + "\n")
        ctx.absorb(ctx.go_replay("rlp", "TestReplayTyped", inp, timeout=1800))
    if hk:
        inp = ctx.path("in", "hooks.ndjson")
        with open(inp, "w") as fh:
            for b in hk:
                fh.write(json.dumps(b) + "\n")
        ctx.absorb(ctx.go_replay("rlp", "TestReplayMsg", inp, timeout=1800))
    cor = [b for b in bs if b[-1]["op"] == "corrupt"]
    dec = [b for b in bs if b[-1]["op"] in ("dbytes", "dpop")]
    sca = [b for b in bs if b[0]["op"] == "scalar"]
    for b in cor[len(cor) // 2:len(cor) // 2 + 1] + dec[len(dec) // 2:len(dec) // 2 + 1] + sca[-1:]:
        ctx.sample(b)
    maps = [b for b in ty if b[0]["val"]["v"] == "map" and len(b[0]["val"]["items"]) == 2]
    for b in maps[:1] + ty[len(ty) // 3:len(ty) // 3 + 1]:
        ctx.sample(dict(type=b[0]["type"], val=b[0]["val"], stream=b[0]["stream"]))
    votes = [b for b in hk if b[0]["op"] == "msg" and b[0]["name"] == "vote" and not b[0]["omitted"]]
    for b in votes[:1] + [b for b in hk if b[0]["op"] == "any"][-1:]:
        ctx.sample({k: b[0][k] for k in ("op", "name", "val", "obj", "stream") if k in b[0]})
    return ctx.finish(
        rule="a behaviour = TLC-generated call sequence: encoder calls building a value tree (strings of the "
             "boundary lengths, nil, nested lists) and Close with the predicted byte stream, followed by either a "
             "decoder walk (DecodeBytes/DecodeList/Skip/leave list, at most one deviation such as wrong kind, "
             "skip, early leave), or one corruption (truncation at every element boundary and a few byte "
             "offsets, a size field inflated just/far beyond its container, an 8-byte MaxInt64 size); plus "
             "byte strings over 4 digit classes decoded into int8..int64/uint8..uint64; plus every (Go type, value) of "
             "the typed universe (integers of all widths at their boundaries, bool, string, []byte, *big.Int, "
             "pointers, slices, structs, maps with string/int64/uint64 keys in every insertion order; thorough: "
             "one more level of nesting) marshalled, compared with the predicted bytes and unmarshalled. Distinct "
             "by the call sequence / type and value; non-trivial if it has more than two calls / is not nil. "
             "Hooks: every consensus message of the bounded field universe (ProposalMessage with/without NID, "
             "VoteMessage with/without NTS votes, BlockPartMessage, VoteListMessage) as predicted bytes decoded by "
             "consensus.UnmarshalMessage, compared field by field and re-encoded; every TypedObj value of the "
             "universe through codec.MarshalAny/UnmarshalAny",
        assumptions=["payload bytes are arbitrary (seeded random); only their length and, for single bytes, the "
                     "top bit influence the format",
                     "decoding arbitrary unstructured bytes (fuzzing) is out of scope: only the malformed classes "
                     "derived from well-formed streams are exercised",
                     "Go types are built with reflect (StructOf, MapOf, ...) from the spec's type descriptors",
                     "65-byte signature payloads are arbitrary bytes with recovery byte 0/1; signatures are not verified",
                     "the second codec (msgpack) is not modelled"])
