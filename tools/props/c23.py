"""C23 The RLP codec round-trips every supported value and rejects malformed input (spec/codec/Rlp.tla)."""
import json

ACTIONS = ["EncBytes", "EncNil", "EncList", "EncEnd", "Finish", "DecBytes", "DecList", "DecSkip", "DecPop",
           "Corrupt", "SPush", "Scalar"]


def run(ctx):
    # 1. exhaustive: every value tree within the bounds, every decoder walk with at most MaxDev deviations,
    #    every corruption; reference decoder = inverse of the header grammar
    small = {"Lens": "{0, 1, 55, 56}", "MaxDepth": 2, "MaxItems": 2, "MaxNodes": 3, "MaxDev": 1, "ScalarLen": 4}
    big = {"Lens": "{0, 1, 2, 55, 56, 255, 256, 65535, 65536}", "MaxDepth": 3, "MaxItems": 3, "MaxNodes": 4,
           "MaxDev": 1, "ScalarLen": 6}
    r = ctx.model_check("codec", "MC_Rlp", "MC_Rlp.cfg", constants=ctx.pick(small, big), coverage=True,
                        timeout=ctx.pick(400, 3000))
    ctx.check_coverage(r, ACTIONS)
    #    typed values (codec.go encodeValue/decodeValue): every (type, value) of the universe is written as an
    #    item tree whose bytes parse back to it; maps in key order; (thorough) distinct values of a type that the
    #    decoder can tell apart have distinct item trees
    r = ctx.model_check("codec", "MC_RlpTyped", ctx.pick("MC_RlpTyped.cfg", "MCI_RlpTyped.cfg"),
                        constants={"Level": 1}, coverage=True, timeout=ctx.pick(400, 3000), label="typed level 1")
    ctx.check_coverage(r, ["PickType", "Marshal"])
    ctx.exhaustive = True
    # 2. behaviours
    ty = []
    if ctx.replay:
        rp = json.load(open(ctx.replay))
        bs = [rp["detail"]["behaviour"]]
        if rp["detail"].get("typed"):
            ty, bs = bs, []
    else:
        ty = ctx.behaviours("codec", "Gen_RlpTyped", "Gen_RlpTyped.cfg", constants={"Level": ctx.pick(1, 2)},
                            timeout=3000)
        gsmall = dict(small, ScalarLen=10, Lens="{0, 1, 55, 56, 256}")
        gbig = dict(big, ScalarLen=10, MaxNodes=4, MaxItems=2)
        bs = ctx.behaviours("codec", "Gen_Rlp", "Gen_Rlp.cfg", constants=ctx.pick(gsmall, gbig), timeout=2400)
    # 3. replay into codec.RLP (streaming API + MarshalToBytes/UnmarshalFromBytes)
    if bs:
        inp = ctx.path("in", "rlp.ndjson")
        with open(inp, "w") as fh:
            for b in bs:
                fh.write(json.dumps(b) + "\n")
        ctx.absorb(ctx.go_replay("rlp", "TestReplay", inp, timeout=1800))
    if ty:
        inp = ctx.path("in", "typed.ndjson")
        with open(inp, "w") as fh:
            for b in ty:
                fh.write(json.dumps(b) + "\n")
        ctx.absorb(ctx.go_replay("rlp", "TestReplayTyped", inp, timeout=1800))
    cor = [b for b in bs if b[-1]["op"] == "corrupt"]
    dec = [b for b in bs if b[-1]["op"] in ("dbytes", "dpop")]
    sca = [b for b in bs if b[0]["op"] == "scalar"]
    for b in cor[len(cor) // 2:len(cor) // 2 + 1] + dec[len(dec) // 2:len(dec) // 2 + 1] + sca[-1:]:
        ctx.sample(b)
    maps = [b for b in ty if b[0]["val"]["v"] == "map" and len(b[0]["val"]["items"]) == 2]
    for b in maps[:1] + ty[len(ty) // 3:len(ty) // 3 + 1]:
        ctx.sample(dict(type=b[0]["type"], val=b[0]["val"], stream=b[0]["stream"]))
    return ctx.finish(
        rule="a behaviour = TLC-generated call sequence: encoder calls building a value tree (strings of the "
             "boundary lengths, nil, nested lists) and Close with the predicted byte stream, followed by either a "
             "decoder walk (DecodeBytes/DecodeList/Skip/leave list, at most one deviation such as wrong kind, "
             "skip, early leave), or one corruption (truncation at every element boundary and a few byte "
             "offsets, a size field inflated just/far beyond its container, an 8-byte MaxInt64 size); plus "
             "byte strings over 4 digit classes decoded into int8..int64/uint8..uint64; plus every (Go type, value) of "
             "the typed universe (integers of all widths at their boundaries, bool, string, []byte, *big.Int, "
             "pointers, slices, structs, maps with string/int64/uint64 keys in every insertion order; thorough: "
             "one more level of nesting) marshalled, compared with the predicted bytes and unmarshalled. Distinct "
             "by the call sequence / type and value; non-trivial if it has more than two calls / is not nil",
        assumptions=["payload bytes are arbitrary (seeded random); only their length and, for single bytes, the "
                     "top bit influence the format",
                     "decoding arbitrary unstructured bytes (fuzzing) is out of scope: only the malformed classes "
                     "derived from well-formed streams are exercised",
                     "Go types are built with reflect (StructOf, MapOf, ...) from the spec's type descriptors; custom "
                     "codec hooks (RLPEncodeSelf, MarshalBinary, TypedObj) are not part of the model"])
