"""C18 Trie proofs are sound and complete (spec/trie/MPT.tla, operators GetProof/Prove)."""
from . import mptcommon


def run(ctx):
    if not ctx.replay:
        mptcommon.model_check(ctx)
    allb, nbfs, wl = mptcommon.behaviours(ctx)
    # exhaustive only when the complete BFS set of the generator (all behaviours of depth 2) is replayed as well
    ctx.exhaustive = bool(nbfs)
    extra = mptcommon.replay(ctx, allb, "c18")
    calls = sum((e or {}).get("prove_calls", 0) for e in extra)
    ctx.notes.append("real Prove calls: %d" % calls)
    mptcommon.sample(ctx, allb)
    return ctx.finish(
        rule="a behaviour = one TLC-generated call sequence on a trie with two snapshot slots (random walks of depth %d, "
             "2- and 3-symbol alphabets); at every snapshot/check/reload step the real GetProof of every key of the "
             "universe is compared with the spec and Prove is called, on the trie itself and on a verifier that knows "
             "only the root hash, with the genuine proof, with every single-element alteration/drop/duplication, with "
             "the proof taken from another root and with the proof presented for every other key; non-trivial if it "
             "contains such a step" % wl,
        assumptions=["MapDB backend", "keys of at most 2 bytes over 2-3 nibble symbols; values of 2, 29, 40 bytes",
                     "an altered element = one flipped bit at a seeded position",
                     "extra elements behind an authenticated value are accepted by the code (value still authentic): "
                     "diagnostic only", "hashes are collision free (symbolic in the spec)"])
