"""C34 Staking operations conserve ICX and keep stake accounting consistent (spec/iiss/Staking.tla)."""
import json


def tla_set(xs):
    return "{" + ", ".join('"%s"' % x if isinstance(x, str) else str(x) for x in xs) + "}"


def consts(accts, ext, maxamt, periods, *, fee=1, slotmax=2, unbondperiod=1, unbondmax=1, maxh=40, maxtx=2,
           maxops=100, record=True, impl="required", depth=None):
    c = {"Accts": tla_set(accts), "Ext": tla_set(ext), "MaxAmt": maxamt, "Fee": fee, "SlotMax": slotmax,
         "Periods": tla_set(periods), "UnbondPeriod": unbondperiod, "UnbondMax": unbondmax, "MaxH": maxh,
         "MaxTx": maxtx, "MaxOps": maxops, "Record": "TRUE" if record else "FALSE", "Impl": '"%s"' % impl,
         "ExtBond": 1, "ExtDeleg": 14, "PoolInit": 1 if not record else 3}
    if depth is not None:
        c["Depth"] = depth
        c["MaxOps"] = depth
    gocfg = dict(accts=list(accts), ext=list(ext), maxamt=maxamt, fee=fee, slotmax=slotmax,
                 unbondperiod=unbondperiod, unbondmax=unbondmax, extbond=1, extdeleg=14)
    return c, gocfg


def complete_blocks(b):
    """A behaviour is replayed up to its last "end" step (transactions after it carry no prediction)."""
    n = len(b)
    while n > 0 and b[n - 1]["op"] != "end":
        n -= 1
    return b[:n]


def run(ctx):
    from concurrent.futures import ThreadPoolExecutor
    import vlib
    mcw = max(2, vlib.NCPU // 3)      # several TLC processes run side by side
    d = 6
    wl = ctx.pick(30, 40)

    def mc():
        # 1. exhaustive model check of the required behaviour: 2 accounts + 1 external P-Rep
        c, _ = consts(["a", "b"], ["p"], 2, [1, 2], maxh=ctx.pick(1, 2), maxtx=2, record=False)
        return ctx.model_check("iiss", "MC_Staking", "MC_Staking.cfg", constants=c, coverage=True,
                               timeout=ctx.pick(600, 2400), workers=mcw)

    def mc1():
        # 1a. deeper with one account + 1 external P-Rep, amounts 0..3
        c, _ = consts(["a"], ["p"], 3, [1, 2], maxh=ctx.pick(3, 5), maxtx=2, record=False)
        return ctx.model_check("iiss", "MC_Staking", "MC_Staking.cfg", constants=c, coverage=True,
                               timeout=ctx.pick(600, 2400), workers=mcw)

    def mc_code():
        # 1b. the same model with the timer jobs applied literally as the code does: TLC finds by itself a
        #     history in which an unstake slot survives its expire height (model-level image of the timer defect)
        c, _ = consts(["a"], [], 3, [1, 2], maxh=4, maxtx=2, record=False, impl="code")
        return ctx.tlc("iiss", "MC_Staking", "MC_Staking_code.cfg", constants=c, expect_violation=True, count=False,
                       timeout=600, label="Impl=code", workers=2)

    def gen(name, cfgfile, c, g, **kw):
        return (name, g, ctx.behaviours("iiss", "Gen_Staking", cfgfile, constants=c, **kw))

    jobs = [mc, mc_code, mc1]
    # 2a. stake/unstake slice, one account, every history of effective SetStake calls and block ends (BFS)
    c, g = consts(["a"], [], 3, [1], maxtx=3, depth=d)
    jobs.append(lambda c=c, g=g: gen("slice", "Gen_StakingSlice.cfg", c, g, timeout=900, workers=2))
    if not ctx.quick():
        c, g = consts(["a"], [], 3, [1, 2], maxtx=2, depth=6)
        jobs.append(lambda c=c, g=g: gen("slice2", "Gen_StakingSlice.cfg", c, g, timeout=900, workers=2))
    # 2b. full model, random walks close to the accept/reject boundary (split over several TLC processes)
    parts = ctx.pick(2, 4)
    nw = ctx.pick(400, 2400)
    for i in range(parts):
        c, g = consts(["a", "b"], ["p"], 3, [1, 2], unbondmax=2, depth=wl)
        jobs.append(lambda c=c, g=g, i=i: gen("walk", "Gen_Staking.cfg", c, g, simulate="num=%d" % (nw // parts),
                                              depth=wl + 1, seed=ctx.seed * 100 + i, timeout=1500))
    # 2c. bond / unbond slice: random walks that only bond, unbond, re-bond and end blocks
    for i in range(ctx.pick(1, 2)):
        c, g = consts(["a"], ["p", "q"], 3, [1], unbondperiod=2, unbondmax=2, depth=16)
        jobs.append(lambda c=c, g=g, i=i: gen("bondwalk", "Gen_StakingBond.cfg", c, g,
                                              simulate="num=%d" % ctx.pick(150, 600), depth=17,
                                              seed=ctx.seed * 100 + 70 + i, timeout=1500))
    # 2d. coinciding timers: directed walks in which an unbond and an unstake (of one account or of two
    #     different accounts) expire at exactly the same height; only behaviours with such a height are emitted
    for i in range(ctx.pick(1, 3)):
        c, g = consts(["a", "b"], ["p"], 2, [1, 2], unbondperiod=1 + (i % 2), unbondmax=2, maxtx=4, depth=10)
        jobs.append(lambda c=c, g=g, i=i: gen("coin", "Gen_StakingCoin.cfg", c, g,
                                              simulate="num=%d" % ctx.pick(1000, 2500), depth=11,
                                              seed=ctx.seed * 100 + 80 + i, timeout=1500))
    nw3 = ctx.pick(100, 900)
    for i in range(ctx.pick(1, 3)):
        c, g = consts(["a", "b", "c"], ["p"], 3, [1, 2, 3], slotmax=3, unbondperiod=2, unbondmax=2, maxtx=3,
                      depth=wl)
        jobs.append(lambda c=c, g=g, i=i: gen("walk3", "Gen_Staking.cfg", c, g,
                                              simulate="num=%d" % (nw3 // ctx.pick(1, 3)), depth=wl + 1,
                                              seed=ctx.seed * 100 + 50 + i, timeout=1500))
    if ctx.replay:      # re-execute exactly the recorded behaviour; only the cheap model stages are repeated
        jobs = jobs[:3]
    import os
    diag = bool(os.environ.get("VERIF_COVER") or os.environ.get("VERIF_NO_MC"))   # statement-coverage diagnostic of the replay stage: no exhaustive stages
    if diag:
        jobs = jobs[3:]
    with ThreadPoolExecutor(max_workers=len(jobs)) as ex:
        futs = [ex.submit(j) for j in jobs]
        res = [f.result() for f in futs]
    if diag:
        res = [None, None, None] + res
    r, rc, r1, groups = res[0], res[1], res[2], res[3:]
    if not diag:
      ctx.check_coverage(r, ["SetStake", "SetDelegation", "SetBond", "Transfer", "Register", "Unregister", "Claim",
                           "Disqualify", "EndBlock"])
      ctx.check_coverage(r1, ["SetStake", "SetDelegation", "SetBond", "Register", "Unregister", "Disqualify", "EndBlock"],
                         allow_zero=("Transfer",))
      ctx.exhaustive = True
      ctx.notes.append("Impl=\"code\" (timer jobs of unstake.go applied literally): TLC reports %s"
                       % (rc.violation or "no violation"))
      ctx.log("Impl=code model: %s" % (rc.violation or "no violation"))
    cases, seen = [], set()
    for name, g, bs in groups:
        for b in bs:
            b = complete_blocks(b)
            if not b:
                continue
            k = json.dumps([g, b], sort_keys=True)
            if k in seen:
                continue
            seen.add(k)
            cases.append(dict(cfg=g, steps=b))
    if ctx.replay:
        cases = [json.load(open(ctx.replay))["detail"]["behaviour"]]
    inp = ctx.path("in", "behaviours.ndjson")
    with open(inp, "w") as fh:
        for cse in cases:
            fh.write(json.dumps(cse) + "\n")
    ctx.log("%d distinct behaviours of complete blocks" % len(cases))
    # 3. replay into icon/icsim (real ExtensionStateImpl SetStake/SetDelegation/SetBond/RegisterPRep/..., timers)
    recs = ctx.go_replay("staking", "TestReplay", inp, shards=1 if ctx.replay else 4, timeout=ctx.pick(900, 3000))
    # C34's statement quantifies over stake, unstake, delegation, bond, transfer, P-Rep registration and reward-claim
    # operations. The grown specification also has disqualification (100% slash). What the real code does wrong in a
    # history that contains such an operation is an OBSERVATION about the code, not a violation of C34.
    by_case = {}
    for r in recs:
        if r.get("status") == "violation":
            beh = ((r.get("detail") or {}).get("behaviour") or {})
            steps = beh.get("steps") if isinstance(beh, dict) else beh
            if any(isinstance(st, dict) and st.get("op") == "disq" for st in (steps or [])):
                by_case.setdefault(r.get("key"), []).append(r)
                r["status"] = "skip"
                r["what"] = "OBSERVATION " + str(r.get("key")) + ": " + str(r.get("what"))
    for k, rs in sorted(by_case.items(), key=lambda kv: str(kv[0])):
        ctx.cov["observations_outside_statement"] = ctx.cov.get("observations_outside_statement", 0) + len(rs)
        ctx.notes.append("observation outside C34's operation list (history contains a disqualification; see DESIGN.md 0.5b), "
                         "%d behaviours: %s" % (len(rs), rs[0]["what"][:700]))
    ctx.absorb(recs)
    blocks = sum((r.get("extra") or {}).get("real_blocks", 0) for r in recs if r.get("summary"))
    for cse in cases[-2:] + cases[:1]:
        ctx.sample([{k: s[k] for k in ("op", "a", "v", "to", "vec", "res", "why", "h", "lp") if k in s}
                    for s in cse["steps"]][:12])
    return ctx.finish(
        rule="a behaviour = one TLC-generated sequence of staking transactions and block ends (every history of "
             "effective SetStake calls/block ends of one account up to depth %d by BFS, plus %d-step random walks of the "
             "full model with 2 and 3 accounts of the bond/unbond slice, and directed walks in which an unbonding and an unstaking timer fire at the same height), cut after its last complete block; distinct by its transaction "
             "sequence; non-trivial if at least one transaction is accepted and changes state; %d real blocks were "
             "executed and C34's invariants evaluated on all accounts of the simulated network after every model block"
             % (d, wl, blocks),
        assumptions=["icon/icsim network built by icsim.NewEnv at the latest revision (4 main + 3 sub P-Reps, 100 users, "
                     "term period 5); every behaviour runs on a fork of it (restart from the database)",
                     "one model block = one real block carrying the transactions + 4 empty blocks; unstake lock and "
                     "unbonding periods are multiples of the term period (lock multipliers set through a verif hook, "
                     "in goloop the lock period follows the network's stake rate)",
                     "amounts are multiples of 2000 ICX; reward claims move less than one unit and are checked for "
                     "conservation on exact balances only",
                     "slashing, penalties and revision changes inside a behaviour are not modelled"])
