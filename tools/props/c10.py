"""C10 Block execution never silently drops a transaction (spec/exec/ParallelExec.tla)."""
from props import exec_common as X


def run(ctx):
    if ctx.replay:
        return X.replay_only(ctx)
    # 1. exhaustive: every position and kind of a failing transaction, every interleaving
    if not X.dev_fast():
        X.model_check(ctx, "K=3, level 2, one non-retryable failure", K=3, acc=("x",), level=2, maxlen=1,
                      fates=("ok", "fatal"))
        X.model_check(ctx, "K=2, level 2, cancellation at every point", K=2, acc=("x",), level=2, maxlen=1,
                      fates=("ok", "fatal"), cancel=True)
        X.model_check(ctx, "K=2, level 2, failing GetHandler / Prepare / GetHandler on retry", K=2, acc=("x",), level=2, maxlen=1,
                      fates=("ok", "nohandler", "noprep", "retryh"))
        if not ctx.quick():
            X.model_check(ctx, "K=3, level 2, failing GetHandler / Prepare / GetHandler on retry", K=3, acc=("x",), level=2,
                          maxlen=1, fates=("ok", "fatal", "nohandler", "noprep", "retryh"))
            X.model_check(ctx, "K=3, level 2, cancellation at every point", K=3, acc=("x",), level=2, maxlen=1,
                          fates=("ok", "fatal"), cancel=True)
            X.model_check(ctx, "K=3, level 2, retryable / retry-exhausted / non-retryable failure", K=3, acc=("x",),
                          level=2, maxlen=1, fates=("ok", "fatal", "retry1", "retryx"), world=False)
            X.model_check(ctx, "K=3, level 3, two failing transactions", K=3, acc=("x",), level=3, maxlen=1,
                          fates=("ok", "fatal"), maxfail=2)
            # the executor as written in transition_pe.go: TLC derives the silently dropped transaction
            rc = ctx.tlc("exec", "MC_ParallelExec", "MC_ParallelExec.cfg", expect_violation=True, count=False,
                         constants=X.consts(K=3, acc=("x",), level=2, maxlen=1, fates=("ok", "fatal"), impl="code"),
                         timeout=900, label="code variant (expected to violate)")
            if rc.violation != "NoSilentDrop":
                raise X.MachineryError("vacuity: the code variant of the model does not violate NoSilentDrop")
            ctx.notes.append("Impl=\"code\": TLC reports NoSilentDrop violated (inverted latch test, no check after Realize)")
        ctx.exhaustive = True
    # 2. TLC-chosen schedules of random blocks with one failing transaction (all kinds, all positions)
    cases = []
    n = ctx.pick(45, 700)
    for i, level in enumerate((2, 3)):
        cases += X.generate(ctx, n, ctx.seed + 20 + i, K=3, acc=("x", "y"), level=level, maxlen=2,
                            fates=("ok", "fatal", "retry1", "retryx"), maxfail=1)
    # errors of GetHandler (at dispatch / on retry) and of Prepare: the dispatcher returns while transactions are in flight
    cases += X.generate(ctx, ctx.pick(40, 600), ctx.seed + 23, K=3, acc=("x", "y"), level=2, maxlen=1,
                        fates=("ok", "nohandler", "noprep", "retryh"), maxfail=1)
    # cancellation: the canceler is called at a TLC-chosen point while transactions are in flight
    cases += X.generate(ctx, ctx.pick(60, 600), ctx.seed + 25, K=3, acc=("x", "y"), level=2, maxlen=1,
                        fates=("ok", "fatal"), maxfail=1, cancel=True)
    if not ctx.quick():
        cases += X.generate(ctx, n // 2, ctx.seed + 27, K=4, acc=("x", "y"), level=4, maxlen=1,
                            fates=("ok", "fatal", "retryx"), maxfail=2)
    failing = sum(1 for c in cases if c["steps"][-1]["seq"]["presult"] == "err")
    ctx.log("cases: %d, with a failing transaction: %d" % (len(cases), failing))
    if failing == 0:
        raise X.MachineryError("vacuity: no generated block has a failing transaction")
    # 3. replay (sequential executor, scheduled concurrent executor, free-running concurrent executor)
    recs = X.replay(ctx, cases, shards=ctx.pick(2, 4))
    X.validate_traces(ctx, recs, {"b%d" % i: c for i, c in enumerate(cases)})
    for c in [c for c in cases if c["steps"][-1]["seq"]["presult"] == "err"][:2]:
        ctx.sample([{k: s[k] for k in ("op", "t", "i", "k", "a", "val", "out")} | ({"prog": s["prog"]} if s["op"] == "top" else {})
                    for s in c["steps"]])
    return ctx.finish(
        rule="a case = one block of K scripted transactions of which at most one (thorough: two) fails "
             "(non-retryable in Execute or in Platform.OnTransactionEnd, retryable once, retryable until the retries "
             "are exhausted) with one TLC-chosen complete schedule; executed on the sequential executor, on the "
             "concurrent executor following the schedule, and free-running (recorded, validated by TLC); every case runs "
             "in a child process so that a crash is attributed to it; distinct by programs + schedule",
        assumptions=["failures are injected by a harness transaction type / a Platform wrapper",
                     "cancellation of a transition and errors of Prepare/GetHandler are not modelled",
                     "skippable transactions (SkipTransactionEnabled) are not modelled"])
