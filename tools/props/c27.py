"""C27 Merkle accumulator works for every length (spec/trie/MTA.tla)."""
import json
import os


def run(ctx):
    lines = []
    env = {}
    ntab = nwalk = 0
    wl = ctx.pick(40, 60)
    tmax = ctx.pick(200, 320)
    if ctx.replay:
        d = json.load(open(ctx.replay))["detail"]
        env["VERIF_FIX_SALT"] = str(d.get("salt", ""))
        if "behaviour" in d:
            lines = [d["behaviour"]]
        else:
            lines = ctx.behaviours("trie", "Gen_MTA", "Gen_MTA_table.cfg", workers=1, timeout=900,
                                   constants={"TableFrom": d["table"], "TableTo": d["table"]})
    else:
        # vacuity guard on a small bounded configuration, then the exhaustive run (no bound on the number of calls)
        if not os.environ.get("VERIF_SKIP_MC"):  # developer switch used by the mutant self-tests
            r0 = ctx.model_check("trie", "MC_MTA", "MC_MTA_cov.cfg", coverage=True, timeout=600)
            ctx.check_coverage(r0, ["Add", "Flush", "Recover", "Witness", "CheckAll", "AddMany"])
            ctx.model_check("trie", "MC_MTA", "MC_MTA.cfg", constants={"MaxLen": ctx.pick(24, 40)}, timeout=ctx.pick(600, 3000))
            # AddData and AddHash items mixed in every order (the kind sequence multiplies the states: shorter)
            ctx.model_check("trie", "MC_MTA", "MC_MTA_mixed.cfg", constants={"MaxLen": ctx.pick(7, 9)}, timeout=ctx.pick(600, 3000))
            ctx.exhaustive = True
        # table: every length 1..tmax, every item index, before and after Flush+Recover
        tab = ctx.behaviours("trie", "Gen_MTA", "Gen_MTA_table.cfg", workers=1, timeout=1800,
                             constants={"TableFrom": 1, "TableTo": tmax})
        walks = ctx.behaviours("trie", "Gen_MTA", "Gen_MTA.cfg", constants={"MaxOps": wl, "Depth": wl},
                               simulate="num=%d" % ctx.pick(150, 600), depth=wl + 1, seed=ctx.seed, timeout=1800)
        ntab, nwalk = len(tab), len(walks)
        lines = tab + walks
        for b in walks[:2]:
            ctx.sample([{k: s.get(k) for k in ("op", "i", "n", "w")} for s in b[:14]])
        ctx.sample({"len": tab[4]["len"], "wits": tab[4]["wits"]})
    inp = ctx.path("in", "cases.ndjson")
    with open(inp, "w") as fh:
        for b in lines:
            fh.write(json.dumps(b) + "\n")
    recs = ctx.go_replay("mta", "TestReplay", inp, timeout=1800, env=env)
    ctx.absorb(recs)
    for r in recs:
        if r.get("summary") and r.get("extra"):
            e = r["extra"]
            ctx.notes.append("table lengths 1..%s: Flush crashes for %d lengths: %s" % (e.get("table_max_len"), e.get("flush_crash_count"), e.get("flush_crash_lengths")))
            ctx.notes.append("WitnessFor crashes for %d lengths (length: item indices): %s" % (e.get("witness_crash_lengths"), json.dumps(e.get("witness_crash"), sort_keys=True)))
    for n in ctx.notes:
        ctx.log(n[:1500])
    return ctx.finish(
        rule="a case = either one accumulator length L (1..%d; all item indices, witnesses before and after "
             "Flush+Recover predicted by the spec) or one TLC random walk of %d calls (add/add-many/flush/recover/"
             "witness/all-witnesses, lengths up to 300); distinct by length resp. call sequence; non-trivial if it "
             "contains a recover or a witness check" % (tmax, wl),
        assumptions=["MapDB bucket", "item data is a function of the item index (re-added items after a Recover are the same)",
                     "items are added with AddData or AddHash (table: every third item by hash; walks: TLC-chosen mix)", "hashes are collision free (symbolic in the spec)"])
