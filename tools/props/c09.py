"""C09 Parallel transaction execution is equivalent to sequential execution (spec/exec/ParallelExec.tla)."""
from props import exec_common as X


def run(ctx):
    if ctx.replay:
        return X.replay_only(ctx)
    # 1. exhaustive: every interleaving of dispatcher and goroutines for every block of K lock-declared programs
    if not X.dev_fast():
        X.model_check(ctx, "K=3, 1 account + world lock, programs <= 1 op, level 2", allow_zero=("TopFail",),
                      K=3, acc=("x",), level=2, maxlen=1, fates=("ok",))
        X.model_check(ctx, "K=2, 2 accounts + world lock, programs <= 1 op, one retry, level 2",
                      allow_zero=("TopFail",), K=2, acc=("x", "y"), level=2, maxlen=1, fates=("ok", "retry1"))
        X.model_check(ctx, "K=2, 1 account, world read/write locks and Ensure(), level 2", allow_zero=("TopFail",),
                      K=2, acc=("x",), level=2, maxlen=1, fates=("ok",), world=("R", "W"), ensure=True)
        if not ctx.quick():
            X.model_check(ctx, "K=3, 1 account, world read/write locks and Ensure(), level 2", allow_zero=("TopFail",),
                          K=3, acc=("x",), level=2, maxlen=1, fates=("ok",), world=("R", "W"), ensure=True)
            # the world read lock as implemented (reader not registered as locker): TLC derives the stale read
            rc = ctx.tlc("exec", "MC_ParallelExec", "MC_ParallelExec.cfg", expect_violation=True, count=False, timeout=900,
                         constants=X.consts(K=3, acc=("x",), level=2, maxlen=1, fates=("ok",), world=("R", "W"), implwr="code"),
                         label="world read lock as implemented (expected to violate)")
            if rc.violation != "ReadsAreSequential":
                raise X.MachineryError("vacuity: the ImplWR=code variant does not violate ReadsAreSequential")
            X.model_check(ctx, "K=2, 2 accounts + world lock, programs <= 2 ops, one retry, level 2",
                          allow_zero=("TopFail",), K=2, acc=("x", "y"), level=2, maxlen=2, fates=("ok", "retry1"))
            X.model_check(ctx, "K=3, 2 accounts + world lock, programs <= 1 op, level 3", allow_zero=("TopFail",),
                          K=3, acc=("x", "y"), level=3, maxlen=1, fates=("ok",))
            X.model_check(ctx, "K=3, 1 account + world lock, programs <= 2 ops, one retry, level 2",
                          allow_zero=("TopFail",), K=3, acc=("x",), level=2, maxlen=2, fates=("ok", "retry1"))
            r = ctx.tlc("exec", "MC_ParallelExec", "MC_ParallelExecLive.cfg", timeout=2400, label="liveness",
                        constants=X.consts(K=3, acc=("x",), level=2, maxlen=1, fates=("ok",)))
            ctx.log("liveness (Termination under weak fairness): %d distinct states, %.1fs" % (r.distinct, r.wall))
        ctx.exhaustive = True
    # 2. TLC-chosen schedules of random blocks (2 accounts + world lock, programs <= 2 ops, one retry)
    cases = []
    n = ctx.pick(90, 1500)
    for i, level in enumerate((2, 3)):
        cases += X.generate(ctx, n, ctx.seed + i, K=3, acc=("x", "y"), level=level, maxlen=2,
                            fates=("ok", "retry1"), maxfail=1, initvals=(0, 9))   # accounts may exist before the block
    # one account, level 3: chains of lockers of the same account, among them transactions that declare a write lock but
    # never touch the account (their Commit has to wait for the earlier writer before the account is handed on)
    cases += X.generate(ctx, n // 2, ctx.seed + 3, K=3, acc=("x",), level=3, maxlen=1, fates=("ok",), world=())
    # the hand-over shape itself (tx 1 writes x, tx 2 write-locks x without touching it, tx 3 reads x), every schedule random
    cases += X.generate(ctx, n // 2, ctx.seed + 4, cfg="Gen_ParallelExecShape.cfg", K=3, acc=("x",), level=3, maxlen=1,
                        fates=("ok",), world=())
    # retry of a transaction dispatched after a committed world-lock transaction (Reset against the base snapshot), accounts
    # existing or not existing before the block
    cases += X.generate(ctx, ctx.pick(30, 300), ctx.seed + 6, cfg="Gen_ParallelExecRetry.cfg", K=3, acc=("x",), level=2, maxlen=2,
                        fates=("ok", "retry1"), maxfail=1, initvals=(0, 9))
    # blocks with world READ locks and with transactions that call Ensure() in Prepare
    # (schedules of the model with the world read lock as implemented -- later writers do not wait for the reader --
    #  so that the real code can follow them; the values are judged against the sequential reference)
    cases += X.generate(ctx, n, ctx.seed + 5, K=3, acc=("x", "y"), level=2, maxlen=2, fates=("ok",), world=("R", "W"),
                        ensure=True, implwr="code")
    if not ctx.quick():
        cases += X.generate(ctx, n // 2, ctx.seed + 7, K=4, acc=("x", "y"), level=4, maxlen=2,
                            fates=("ok", "retry1"), maxfail=1)
        cases += X.generate(ctx, n // 2, ctx.seed + 8, K=4, acc=("x", "y"), level=2, maxlen=2,
                            fates=("ok", "retry1"), maxfail=2)
    # directed behaviours (input classes the random walks reach only on some seeds): a retryable first attempt of a
    # transaction that write-locks accounts which do not exist yet, dispatched after a committed world-lock transaction
    import json, os
    dfile = os.path.join(os.path.dirname(os.path.abspath(__file__)), "..", "..", "spec", "exec", "Directed_ParallelExec.ndjson")
    directed = [json.loads(l) for l in open(dfile) if l.strip()]
    cases = directed + cases
    # 3. replay: sequential executor, the TLC schedule on the concurrent executor, one free-running execution
    recs = X.replay(ctx, cases, shards=ctx.pick(2, 4))
    # 4. the recorded free-running executions are validated by TLC
    X.validate_traces(ctx, recs, {"b%d" % i: c for i, c in enumerate(cases)})
    for c in cases[:2]:
        ctx.sample([{k: s[k] for k in ("op", "t", "i", "k", "a", "val", "out")} | ({"prog": s["prog"]} if s["op"] == "top" else {})
                    for s in c["steps"]])
    return ctx.finish(
        rule="a case = one block of K scripted transactions (lock declarations, <= 2 balance reads/writes, at most one "
             "retryable failure) with one TLC-chosen complete schedule; executed three times on the real code: "
             "sequential executor, concurrent executor following the schedule step by step (parked goroutines are "
             "let run ahead), concurrent executor free-running with seeded delays (recorded, validated by TLC); "
             "distinct by programs + schedule",
        assumptions=["accounts are touched only through contract.Context.GetAccountState balance reads/writes of a "
                     "harness transaction type; real contracts / EE are not involved",
                     "programs only touch accounts they declared (as transaction handlers do)",
                     "the world read lock is modelled in two variants: schedules come from the variant that matches the code "
                     "(later writers do not wait for a world reader), values are judged against sequential execution",
                     "interleavings inside one worldVirtualState method are not explored (they run under its mutex)"])
