"""Shared stages of C09 / C10 (spec/exec/ParallelExec.tla, harness/parexec)."""
import json
import os

from vlib import MachineryError

ACTIONS = ["TopFail", "Top", "TopRefuse", "Ensure", "Spawn", "Begin", "Step", "EndExec", "Commit", "Exit", "Cancel"]


def tla_set(xs):
    return "{" + ", ".join('"%s"' % x for x in xs) + "}"


def consts(K=3, acc=("x",), level=2, maxlen=1, fates=("ok",), maxfail=1, world=("W",), ensure=False, impl="required",
           implwr="required", cancel=False, initvals=(0,), maxops=0):
    if world is True:
        world = ("W",)
    elif world is False:
        world = ()
    return dict(K=K, Acc=tla_set(acc), Level=level, Impl='"%s"' % impl, MaxLen=maxlen, Fates=tla_set(fates),
                MaxFail=maxfail, WorldTx=tla_set(world), EnsureTx="TRUE" if ensure else "FALSE",
                ImplWR='"%s"' % implwr, CancelOn="TRUE" if cancel else "FALSE",
                InitVals="{" + ", ".join(str(v) for v in initvals) + "}", RetryCount=2, MaxOps=maxops)


def model_check(ctx, label, allow_zero=(), **kw):
    r = ctx.model_check("exec", "MC_ParallelExec", "MC_ParallelExec.cfg", constants=consts(**kw), coverage=True,
                        timeout=ctx.pick(900, 3000), label=label)
    if not kw.get("ensure"):
        allow_zero = tuple(allow_zero) + ("Ensure",)
    if not set(kw.get("fates", ())) & {"nohandler", "noprep"}:
        allow_zero = tuple(allow_zero) + ("TopRefuse",)
    if not kw.get("cancel"):
        allow_zero = tuple(allow_zero) + ("Cancel",)
    ctx.check_coverage(r, [a for a in ACTIONS if a not in allow_zero], allow_zero=allow_zero)
    return r


def generate(ctx, n, seed, cfg="Gen_ParallelExec.cfg", **kw):
    """n random complete executions (TLC -simulate) of one block; returns input objects for the driver."""
    c = consts(maxops=80, **kw)
    bs = ctx.behaviours("exec", "Gen_ParallelExec", cfg, constants=c,
                        simulate="num=%d" % n, depth=81, seed=seed, timeout=1500)
    acc = sorted(kw.get("acc", ("x",)))
    res = []
    for b in bs:
        if b and b[-1]["op"] in ("exit", "topfail", "toprefuse") and b[-1].get("seq"):
            res.append(dict(level=kw.get("level", 2), k=kw.get("K", 3), acc=acc, steps=b))
    # (the simulator also prints the sibling successors of a walk's last step, e.g. one refusal per program)
    cap = 2 * n
    if len(res) > cap:
        res = [res[(i * len(res)) // cap] for i in range(cap)]
    return res


def replay(ctx, cases, shards=2):
    inp = ctx.path("in", "behaviours.ndjson")
    with open(inp, "w") as fh:
        for c in cases:
            fh.write(json.dumps(c) + "\n")
    recs = ctx.go_replay("parexec", "TestReplay", inp, shards=shards, timeout=ctx.pick(1200, 3000))
    ctx.absorb(recs)
    return recs


def validate_traces(ctx, recs, cases_by_id, maxfates=("ok", "fatal", "retry1", "retryx", "nohandler", "noprep", "retryh")):
    """Recorded free-running executions of the real executor are checked by TLC against Trace_ParallelExec:
    accepted iff TLC finds an interleaving of the per-goroutine event logs that is a behaviour of the spec."""
    by = {}
    for r in recs:
        ex = r.get("extra") if isinstance(r, dict) else None
        if r.get("status") == "ok" and ex and ex.get("trace"):
            key = (ex["level"], len(ex["trace"]["progs"]), tuple(sorted(ex["trace"]["progs"][0]["lock"].keys())))
            by.setdefault(key, []).append((r["case"], ex["trace"]))
    total = 0
    for (level, k, acc), items in sorted(by.items()):
        c = consts(K=k, acc=acc, level=level, maxlen=2, fates=maxfates, maxfail=k, world=("R", "W"), ensure=True,
                   implwr="code", initvals=(0, 9))

        def accepted(trs, label):
            data = "".join(json.dumps(t, sort_keys=True) + "\n" for t in trs)
            r = ctx.tlc("exec", "Trace_ParallelExec", "Trace_ParallelExec.cfg", constants=c, dfs=True, workers=1,
                        extra_files={"trace.ndjson": data}, expect_violation=True, count=False, timeout=1500,
                        label=label)
            if r.violation not in (None, "NotAccepted"):
                raise MachineryError("trace validation: unexpected TLC result %s" % r.violation)
            return r.violation == "NotAccepted"

        trs = [t for _, t in items]
        if accepted(trs, "traces level %d (%d runs)" % (level, len(trs))):
            total += len(trs)
            continue
        # locate the rejected executions (bisect, at most a few are reported)
        bad = []
        todo = [items]
        while todo and len(bad) < 3:
            part = todo.pop()
            if accepted([t for _, t in part], "bisect %d" % len(part)):
                total += len(part)
                continue
            if len(part) == 1:
                bad.append(part[0])
            else:
                todo += [part[:len(part) // 2], part[len(part) // 2:]]
        for cid, t in bad:
            fails = any(p["fate"] in ("fatal", "retryx") for p in t["progs"])
            ctx.violations.append(dict(
                key="parexec:trace-rejected" + (":failing-block" if fails else ""),
                what="a recorded free-running execution at level %d is not a behaviour of ParallelExec.tla (values "
                     "read / attempt outcomes / block outcome cannot be explained by any interleaving)" % level,
                case=cid, detail=dict(behaviour=cases_by_id.get(cid), trace=t)))
    ctx.traces_validated += total
    ctx.log("trace validation: %d recorded executions accepted" % total)
    return total


def replay_only(ctx):
    d = json.load(open(ctx.replay))["detail"]
    recs = replay(ctx, [d["behaviour"]], shards=1)
    validate_traces(ctx, recs, {"b0": d["behaviour"]})     # the free-running execution of the replay is validated as well
    return ctx.finish(rule="re-execution of one recorded behaviour")


def dev_fast():
    return bool(os.environ.get("VERIF_DEV_SKIP_MC"))   # development knob for mutant self-tests only
