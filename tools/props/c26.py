"""C26 Event log blooms have no false negatives (spec/data/Bloom.tla)."""
import json


def run(ctx):
    if not ctx.replay:
        # 1. exhaustive: ALL call sequences (no length bound: the view drops the history) over 3 blooms and
        #    4 (quick: 2 addresses, value x at positions 0,1) / 5 (thorough: 1 address, values x and "" at 0,1) items
        r = ctx.model_check("data", "MC_Bloom", "MC_Bloom.cfg",
                            constants={"AddrIds": ctx.pick('{"a1", "a2"}', '{"a1"}'),
                                       "ValIds": ctx.pick('{"x"}', '{"x", "e"}'), "MaxPos": 1},
                            coverage=True, timeout=ctx.pick(900, 3400))
        ctx.check_coverage(r, ["AddLog", "AddItem", "Merge", "Collect", "MergeNil", "Roundtrip", "Serialize", "Contain", "Query", "QueryLog"])
        ctx.exhaustive = True
        # 2. behaviours: every pair of calls (BFS, depth 2) + random walks
        bs = ctx.behaviours("data", "Gen_Bloom", "Gen_Bloom.cfg",
                            constants={"AddrIds": ctx.pick('{"a1"}', '{"a1", "a2"}'), "ValIds": '{"x", "e"}', "MaxPos": 1},
                            timeout=1200)
        wl = ctx.pick(14, 24)
        walks = ctx.behaviours("data", "Gen_Bloom", "Gen_Bloom.cfg", constants={"MaxOps": wl, "Depth": wl, "MaxPos": 2},
                               simulate="num=%d" % ctx.pick(60, 600), depth=wl + 1, seed=ctx.seed, timeout=1200)
        # every history of 2 fixed calls (one item into the block bloom, one into the receipt bloom) + 3 calls out of mutate / round trip / serialize on one receipt bloom and the block bloom
        # (serialize - mutate - serialize on the SAME object; read-only queries switched off)
        ser = ctx.behaviours("data", "Gen_Bloom", "Gen_Bloom.cfg",
                             constants={"BloomIds": '{"r1", "blk"}', "AddrIds": '{"a1"}', "ValIds": '{"x"}', "MaxPos": 0,
                                        "Kinds": '{"compress", "rlp", "json"}', "Reads": "FALSE", "Prefill": "TRUE",
                                        "MaxOps": 5, "Depth": 5},
                             timeout=1200)
        allb = bs + walks + ser
    else:
        allb = [json.load(open(ctx.replay))["detail"]["behaviour"]]
    inp = ctx.path("in", "behaviours.ndjson")
    with open(inp, "w") as fh:
        for b in allb:
            fh.write(json.dumps(b) + "\n")
    # 3. replay into txresult.LogsBloom
    recs = ctx.go_replay("bloom", "TestReplay", inp)
    ctx.absorb(recs)
    for r in recs:
        if r.get("summary") and r.get("extra"):
            ctx.notes.append("false positives observed on queries for items that were not added: %s"
                             % r["extra"].get("false_positives"))
    for b in allb[-1:] + allb[:1]:
        ctx.sample([{k: s[k] for k in ("op", "b", "b2", "a", "vs", "item", "kind", "res")} for s in b][:10])
    return ctx.finish(
        rule="a behaviour = one TLC-generated call sequence (AddLog / AddAddressOfLog / AddIndexedOfLog / Merge / "
             "Merge(nil) / Collect (block bloom = merge of the blooms of the receipts read back from a real receipt list) "
             "/ 5 serialization round trips (object replaced by the decoded one) / 5 serializations observed on the SAME "
             "object (must describe its current content; all 3-call mutate/serialize histories) / Contain / single-item and whole-log queries) on two receipt blooms (in "
             "half of the runs living inside real txresult receipts with event logs of 0..3 indexed fields) and a block bloom: all of depth 2 by BFS + random walks; distinct by its call sequence; "
             "non-trivial if it adds or merges something; addresses and values are seeded random bytes",
        assumptions=["SHA3-256 is trusted; a bit is the symbolic term <item, k> in the spec and is evaluated with the "
                     "real hash by the driver (bit k = big-endian uint16 at hash bytes 2k,2k+1 masked to 2048)",
                     "the LZW codec is exercised only through the compress round trip (byte-exactness is C25)",
                     "indexed positions 0..2; a log without indexed values sets nothing (AddLog ignores it)"])
