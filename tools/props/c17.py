"""C17 Merkle Patricia trie is a canonical map (spec/trie/MPT.tla)."""
from . import mptcommon


def run(ctx):
    if not ctx.replay:
        mptcommon.model_check(ctx)
    allb, nbfs, wl = mptcommon.behaviours(ctx)
    # exhaustive only when the complete BFS set of the generator (all behaviours of depth 2) is replayed as well
    ctx.exhaustive = bool(nbfs)
    mptcommon.replay(ctx, allb, "c17")
    mptcommon.sample(ctx, allb)
    return ctx.finish(
        rule="a behaviour = one TLC-generated call sequence (set/delete/snapshot/check/reset/flush/reload/clear-cache) "
             "on a mutable trie with two snapshot slots (random walks of depth %d over a 2- and a 3-symbol nibble "
             "alphabet, thorough: plus all of depth 2); distinct by its (op,key,value,slot) sequence; non-trivial if it "
             "observes a snapshot or a reloaded trie (hash, iteration, filters, shape)" % wl,
        assumptions=["MapDB backend", "keys are whole bytes (even nibble length) of at most 2 bytes built from 2-3 "
                     "nibble symbols mapped order-preservingly to random real nibbles",
                     "values are non-empty (2, 29 or 40 bytes: embedded, boundary and hashed nodes)",
                     "sequential use of one trie; hashes are collision free (symbolic in the spec)"])
