"""C35 Rewards never exceed the term's reward budget (spec/iiss/Reward.tla)."""
import json


def tla_set(xs):
    return "{" + ", ".join('"%s"' % x if isinstance(x, str) else str(x) for x in xs) + "}"


def consts(*, npreps=3, basecount=2, voters=("v1", "v2"), t=3, elected=2, brnum=1, brden=2, rewardp=431910,
           rewardw=43191, minbond=1, amts=(1, 2), rates=(0, 1500), maxbase=2, maxev=2, terms=1, record=True):
    # RewardP * T * 1000 must stay below 2^31 (TLC integers); RewardP and RewardW share a large common factor so
    # that the driver can express them as Iglobal x allocation rates
    assert rewardp * t * 1000 < 2 ** 31
    c = {"NPreps": npreps, "BaseCount": basecount, "Voters": tla_set(voters), "T": t, "Elected": elected,
         "BRNum": brnum, "BRDen": brden, "RewardP": rewardp, "RewardW": rewardw, "MinBond": minbond,
         "Amts": tla_set(amts), "Rates": tla_set(rates), "MaxBase": maxbase, "MaxEv": maxev,
         "Terms": terms, "Record": "TRUE" if record else "FALSE"}
    g = dict(npreps=npreps, basecount=basecount, voters=list(voters), t=t, elected=elected, brnum=brnum, brden=brden,
             rewardp=rewardp, rewardw=rewardw, minbond=minbond)
    return c, g


def run(ctx):
    from concurrent.futures import ThreadPoolExecutor

    def mc():
        # 1. exhaustive: every scenario of 3 P-Rep candidates (2 registered), 2 voters, a term of 3 blocks
        if ctx.quick():
            c, _ = consts(maxbase=1, maxev=1, rates=(0, 1500), record=False)
        else:
            c, _ = consts(maxbase=2, maxev=2, rates=(1500,), record=False)
        import vlib
        return ctx.model_check("iiss", "MC_Reward", "MC_Reward.cfg", constants=c, coverage=True,
                               timeout=ctx.pick(900, 3000), workers=max(2, vlib.NCPU // 2))

    def gen(name, c, g, **kw):
        return (name, g, ctx.behaviours("iiss", "Gen_Reward", "Gen_Reward.cfg", constants=c, **kw))

    def mc2():
        # 1b. two consecutive terms (carry-over of votes, statuses, pruned records, I-Scores), one base vote, one event per term
        c, _ = consts(maxbase=1, maxev=1, rates=(0, 1500), terms=2, record=False)
        import vlib
        return ctx.model_check("iiss", "MC_Reward", "MC_Reward.cfg", constants=c, coverage=False,
                               timeout=3000, workers=max(2, vlib.NCPU // 2))

    import os
    diag = bool(os.environ.get("VERIF_COVER") or os.environ.get("VERIF_NO_MC"))   # statement-coverage diagnostic of the replay stage: no exhaustive stages
    jobs = [mc]
    if not ctx.quick():
        jobs.append(mc2)
    if diag:
        jobs = [lambda: None]
    n = ctx.pick(400, 4000)
    variants = [
        dict(maxbase=4, maxev=6),
        dict(maxbase=4, maxev=5, terms=3),
        dict(maxbase=3, maxev=3, elected=0, rewardw=0, rewardp=431910),
        dict(t=4, elected=1, brnum=0, brden=1, maxbase=4, maxev=6, rewardp=323929, rewardw=0, rates=(0, 10000)),
        dict(npreps=4, basecount=3, voters=("v1", "v2", "v3"), t=4, elected=2, brnum=1, brden=20, amts=(1, 3, 7),
             rates=(0, 1000, 3333), maxbase=6, maxev=5, rewardp=431910, rewardw=86382, minbond=2, terms=2),
        dict(npreps=4, basecount=4, voters=("v1", "v2", "v3"), t=2, elected=3, brnum=1, brden=5, amts=(1, 2, 5),
             rates=(0, 700), maxbase=7, maxev=5, rewardp=907011, rewardw=0),
    ]
    for i, v in enumerate(variants):
        c, g = consts(**v)
        jobs.append(lambda c=c, g=g, i=i: gen("walk%d" % i, c, g, simulate="num=%d" % (n // len(variants)), depth=70,
                                              seed=ctx.seed * 100 + i, timeout=1500))
    # all scenarios with one base vote and one event (BFS)
    c, g = consts(maxbase=1, maxev=1, rates=(1500,))
    jobs.append(lambda c=c, g=g: gen("bfs", c, g, timeout=900, workers=2))
    # all scenarios of two registered P-Reps and one voter with two events in the term (status changes, commission
    # rate changes, votes), no base votes
    c2, g2 = consts(npreps=2, basecount=2, voters=("v1",), maxbase=0, maxev=2, rates=(0, 1500), amts=(1,))
    jobs.append(lambda c=c2, g=g2: gen("bfs2", c, g, timeout=900, workers=2))
    nmc = len(jobs) - len(variants) - 2
    if ctx.replay:
        jobs = jobs[:nmc]
    with ThreadPoolExecutor(max_workers=len(jobs)) as ex:
        futs = [ex.submit(j) for j in jobs]
        res = [f.result() for f in futs]
    r, groups = res[0], res[nmc:]
    if r is not None:
        ctx.check_coverage(r, ["BaseVote", "StartTerm", "Event", "SetStatus", "NextBlock", "Calculate"],
                           allow_zero=("NextTerm", "ClaimIScore", "SetRate"))
    ctx.exhaustive = r is not None
    cases, seen = [], set()
    for name, g, bs in groups:
        for b in bs:
            k = json.dumps([g, b], sort_keys=True)
            if k in seen:
                continue
            seen.add(k)
            cases.append(dict(cfg=g, steps=b))
    if ctx.replay:
        cases = [json.load(open(ctx.replay))["detail"]["behaviour"]]
    inp = ctx.path("in", "scenarios.ndjson")
    with open(inp, "w") as fh:
        for cse in cases:
            fh.write(json.dumps(cse) + "\n")
    ctx.log("%d distinct scenarios" % len(cases))
    # 2. replay: calculator.New end to end (iiss4.go) and the PRepInfo / Voter API (prep.go, voter.go)
    recs = ctx.go_replay("reward", "TestReplay", inp, shards=1 if ctx.replay else 4, timeout=ctx.pick(900, 3000))
    ctx.absorb(recs)
    obs = [r for r in recs if r.get("status") == "skip" and str(r.get("what", "")).startswith("OBSERVATION")]
    if obs:
        ctx.cov["observations_calculation_failed_commission_rate_of_pruned_prep"] = len(obs)
        ctx.notes.append("observation (not a C35 violation, see DESIGN.md 0.5b): in %d generated histories the real calculator "
                         "FAILS the whole term (nothing credited), as the specification's transcription of the code predicts: %s"
                         % (len(obs), obs[0]["what"][:600]))
    for cse in cases[:2] + cases[-1:]:
        ctx.sample([{k: s[k] for k in ("op", "v", "t", "p", "a", "s", "off", "term") if k in s}
                    for s in cse["steps"] if s["op"] != "calc"][:14])
    return ctx.finish(
        rule="a scenario = one TLC-generated term: base delegations/bonds, vote and enable/disable events at block "
             "offsets, commission-rate changes and I-Score claims inside the term, reward calculation (all scenarios with one base vote and one event by BFS + random walks over "
             "six parameter sets (one without elected P-Reps), two of them with 2-3 consecutive terms whose votes, statuses and I-Scores carry over); distinct by its vote/event sequence and commission rates; non-trivial if some "
             "P-Rep earns a reward; every scenario is run through calculator.New end to end and through the "
             "PRepInfo/Voter API, the budget inequalities are evaluated on the real outputs and every output is compared "
             "with the spec's prediction",
        assumptions=["IISS version 4 (GlobalV3) only; no BTP DSA is required (every P-Rep with a Voted record has all public keys); one vote per event; P-Reps and voters are distinct accounts",
                     "vote amounts are small integers times a seeded scale factor (1, a small number or 10^18); "
                     "rewards do not depend on the scale",
                     "penalties, jail states, BTP public keys and commission-rate changes inside the term are not modelled"])
