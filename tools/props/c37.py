"""C37 Proposed transactions are valid for the block being proposed (spec/exec/TxPool.tla)."""
import json
import os


def judge_by_spec(ctx, recs, cases):
    groups = {}
    for r in recs:
        ex = r.get("extra") if isinstance(r, dict) else None
        if r.get("status") not in ("ok", "divergence") or not ex or not ex.get("cands"):
            continue
        case = cases[int(r["case"][1:])]
        key = json.dumps([case["params"], case["accounts"]], sort_keys=True)
        for c in ex["cands"]:
            if c["sel"]:
                groups.setdefault(key, []).append(dict(id="%s:%d" % (r["case"], c["step"]), bt=c["bt"], sel=c["sel"],
                                                       comm=c["comm"]))
    judged = 0
    for key, items in groups.items():
        params, accounts = json.loads(key)
        tset = lambda xs: "{" + ", ".join('"%s"' % a for a in xs) + "}"
        consts = dict(Accounts=tset(accounts), Th=params["Th"], Price=params["Price"], MinStep=params["MinStep"],
                      InitBal=params["InitBal"], Rich=tset(params.get("Rich") or accounts), PoorBal=params.get("PoorBal", 0))
        data = "".join(json.dumps(x, sort_keys=True) + "\n" for x in items)
        r = ctx.tlc("exec", "Check_TxPool", "Check_TxPool.cfg", constants=consts, workers=1, count=False, timeout=900,
                    extra_files={"cands.ndjson": data}, label="spec verdict on %d real Candidate outputs" % len(items))
        from vlib import parse_tagged
        seen = set()
        for j in parse_tagged(r.printed, "R"):
            if j["id"] in seen:
                continue
            seen.add(j["id"])
            judged += 1
            if j["why"] != "ok":
                cid, step = j["id"].split(":")
                item = [x for x in items if x["id"] == j["id"]][0]
                ctx.violations.append(dict(
                    key="txpool:candidate-invalid:" + j["why"],
                    what="step %s: the list TransactionPool.Candidate(block time %d) returned is not a valid block by the "
                         "specification's bookkeeping (%s): %s (initial balance %d, step price %d, threshold %d)"
                         % (step, item["bt"], j["why"],
                            " ".join("#%d(%s->%s value %d limit %d ts %d)" % (t["n"], t["from"], t["to"], t["value"], t["limit"], t["ts"])
                                     for t in item["sel"]), params["InitBal"], params["Price"], params["Th"]),
                    case=cid, detail=dict(behaviour=cases[int(cid[1:])])))
        if len(seen) != len(items):
            from vlib import MachineryError
            raise MachineryError("spec verdict: %d of %d Candidate outputs judged" % (len(seen), len(items)))
    ctx.log("spec verdict: %d real Candidate outputs judged by TxPool.tla" % judged)


def run(ctx):
    gen = dict(Accounts='{"a", "b", "c"}', Values="{0, 1, 2, 3}", Limits="{0, 1, 2}", Sizes="{1, 3}", MaxTs=6, Th=3, Price=1, MinStep=1,
               InitBal=5, Rich='{"a", "b", "c"}', PoorBal=0, MaxN=8, MaxPool=6)
    params = dict(Th=gen["Th"], Price=gen["Price"], MinStep=gen["MinStep"], InitBal=gen["InitBal"], MaxPool=gen["MaxPool"])
    if ctx.replay:
        d = json.load(open(ctx.replay))["detail"]
        inp = ctx.path("in", "behaviours.ndjson")
        with open(inp, "w") as fh:
            fh.write(json.dumps(d["behaviour"]) + "\n")
        recs = ctx.go_replay("txpool", "TestReplay", inp)
        ctx.absorb(recs)
        judge_by_spec(ctx, recs, [d["behaviour"]])
        return ctx.finish(rule="re-execution of one recorded behaviour")
    # 1. exhaustive: every pool built from <= MaxN transfers, every commit, every Candidate(bt, max)
    if not os.environ.get("VERIF_DEV_SKIP_MC"):
        small = dict(Rich='{"a", "b"}', PoorBal=0, Accounts='{"a", "b"}', Values="{0, 2}", Limits="{0, 1}", MaxTs=2, Th=1, Price=1, MinStep=1,
                     InitBal=2, MaxN=2, MaxPool=2)
        r = ctx.model_check("exec", "MC_TxPool", "MC_TxPool.cfg", constants=small, coverage=True,
                            timeout=ctx.pick(600, 1500), label="2 transfers, all fields")
        ctx.check_coverage(r, ["Add", "Commit", "Candidate", "DropOld"], allow_zero=("CheckTxs", "HasTx"))
        sized = dict(small, Limits="{1}", Sizes="{1, 2}")
        r = ctx.model_check("exec", "MC_TxPool", "MC_TxPool.cfg", constants=sized, coverage=True,
                            timeout=ctx.pick(600, 1500), label="2 transfers of two sizes against every byte limit")
        ctx.check_coverage(r, ["Add", "Commit", "Candidate", "DropOld"], allow_zero=("CheckTxs", "HasTx"))
        mid = dict(small, Values="{2}", Limits="{1}", MaxTs=1, MaxN=3, MaxPool=3, InitBal=3)
        r = ctx.model_check("exec", "MC_TxPool", "MC_TxPool.cfg", constants=mid, coverage=True,
                            timeout=ctx.pick(600, 1500), label="3 transfers of value 2, balance 3 (cumulative exhaustion)")
        ctx.check_coverage(r, ["Add", "Commit", "Candidate", "DropOld"], allow_zero=("CheckTxs", "HasTx"))
        if not ctx.quick():
            big = dict(small, MaxTs=2, MaxN=3, MaxPool=3, Limits="{1}")   # (self-transfers doubled the sender/receiver pairs)
            r = ctx.model_check("exec", "MC_TxPool", "MC_TxPool.cfg", constants=big, coverage=True, timeout=3000,
                                label="3 transfers incl. self-transfers, 2 values, 2 timestamps")
            ctx.check_coverage(r, ["Add", "Commit", "Candidate", "DropOld"], allow_zero=("CheckTxs", "HasTx"))
        ctx.exhaustive = True
    # 2. random walks over a larger universe (3 accounts, 8 transfers, pool of 6)
    depth = ctx.pick(16, 22)
    walks = ctx.behaviours("exec", "Gen_TxPool", "Gen_TxPool.cfg", constants=dict(gen, MaxOps=depth, Depth=depth),
                           simulate="num=%d" % ctx.pick(40, 500), depth=depth + 1, seed=ctx.seed, timeout=1500)
    gen2 = dict(gen, Rich='{"a", "b"}', Accounts='{"a", "b"}', Values="{1, 2}", Limits="{1}", MaxTs=4, Th=2, InitBal=4, MaxN=8, MaxPool=8)
    params2 = dict(Th=2, Price=1, MinStep=1, InitBal=4, MaxPool=8)
    walks2 = ctx.behaviours("exec", "Gen_TxPool", "Gen_TxPool.cfg", constants=dict(gen2, MaxOps=depth, Depth=depth),
                            simulate="num=%d" % ctx.pick(40, 500), depth=depth + 1, seed=ctx.seed + 100, timeout=1500)
    # (the simulator also prints the sibling successors of the last step of every walk: keep an evenly spread subset)
    def spread(bs, n):
        return bs if len(bs) <= n else [bs[(i * len(bs)) // n] for i in range(n)]
    walks, walks2 = spread(walks, ctx.pick(1200, 40000)), spread(walks2, ctx.pick(800, 20000))
    # chains: only "a" is funded, the others can spend only what an earlier transaction gave them; transfers of two sizes
    # against every byte limit (a large transfer that does not fit ends the selection, whatever it would have funded)
    gen3 = dict(gen, Values="{2, 3}", Limits="{1}", Sizes="{1, 3}", MaxTs=4, Th=3, InitBal=8, Rich='{"a"}', PoorBal=1)
    params3 = dict(Th=3, Price=1, MinStep=1, InitBal=8, MaxPool=6, Rich=["a"], PoorBal=1)
    walks3 = ctx.behaviours("exec", "Gen_TxPool", "Gen_TxPool.cfg", constants=dict(gen3, MaxOps=depth, Depth=depth),
                            simulate="num=%d" % ctx.pick(40, 500), depth=depth + 1, seed=ctx.seed + 200, timeout=1500)
    walks3 = spread(walks3, ctx.pick(800, 20000))
    # pairs: EVERY behaviour "two new transfers added, then Candidate" over two accounts incl. self-transfers (breadth-first, not
    # sampled): the second transfer is affordable or not only because of the cumulative effect of the first
    genB = dict(gen, Accounts='{"a", "b"}', Rich='{"a", "b"}', Values="{0, 3}", Limits="{1}", Sizes="{1}", MaxTs=1, Th=3, InitBal=4,
                MaxN=2, MaxPool=2)
    paramsB = dict(Th=3, Price=1, MinStep=1, InitBal=4, MaxPool=2)
    pairs = ctx.behaviours("exec", "Gen_TxPool", "Gen_TxPool.cfg", constants=dict(genB, MaxOps=3, Depth=3), timeout=900)
    pairs = [b for b in pairs if [s["op"] for s in b] == ["add", "add", "candidate"] and b[0]["direct"] and b[1]["direct"]
             and b[0]["tx"]["n"] != b[1]["tx"]["n"]]
    ctx.log("pairs: %d behaviours add, add, candidate (all of them)" % len(pairs))
    if not any(len(b[2]["sel"]) == 2 for b in pairs) or not any(len(b[2]["sel"]) == 1 for b in pairs):
        from vlib import MachineryError
        raise MachineryError("vacuity: the pair family has no Candidate call that selects both / only one of the two transfers")
    cases = [dict(params=params, accounts=["a", "b", "c"], steps=b) for b in walks]
    cases += [dict(params=paramsB, accounts=["a", "b"], steps=b) for b in pairs]
    cases += [dict(params=params3, accounts=["a", "b", "c"], steps=b) for b in walks3]
    cases += [dict(params=params2, accounts=["a", "b"], steps=b) for b in walks2]
    sel = [len(s["sel"]) for c in cases for s in c["steps"] if s["op"] == "candidate"]
    ctx.log("cases: %d; Candidate calls %d, with >= 2 selected: %d, max selected %d"
            % (len(cases), len(sel), sum(1 for x in sel if x >= 2), max(sel or [0])))
    if not any(x >= 2 for x in sel):
        from vlib import MachineryError
        raise MachineryError("vacuity: no generated Candidate call selects two or more transactions")
    inp = ctx.path("in", "behaviours.ndjson")
    with open(inp, "w") as fh:
        for c in cases:
            fh.write(json.dumps(c) + "\n")
    # 3. replay into service.TransactionPool; Candidate output re-validated as a block by a real transition
    recs = ctx.go_replay("txpool", "TestReplay", inp, shards=ctx.pick(2, 4), timeout=ctx.pick(900, 2400))
    ctx.absorb(recs)
    # 4. the verdict evaluated by the SPECIFICATION on what the real Candidate returned: every selected transaction in the
    #    window, not committed / repeated, and affordable under the cumulative effect of the ones selected before it
    #    (WhyInvalid of TxPool.tla; independent of the real PreValidate, which the validating transition shares)
    judge_by_spec(ctx, recs, cases)
    for c in cases[:2]:
        ctx.sample([{k: s[k] for k in ("op", "tx", "direct", "res", "bt", "max", "sel", "pool")} for s in c["steps"]][:10])
    return ctx.finish(
        rule="(every real Candidate output is additionally judged by TxPool.tla's WhyInvalid: window, ids, cumulative balance) "
             "a case = one TLC-generated sequence of TransactionPool.Add (new and repeated signed v3 transfers, direct "
             "or relayed), commits of some of them to the locator manager + RemoveList, and Candidate(block time, max "
             "count) calls; every non-empty Candidate output is validated as a block by a real transition on the same "
             "parent state (verdict), selection and pool content are compared with the specification (diagnostic); "
             "distinct by the call sequence; non-trivial if some Candidate call selects a transaction",
        assumptions=["step price 1 and a default step cost are set by a harness set-up block; transfers between EOAs only",
                     "the byte limit of Candidate is not reached (count limit only)",
                     "already-included transactions are those finalized in the locator manager (HasRecent); "
                     "transactions of unfinalized ancestors are outside this property (C11 covers them)",
                     "the proposer's and the validator's TXID managers are separate instances over one DB, as after a restart"])
