"""C37 Proposed transactions are valid for the block being proposed (spec/exec/TxPool.tla)."""
import json
import os


def run(ctx):
    gen = dict(Accounts='{"a", "b", "c"}', Values="{0, 1, 2, 3}", Limits="{0, 1, 2}", MaxTs=6, Th=3, Price=1, MinStep=1,
               InitBal=5, MaxN=8, MaxPool=6)
    params = dict(Th=gen["Th"], Price=gen["Price"], MinStep=gen["MinStep"], InitBal=gen["InitBal"], MaxPool=gen["MaxPool"])
    if ctx.replay:
        d = json.load(open(ctx.replay))["detail"]
        inp = ctx.path("in", "behaviours.ndjson")
        with open(inp, "w") as fh:
            fh.write(json.dumps(d["behaviour"]) + "\n")
        ctx.absorb(ctx.go_replay("txpool", "TestReplay", inp))
        return ctx.finish(rule="re-execution of one recorded behaviour")
    # 1. exhaustive: every pool built from <= MaxN transfers, every commit, every Candidate(bt, max)
    if not os.environ.get("VERIF_DEV_SKIP_MC"):
        small = dict(Accounts='{"a", "b"}', Values="{0, 2}", Limits="{0, 1}", MaxTs=3, Th=1, Price=1, MinStep=1,
                     InitBal=2, MaxN=2, MaxPool=2)
        r = ctx.model_check("exec", "MC_TxPool", "MC_TxPool.cfg", constants=small, coverage=True,
                            timeout=ctx.pick(600, 1500), label="2 transfers, all fields")
        ctx.check_coverage(r, ["Add", "Commit", "Candidate"])
        mid = dict(small, Values="{2}", Limits="{1}", MaxTs=2, MaxN=3, MaxPool=3, InitBal=3)
        r = ctx.model_check("exec", "MC_TxPool", "MC_TxPool.cfg", constants=mid, coverage=True,
                            timeout=ctx.pick(600, 1500), label="3 transfers of value 2, balance 3 (cumulative exhaustion)")
        ctx.check_coverage(r, ["Add", "Commit", "Candidate"])
        if not ctx.quick():
            big = dict(small, MaxTs=2, MaxN=3, MaxPool=3)
            r = ctx.model_check("exec", "MC_TxPool", "MC_TxPool.cfg", constants=big, coverage=True, timeout=3000,
                                label="3 transfers, all fields, 2 timestamps")
            ctx.check_coverage(r, ["Add", "Commit", "Candidate"])
        ctx.exhaustive = True
    # 2. random walks over a larger universe (3 accounts, 8 transfers, pool of 6)
    depth = ctx.pick(16, 22)
    walks = ctx.behaviours("exec", "Gen_TxPool", "Gen_TxPool.cfg", constants=dict(gen, MaxOps=depth, Depth=depth),
                           simulate="num=%d" % ctx.pick(40, 500), depth=depth + 1, seed=ctx.seed, timeout=1500)
    gen2 = dict(gen, Accounts='{"a", "b"}', Values="{1, 2}", Limits="{1}", MaxTs=4, Th=2, InitBal=4, MaxN=8, MaxPool=8)
    params2 = dict(Th=2, Price=1, MinStep=1, InitBal=4, MaxPool=8)
    walks2 = ctx.behaviours("exec", "Gen_TxPool", "Gen_TxPool.cfg", constants=dict(gen2, MaxOps=depth, Depth=depth),
                            simulate="num=%d" % ctx.pick(40, 500), depth=depth + 1, seed=ctx.seed + 100, timeout=1500)
    # (the simulator also prints the sibling successors of the last step of every walk: keep an evenly spread subset)
    def spread(bs, n):
        return bs if len(bs) <= n else [bs[(i * len(bs)) // n] for i in range(n)]
    walks, walks2 = spread(walks, ctx.pick(1200, 40000)), spread(walks2, ctx.pick(800, 20000))
    cases = [dict(params=params, accounts=["a", "b", "c"], steps=b) for b in walks]
    cases += [dict(params=params2, accounts=["a", "b"], steps=b) for b in walks2]
    sel = [len(s["sel"]) for c in cases for s in c["steps"] if s["op"] == "candidate"]
    ctx.log("cases: %d; Candidate calls %d, with >= 2 selected: %d, max selected %d"
            % (len(cases), len(sel), sum(1 for x in sel if x >= 2), max(sel or [0])))
    if not any(x >= 2 for x in sel):
        from vlib import MachineryError
        raise MachineryError("vacuity: no generated Candidate call selects two or more transactions")
    inp = ctx.path("in", "behaviours.ndjson")
    with open(inp, "w") as fh:
        for c in cases:
            fh.write(json.dumps(c) + "\n")
    # 3. replay into service.TransactionPool; Candidate output re-validated as a block by a real transition
    recs = ctx.go_replay("txpool", "TestReplay", inp, shards=ctx.pick(2, 4), timeout=ctx.pick(900, 2400))
    ctx.absorb(recs)
    for c in cases[:2]:
        ctx.sample([{k: s[k] for k in ("op", "tx", "direct", "res", "bt", "max", "sel", "pool")} for s in c["steps"]][:10])
    return ctx.finish(
        rule="a case = one TLC-generated sequence of TransactionPool.Add (new and repeated signed v3 transfers, direct "
             "or relayed), commits of some of them to the locator manager + RemoveList, and Candidate(block time, max "
             "count) calls; every non-empty Candidate output is validated as a block by a real transition on the same "
             "parent state (verdict), selection and pool content are compared with the specification (diagnostic); "
             "distinct by the call sequence; non-trivial if some Candidate call selects a transaction",
        assumptions=["step price 1 and a default step cost are set by a harness set-up block; transfers between EOAs only",
                     "the byte limit of Candidate is not reached (count limit only)",
                     "already-included transactions are those finalized in the locator manager (HasRecent); "
                     "transactions of unfinalized ancestors are outside this property (C11 covers them)",
                     "the proposer's and the validator's TXID managers are separate instances over one DB, as after a restart"])
