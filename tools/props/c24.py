"""C24 Integer and hex encodings are minimal and invertible (spec/codec/IntEnc.tla, spec/codec/HexText.tla)."""
import json


def _write(path, bs):
    with open(path, "w") as fh:
        for b in bs:
            fh.write(json.dumps(b) + "\n")


def run(ctx):
    inv = ["Push", "Dec", "Enc"]
    # 1. exhaustive: the class-level transducer against integer arithmetic, every digit string up to MaxLen
    #    (digit width W = 2 bits; thorough also W = 3), every decoder and every encoder
    ml, n = ctx.pick((5, 3), (8, 6))
    r = ctx.model_check("codec", "MC_IntEnc", "MC_IntEnc.cfg",
                        constants={"W": 2, "MaxLen": ml, "N": n, "Free": ml, "Cap": ml}, coverage=True,
                        timeout=ctx.pick(400, 2400), label="IntEnc W=2")
    ctx.check_coverage(r, inv)
    if not ctx.quick():
        r = ctx.model_check("codec", "MC_IntEnc", "MC_IntEnc.cfg",
                            constants={"W": 3, "MaxLen": 5, "N": 3, "Free": 5, "Cap": 5}, coverage=True, timeout=2400,
                            label="IntEnc W=3")
        ctx.check_coverage(r, inv)
    mt, md = ctx.pick((3, 5), (4, 6))
    r = ctx.model_check("codec", "MC_HexText", "MC_HexText.cfg",
                        constants={"HW": 2, "MaxText": mt, "MaxDigits": md, "Widths": "{2, 4}", "Free": md},
                        coverage=True, timeout=ctx.pick(400, 2400), label="HexText HW=2")
    ctx.check_coverage(r, ["Type", "Parse", "Digit", "Sign", "Present"])
    if not ctx.quick():
        r = ctx.model_check("codec", "MC_HexText", "MC_HexText.cfg",
                            constants={"HW": 3, "MaxText": 2, "MaxDigits": 4, "Widths": "{2, 3}", "Free": 4},
                            coverage=True, timeout=2400, label="HexText HW=3")
        ctx.check_coverage(r, ["Type", "Parse", "Digit", "Sign", "Present"])
    #    JSON forms of byte strings / flags and the validator rules that guard them (HexJson.tla)
    hs = ctx.pick(4, 5)
    r = ctx.model_check("codec", "MC_HexJson", "MC_HexJson.cfg",
                        constants={"HL": 1, "MaxStr": hs, "FreeLen": hs, "Dev": hs}, coverage=True,
                        timeout=ctx.pick(400, 2400), label="HexJson HL=1")
    ctx.check_coverage(r, ["Type", "Judge", "JudgeNull", "MarshalB"])
    ctx.exhaustive = True

    # 2. cases for the real code (W = 8 / HW = 4 instance): int64/uint64 are N = 8 bytes, inputs up to 10 bytes
    if ctx.replay:
        rp = json.load(open(ctx.replay))
        beh = rp["detail"]["behaviour"]
        ie = [beh] if rp["key"].startswith("intenc:") else []
        ht = [beh] if rp["key"].startswith("hextext:") else []
        hj = [beh] if rp["key"].startswith("hexjson:") else []
    else:
        hj = ctx.behaviours("codec", "Gen_HexJson", "Gen_HexJson.cfg",
                            constants={"HL": 32, "MaxStr": 68, "FreeLen": ctx.pick(3, 4), "Dev": 1}, timeout=1800)
        ie = ctx.behaviours("codec", "Gen_IntEnc", "Gen_IntEnc.cfg",
                            constants={"W": 2, "MaxLen": 40, "N": 8, "Free": ctx.pick(1, 3), "Cap": 10}, timeout=1800)
        ht = ctx.behaviours("codec", "Gen_HexText", "Gen_HexText.cfg",
                            constants={"HW": 2, "MaxText": ctx.pick(3, 4), "MaxDigits": 17, "Widths": "{4, 8, 16}",
                                       "Free": ctx.pick(1, 2)}, timeout=1800)
    # 3. replay into common/intconv, common.HexInt*, jsonrpc validator
    if ie:
        inp = ctx.path("in", "intenc.ndjson")
        _write(inp, ie)
        ctx.absorb(ctx.go_replay("intenc", "TestReplay", inp))
    if ht:
        inp = ctx.path("in", "hextext.ndjson")
        _write(inp, ht)
        ctx.absorb(ctx.go_replay("intenc", "TestReplayText", inp))
    if hj:
        inp = ctx.path("in", "hexjson.ndjson")
        _write(inp, hj)
        ctx.absorb(ctx.go_replay("intenc", "TestReplayHexJson", inp))
    th = [b for b in hj if b[0].get("thash")]
    for b in ie[len(ie) // 2:len(ie) // 2 + 2] + ht[-2:] + ht[:1] + th[:1]:
        ctx.sample(b)
    return ctx.finish(
        rule="a case = one TLC-generated behaviour: (a) a byte string over the classes {00, 01-7f, 80-fe, ff} "
             "(all strings whose first digits are free and whose tail repeats/fills, up to 10 bytes; big integers "
             "up to 40 bytes = 320 bits) given to one of the 5 decoders followed by every applicable encoder and the decoders again; (b) a candidate text "
             "over 16 character classes (all strings up to the bound) given to ParseBigInt; (c) a signed hex-digit "
             "number presented in big/int16..64/uint16..64; (d) a candidate text over 10 character classes (all up "
             "to 3/4 characters, texts of 64..68 characters with at most one character off the canonical hash "
             "pattern) given to HexBytes/RawHexBytes/HexHash/HexBool, jsonrpc.HexBytes/HexInt and the validator "
             "rules t_hash/t_rhash/t_bool/t_int, and byte strings written by the three byte types. Each case is concretized 3 (quick) / 5-6 (thorough) "
             "times (class boundaries + seeded random). Distinct by decoder+class string / text / number+type; "
             "non-trivial if the input is not empty",
        assumptions=["digit classes are exact for the code's decisions (checked by TLC against arithmetic only "
                     "for 2- and 3-bit digits; the 8-bit instance is what the Go replay exercises)",
                     "math/big SetBytes/SetString of plain digit strings is trusted to build expected numbers",
                     "64-bit platform (SafeBytesToSize limit is MaxInt64)"])
