"""C11 Replay protection: a transaction is included at most once per chain (spec/exec/TxLocator.tla)."""
import json


def _wrap(b):
    return {"rootTh": b[0]["rootTh"], "group": b[0].get("group", "normal"),
            "steps": [{k: v for k, v in s.items() if k not in ("rootTh", "group")} for s in b]}


def run(ctx):
    if ctx.replay:
        d = json.load(open(ctx.replay))["detail"]
        inp = ctx.path("in", "behaviours.ndjson")
        with open(inp, "w") as fh:
            fh.write(json.dumps(dict(rootTh=d["rootTh"], group=d.get("group", "normal"), steps=d["behaviour"],
                                     delta=d["delta"], salt=d["salt"])) + "\n")
        test = "TestReplayTransitions" if d.get("level") == "transition" else "TestReplay"
        ctx.absorb(ctx.go_replay("txlocator", test, inp))
        return ctx.finish(rule="re-execution of one recorded behaviour")
    import os
    fast = bool(os.environ.get("VERIF_DEV_SKIP_MC"))   # development knob for mutant self-tests only
    # 1. exhaustive model check of the locator model written the way the window requires
    #    (Impl="required"): every tree of blocks, timestamps, thresholds, commit and flush timing
    big = dict(Ids="{a, b}", MaxTs=3, Ths="{1, 2}", MaxNodes=4, MaxList=1)
    small = dict(Ids="{a, b}", MaxTs=4, Ths="{1, 2}", MaxNodes=3, MaxList=2)
    if not fast:
        r = ctx.model_check("exec", "MC_TxLocator", "MC_TxLocator.cfg", constants=small, coverage=True,
                            timeout=ctx.pick(900, 1500), label="required, root+2 blocks, lists<=2")
        ctx.check_coverage(r, ["Block", "Commit", "FlushDone"], allow_zero=("Has", "Restart"))
    if not ctx.quick() and not fast:
        for label, extra in (("forced adds", dict(ForceOn="TRUE")), ("patch group (synchronous flush)", dict(Group='"patch"'))):
            r3 = ctx.model_check("exec", "MC_TxLocator", "MC_TxLocator.cfg", constants=dict(small, **extra), coverage=True,
                                 timeout=1500, label="required, root+2 blocks, " + label)
            ctx.check_coverage(r3, ["Block", "Commit"], allow_zero=("Has", "Restart", "FlushDone"))
        r4 = ctx.model_check("exec", "MC_TxLocator", "MC_TxLocator.cfg",
                             constants=dict(small, MaxNodes=4, MaxTs=3, MaxList=1, RestartOn="TRUE"), coverage=True,
                             timeout=2400, label="required, root+3 trackers (one id per block) with and without a restart")
        ctx.check_coverage(r4, ["Block", "Commit", "FlushDone", "Restart"], allow_zero=("Has",))
    ctx.exhaustive = not fast
    # 1b. the same model with the comparisons as written in manager.go: TLC must derive a duplicate
    #     (this documents that the invariants are not vacuous; it is not a verdict about the code)
    if not ctx.quick() and not fast:
        rc = ctx.tlc("exec", "MC_TxLocator", "MC_TxLocator.cfg",
                     constants=dict(small, Impl='"code"'), expect_violation=True, count=False, timeout=300,
                     label="code variant (expected to violate)")
        if not rc.violation:
            raise_vacuous(ctx)
        ctx.notes.append("Impl=\"code\" variant: TLC reports %s violated (derives the boundary defect from the "
                         "comparisons as written in manager.go)" % rc.violation)

    # 2. behaviours
    #  (a) the complete set of minimal duplicate-rejection scenarios of one transaction id: all behaviours of
    #      `depth` calls whose prefix builds state (accepted blocks, commits, flush completions) and whose last
    #      call is a block the specification rejects as a duplicate of an ancestor / finalized block
    depth = ctx.pick(3, 4)
    bs = ctx.behaviours("exec", "Gen_TxLocator", "Gen_TxLocatorRej.cfg",
                        constants=dict(Ths="{1, 4}", MaxOps=depth, Depth=depth), timeout=1800)
    # (thresholds {1,4}: P(ts 1, th 4) holds ts 4, B(ts 2, th 1), C(ts 3, th 1) -- the transaction is strictly inside the
    #  grandparent's window and strictly beyond the intermediate tracker's bound: "ancestor-skipped" without any boundary equality)
    pure = sum(1 for b in bs if b[-1]["cls"] == "ancestor-skipped")
    if pure == 0:
        raise_vacuous(ctx)
    #  (b) random walks through larger trees with two and three ids (all calls incl. Has, rejected blocks)
    gen = dict(Ids='{"a", "b"}', MaxTs=5, Ths="{1, 2, 3}", MaxNodes=5, MaxList=2)
    wl = ctx.pick(9, 12)
    walks = ctx.behaviours("exec", "Gen_TxLocator", "Gen_TxLocator.cfg",
                           constants=dict(gen, MaxOps=wl, Depth=wl), simulate="num=%d" % ctx.pick(300, 6000),
                           depth=wl + 1, seed=ctx.seed, timeout=1200)
    wl2 = ctx.pick(8, 10)
    walks2 = ctx.behaviours("exec", "Gen_TxLocator", "Gen_TxLocator.cfg",
                            constants=dict(gen, Ids='{"a"}', Ths="{1, 4}", MaxList=1, MaxNodes=6, ForceOn="TRUE", RestartOn="TRUE",
                                           MaxOps=wl2, Depth=wl2),
                            simulate="num=%d" % ctx.pick(300, 6000), depth=wl2 + 1, seed=ctx.seed + 1000, timeout=1200)
    #  (c) the same walks in the patch group (synchronous flush in commitTracker), with forced adds
    walks3 = ctx.behaviours("exec", "Gen_TxLocator", "Gen_TxLocator.cfg",
                            constants=dict(gen, Group='"patch"', ForceOn="TRUE", MaxOps=wl2, Depth=wl2),
                            simulate="num=%d" % ctx.pick(150, 3000), depth=wl2 + 1, seed=ctx.seed + 2000, timeout=1200)
    #  (d) the restart scenario, every parameter free: a block with "a" finalized and flushed, restart (new manager over the
    #      same DB, new root tracker with timestamp 0), a block with "b" finalized and flushed (its flush may evict the root
    #      list), then a block that may repeat "a", which is only in the database now
    scen = ctx.behaviours("exec", "Gen_TxLocator", "Gen_TxLocatorPat.cfg", constants=dict(MaxTs=ctx.pick(3, 4)), timeout=1500)
    dbonly = sum(1 for b in scen if b[-1]["res"] == "dup" and b[-1]["cls"] in ("finalized", "ts-eq-upper-bound"))
    ctx.log("restart scenarios: %d, ending in a duplicate that is only in the database: %d" % (len(scen), dbonly))
    if dbonly == 0:
        raise_vacuous(ctx)
    allb = [_wrap(b) for b in bs + walks + walks2 + walks3 + scen]
    inp = ctx.path("in", "behaviours.ndjson")
    with open(inp, "w") as fh:
        for b in allb:
            fh.write(json.dumps(b) + "\n")
    rejected = sum(1 for b in allb for s in b["steps"] if s["op"] == "block" and s["res"] == "dup")
    classes = sorted({s["cls"] for b in allb for s in b["steps"] if s["op"] == "block" and s["res"] == "dup"})
    ctx.log("behaviours: %d, rejected duplicate blocks in them: %d, classes %s" % (len(allb), rejected, classes))
    if rejected == 0:
        raise_vacuous(ctx)
    # 3. replay into txlocator.NewManager + service.NewTXIDManager / TXIDLogger + window check
    recs = ctx.go_replay("txlocator", "TestReplay", inp, shards=ctx.pick(2, 4), timeout=ctx.pick(600, 1800))
    ctx.absorb(recs)
    # 3b. transition level: the behaviours whose blocks all use one threshold (it is read from the world state) are
    #     replayed as real transitions (ensureRecordTXIDs + validateTxs of really executed blocks, FinalizeTransition)
    same = [b for b in allb if b["group"] == "normal" and not any(s["op"] == "restart" or s.get("force") for s in b["steps"])
            and all(s["th"] == b["rootTh"] for s in b["steps"] if s["op"] == "block")]
    if not ctx.quick():
        extra = ctx.behaviours("exec", "Gen_TxLocator", "Gen_TxLocatorRej.cfg",
                               constants=dict(Ths="{2}", MaxOps=4, Depth=4), timeout=1800)
        same += [_wrap(b) for b in extra]
    same = same[:ctx.pick(1500, 15000)]
    inp2 = ctx.path("in", "transitions.ndjson")
    with open(inp2, "w") as fh:
        for b in same:
            fh.write(json.dumps(b) + "\n")
    ctx.log("transition-level replay of %d behaviours with one threshold" % len(same))
    recs2 = ctx.go_replay("txlocator", "TestReplayTransitions", inp2, shards=ctx.pick(2, 4), timeout=ctx.pick(600, 1800))
    ctx.absorb(recs2)
    for b in (walks[:1] + bs[-1:]):
        ctx.sample([{k: s[k] for k in ("op", "n", "p", "ts", "th", "l", "id", "res", "cls")} for s in b])
    return ctx.finish(
        rule="a behaviour = one TLC-generated sequence of block validations (New+Add+window check), commits, flush "
             "completions and Has queries on a tree of blocks (all %d-call scenarios ending in a duplicate rejection by "
             "BFS + %d random walks of depth %d/%d); "
             "distinct by its call sequence and timestamp assignment; non-trivial if it contains a rejected block or a "
             "positive Has; the behaviours with one threshold are replayed a second time as real transitions"
             % (depth, len(walks) + len(walks2), wl, wl2),
        assumptions=["a restart is a new manager over the same DB after Term() (unfinalized blocks are dropped; the forced re-add of the last block at start-up is not modelled)",
                     "block timestamps strictly increase along a chain; thresholds may differ per block",
                     "a block is validated by New+Add back to back (as transition.ensureRecordTXIDsInLock does); "
                     "forced Add only for lists that would pass (as for blocks validated before)",
                     "timestamps/thresholds are multiples of a seeded unit (1 us .. 60 s)",
                     "DB backend is the in-memory MapDB; flush-worker timing is controlled by a gate in the "
                     "locator bucket (hook common/txlocator/verif_export.go gives a read-only snapshot)"])


def raise_vacuous(ctx):
    from vlib import MachineryError
    raise MachineryError("vacuity: the generated behaviours / code variant exercise no duplicate rejection")
