"""C36 Addresses have one canonical text and byte form (spec/codec/Address.tla)."""
import json

ACTIONS = ["Type", "PushByte", "Start", "Strict", "LenientCall", "Validate", "PrintCall", "BytesCall", "FromBytesCall",
           "NewCall", "IsContractCall", "CopyCall", "EqualCall", "CodecCall"]


def run(ctx):
    # 1. exhaustive: ids of L = 1 byte, every string over the 12 character classes up to MaxStr characters and
    #    every byte string up to 3 bytes, all calls of both pipelines
    ms = ctx.pick(4, 5)
    r = ctx.model_check("codec", "MC_Address", ctx.pick("MC_Address.cfg", "MCT_Address.cfg"),
                        constants={"L": 1, "MaxStr": ms, "MaxBytes": 3, "FreeLen": ms, "Dev": ms},
                        coverage=True, timeout=ctx.pick(400, 2400), label="L=1 all strings")
    ctx.check_coverage(r, ACTIONS)
    if not ctx.quick():
        r = ctx.model_check("codec", "MC_Address", "MCT_Address.cfg",
                            constants={"L": 2, "MaxStr": 7, "MaxBytes": 4, "FreeLen": 3, "Dev": 2},
                            coverage=True, timeout=2400, label="L=2 shaped")
        ctx.check_coverage(r, ACTIONS)
    ctx.exhaustive = True
    # 2. behaviours for the real code: L = 20
    if ctx.replay:
        bs = [json.load(open(ctx.replay))["detail"]["behaviour"]]
    else:
        bs = ctx.behaviours("codec", "Gen_Address", "Gen_Address.cfg",
                            constants={"L": 20, "MaxStr": 44, "MaxBytes": 43, "FreeLen": ctx.pick(3, 4), "Dev": 1},
                            timeout=1800)
    if not ctx.replay:
        # vacuity guard on the generated behaviours: both families must reach accepted addresses
        import vlib
        n_strict = sum(1 for b in bs if b[0]["op"] == "strict" and b[0]["ok"])
        n_b21 = sum(1 for b in bs if b[0]["op"] == "frombytes" and b[0]["ok"] and len(b[0]["bytes"]) == 21)
        n_b21rej = sum(1 for b in bs if b[0]["op"] == "frombytes" and not b[0]["ok"] and len(b[0]["bytes"]) == 21)
        n_b20 = sum(1 for b in bs if b[0]["op"] == "frombytes" and b[0]["ok"] and len(b[0]["bytes"]) == 20)
        n_new = sum(1 for b in bs if b[0]["op"] == "new" and len(b) == 12)
        n_nil = sum(1 for b in bs if b[0]["op"] == "equal" and b[-1]["op"] == "codec" and b[-1]["nil"])
        if min(n_strict, n_b21, n_b21rej, n_b20, n_new, n_nil) == 0:
            raise vlib.MachineryError("vacuity: generator produced no accepted strict string / 21-byte form / "
                                      "rejected type byte / 20-byte form: %s" % [n_strict, n_b21, n_b21rej, n_b20, n_new, n_nil])
    inp = ctx.path("in", "address.ndjson")
    with open(inp, "w") as fh:
        for b in bs:
            fh.write(json.dumps(b) + "\n")
    # 3. replay into common.Address / jsonrpc validator
    ctx.absorb(ctx.go_replay("address", "TestReplay", inp))
    full = [b for b in bs if len(b) >= 8]
    for b in full[:1] + bs[len(bs) // 2:len(bs) // 2 + 1] + bs[-1:]:
        ctx.sample([{k: v for k, v in s.items() if k not in ("bytes",)} for s in b])
    return ctx.finish(
        rule="a behaviour = a candidate string (every string over 12 character classes up to FreeLen characters; "
             "strings of 40..44 characters with at most one character off the canonical pattern, at any position) "
             "or a byte string (0,1,19,20,21,22,42 bytes, 5 classes of first byte) followed by the fixed pipeline "
             "of calls (SetStringStrict, SetString, 3 validator rules, String, Bytes, SetBytes / SetBytes, String, "
             "SetStringStrict, Bytes), or id bytes of 0,1,19..22 bytes given to NewAccountAddress/NewContractAddress "
             "followed by IsContract, String, SetStringStrict, Bytes, SetBytes, Equal against the same/other "
             "type/other id/nil address and the codec form, or the nil address; each concretized 3/6 times; distinct by its class string; non-trivial if "
             "the input is not empty",
        assumptions=["ASCII candidate strings (multi-byte characters are not generated)",
                     "encoding/hex is trusted to build expected ids from concretized digits",
                     "digit/character classes are exact for the code's decisions (checked by TLC for L = 1, 2)"])
