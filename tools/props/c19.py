"""C19 Layered database writes are all-or-nothing (spec/state/LayerDB.tla)."""
import json


def run(ctx):
    # 1. exhaustive model check: every history of <= MaxOps calls over 2 buckets x 2 keys x 2 values
    maxops = ctx.pick(5, 7)
    r = ctx.model_check("state", "MC_LayerDB", "MC_LayerDB.cfg", constants={"MaxOps": maxops},
                        coverage=True, timeout=ctx.pick(300, 1500))
    ctx.check_coverage(r, ["Set", "Delete", "Get", "BaseSet", "Commit", "Discard"])
    ctx.exhaustive = True
    # 2. behaviours: all of depth 3 (BFS) + random walks
    depth = ctx.pick(3, 4)
    bs = ctx.behaviours("state", "Gen_LayerDB", "Gen_LayerDB.cfg", constants={"MaxOps": depth, "Depth": depth},
                        timeout=600)
    wl = ctx.pick(24, 40)
    walks = ctx.behaviours("state", "Gen_LayerDB", "Gen_LayerDB.cfg", constants={"MaxOps": wl, "Depth": wl},
                           simulate="num=%d" % ctx.pick(1500, 20000), depth=wl + 1, seed=ctx.seed, timeout=900)
    allb = bs + walks
    if ctx.replay:
        allb = [json.load(open(ctx.replay))["detail"]["behaviour"]]
    inp = ctx.path("in", "behaviours.ndjson")
    with open(inp, "w") as fh:
        for b in allb:
            fh.write(json.dumps(b) + "\n")
    # 3. replay into db.NewLayerDB over a MapDB
    recs = ctx.go_replay("layerdb", "TestReplay", inp)
    ctx.absorb(recs)
    for b in (walks[:1] + bs[-2:]):
        ctx.sample([{k: s[k] for k in ("op", "b", "k", "v", "res")} for s in b])
    return ctx.finish(
        rule="a behaviour = one TLC-generated call sequence on the layer (all of depth %d by BFS + %d random "
             "walks of depth %d); distinct by its (op,bucket,key,value) sequence; non-trivial if it contains a "
             "commit or discard" % (depth, len(walks), wl),
        assumptions=["base store is the in-memory MapDB backend", "values are non-empty byte strings",
                     "single-threaded use of one layer (each call is one critical section)"])
