"""Shared pipeline of C01 and C02: TLC-generated environment schedules (CsEnv) and directed schedules are
executed against real consensus engines by harness/csnode; the recorded traces are validated by TLC against
the per-validator safety contract (Trace_CsContract over CsContract.tla)."""
import glob, json, os, random
import vlib

C01_KINDS = {"precommit-without-polka", "prevote-against-lock", "precommit-against-lock", "proposal-against-lock",
             "proposal-not-proposer", "finalize-without-quorum", "finalized-twice", "disagreement"}
C02_KINDS = {"equivocation", "proposal-equivocation", "sent-before-durable"}


def env_behaviours(ctx, n, *, max_crash, max_ops, seed_off=0):
    """n schedules: round-structured (CsScript) and free-form (CsEnv) walks at height 1, and two-height schedules: the
    engine is handed block 1 with its commit votes (fast-sync path), then a CsScript walk generated for height 2
    (other proposer rotation; restarts there exercise the commit-WAL / last-votes restore)."""
    n2 = n // 4
    n3 = n // 5
    n1 = n - n2 - n3
    a = _walks(ctx, "Gen_CsScript", n1 - n1 // 2, dict(MaxOps=max_ops + 8, MaxCrash=max_crash, MaxRound=2), 3 * max_ops + 20, seed_off)
    b = _walks(ctx, "Gen_CsEnv", n1 // 2, dict(MaxOps=max_ops, Depth=max_ops, MaxCrash=max_crash), 3 * max_ops, seed_off + 1)
    c = _walks(ctx, "Gen_CsScript", n2, dict(H=2, MaxOps=max_ops + 4, MaxCrash=max_crash, MaxRound=1), 3 * max_ops + 20, seed_off + 2)
    two = []
    for w in c:
        others = [i for i in range(4) if i != w["me"]]
        pre = [{"op": "block", "r": 0, "from": others, "val": "B%d" % others[0]}, {"op": "height", "r": 0}]
        two.append(dict(me=w["me"], byz=w.get("byz", 0), steps=pre + w["steps"], heights=2))
    return a + b + two + abstract_schedules(ctx, n3, seed_off=seed_off + 3)


def _walks(ctx, gen, n, consts, depth, seed_off):
    """(the simulator also prints sibling successors of every walk; they are valid behaviours too)"""
    bs = ctx.behaviours("consensus", gen, gen + ".cfg", constants=consts,
                        simulate="num=%d" % max(150, 2 * n), depth=depth, seed=ctx.seed + seed_off, timeout=900)
    rnd = random.Random(ctx.seed + seed_off)
    rnd.shuffle(bs)
    # TLC generates, this ranks: half of the budget goes to the walks that look most likely to drive the engine through
    # locking / unlocking / committing / restarting in the middle of it, the other half is taken as it comes
    seen, uniq = set(), []
    for b in bs:
        k = json.dumps([b["me"]] + b["steps"][:6], sort_keys=True)
        if k not in seen:
            seen.add(k)
            uniq.append(b)
    ranked = sorted(uniq, key=lambda b: -interest(b))
    out = ranked[:n // 2]
    for b in uniq:
        if len(out) >= n:
            break
        if b not in out:
            out.append(b)
    return out


def interest(b):
    """Heuristic score of a CsEnv walk: proposals that are followed by prevote/precommit quorums for the same value,
    value changes after a possible lock, crashes placed after such quorums, late votes of an earlier round."""
    score = 0
    proposed = {}
    polka = {}
    locked_at = None
    me = b["me"]
    for i, s in enumerate(b["steps"]):
        if s["op"] == "proposal":
            proposed[s["r"]] = s["val"]
            if s["val"] == "B%d" % ((1 + s["r"]) % 4) or s["pol"] >= 0:
                score += 1
        elif s["op"] == "votes":
            k = len(s["from"])
            if s["type"] == "pv" and s["val"] != "nil" and k >= 2 and (proposed.get(s["r"]) == s["val"] or (1 + s["r"]) % 4 == me):
                score += 3
                polka[s["r"]] = s["val"]
                if locked_at is not None and s["r"] > locked_at[0] and s["val"] != locked_at[1]:
                    score += 3          # a later polka for something else: unlock path
                if locked_at is None:
                    locked_at = (s["r"], s["val"])
            if s["type"] == "pc" and k >= 2:
                score += 2 if s["val"] != "nil" and polka.get(s["r"]) == s["val"] else 1
                if k == 3 and s["val"] != "nil" and locked_at is not None and s["val"] != locked_at[1]:
                    score += 4          # the others commit another block than the one the engine may be locked on
            if locked_at is not None and s["r"] < max(polka) and s["type"] == "pv":
                score += 1              # late prevotes of an earlier round
        elif s["op"] == "block":
            score += 3
        elif s["op"] == "crash":
            score += 2 if polka else 0
        elif s["op"] == "wait":
            score += 1 if i > 0 else 0
    return score


IDX = {"c": 1, "byz": 2, "a": 3, "b": 0}     # OrderDef of Gen_CsAbstract = <<c, byz, a, b>>: proposer(1, r) = (1 + r) % 4


def compile_abstract(beh, me, rnd):
    """Project one CsAbstract behaviour on the correct validator `me` and compile it into a schedule for a real
    engine (DESIGN.md Appendix D.5): what the other validators show it, which votes are withheld until the abstract
    behaviour lets it learn of them (unlock / commit), timer waits and restarts. Best effort: the engine may react
    differently from the abstract step; the verdict is CsContract on what it really did."""
    mi = IDX[me]
    others = [n for n in IDX if n != me]
    names, polkas, steps = {}, {}, []
    held_pv, held_pc, shown_pc = {}, {}, {}
    prop = {}
    nxt_g = {}
    for k, st in enumerate(beh):
        if st["a"] == "precommit":
            nxt_g[st["r"]] = st["g"].get(me, "abstain")

    def bind(v, proposer):
        if v not in names:
            names[v] = "own" if proposer == me else "B%d" % IDX[proposer]
        return names[v]

    def votes(t, r, pairs):
        by = {}
        for j, v in pairs:
            by.setdefault(v, []).append(IDX[j])
        return [dict(op="votes", type=t, r=r, val=v, **{"from": sorted(f)}) for v, f in by.items()]

    for st in beh:
        a, r = st["a"], st.get("r")
        if a == "propose":
            prop[r] = (st["proposer"], st["prop"])
        elif a == "prevote":
            p, pv = prop.get(r, ("byz", "none"))
            f, polka = st["f"], st["polka"]
            polkas[r] = polka
            vme = f.get(me, "none")
            if p == me:
                if pv not in ("none", "any"):
                    bind(pv, me)
            elif vme not in ("none", "nil"):
                pol = max([q for q in polkas if q < r and polkas[q] == vme], default=-1)
                steps.append(dict(op="proposal", r=r, val=bind(vme, p), pol=pol, **{"from": IDX[p]}))
            elif vme == "nil":
                steps.append(dict(op="wait"))
            pairs = []
            for j in others:
                v = (polka if polka != "none" else "nil") if j == "byz" else f.get(j, "none")
                if v == "none":
                    continue
                v = "nil" if v == "nil" else names.get(v) or bind(v, p)
                pairs.append((j, v))
            g = nxt_g.get(r, "abstain")
            if g == "locknosend":
                # power loss inside the precommit step: after the lock WAL was synced, before the precommit leaves
                # (effects: round-WAL vote list, lock-WAL vote list + part, lock-WAL sync | round-WAL vote, sync, send)
                steps.append(dict(op="crash", mode=rnd.choice(["all", "torn", "synced"]), k=4))
                steps += votes("pv", r, pairs)
            elif g in ("lock", "nilpolka"):
                steps += votes("pv", r, pairs)
            elif g == "timeout" and pairs:
                steps += votes("pv", r, pairs[:1]) + votes("pv", r, [("byz", "nil")] if pairs[0][0] != "byz" else pairs[1:2])
                steps.append(dict(op="wait"))
                held_pv[r] = pairs[1:]
            else:
                held_pv[r] = pairs
        elif a == "precommit":
            g, polka, pcq = st["g"], st["polka"], st["pcq"]
            pairs = []
            for j in others:
                if j == "byz":
                    v = pcq if pcq != "none" else "nil"
                else:
                    gj = g.get(j, "abstain")
                    v = polka if gj == "lock" else ("none" if gj in ("abstain", "locknosend") else "nil")
                if v == "none":
                    continue
                pairs.append((j, "nil" if v == "nil" else names.get(v, v)))
            steps += votes("pc", r, [(j, v) for j, v in pairs if v == "nil"])
            held_pc[r] = [(j, v) for j, v in pairs if v != "nil"]
            shown_pc[r] = [j for j, v in pairs if v == "nil"]
        elif a == "unlock" and st["i"] == me:
            steps += votes("pv", st["r"], held_pv.pop(st["r"], []))
        elif a == "commit" and st["i"] == me:
            steps += votes("pc", st["r"], held_pc.pop(st["r"], []))
            steps.append(dict(op="wait"))
        elif a == "crash" and st["i"] == me:
            steps.append(dict(op="crash", mode=rnd.choice(["graceful", "torn", "all", "synced"]), k=1000))
        elif a == "nextround":
            # a real engine leaves a round through its precommit timeout, which needs +2/3 precommits of any kind:
            # top up what it was shown (the Byzantine validator may show nil to it, one held precommit may arrive)
            # without completing a quorum for a value
            r = st["r"]
            shown = shown_pc.get(r, [])
            extra = []
            if len(shown) < 2 and "byz" not in shown:
                extra.append(("byz", "nil"))
                held_pc[r] = [(j, v) for j, v in held_pc.get(r, []) if j != "byz"]
            if len(shown) + len(extra) < 2 and held_pc.get(r):
                extra.append(held_pc[r].pop(0))
            shown_pc[r] = shown + [j for j, _ in extra]
            steps += votes("pc", r, extra)
            steps.append(dict(op="wait"))
    return dict(me=mi, byz=IDX["byz"], steps=[s for s in steps if s.get("op") != "votes" or s["from"]], origin="CsAbstract/" + me)


def abstract_schedules(ctx, n, *, cex=False, seed_off=0):
    """Schedules compiled from behaviours of the exhaustively checked design model (or, with cex, from the
    disagreement behaviours of its sensitivity configuration)."""
    rnd = random.Random(ctx.seed + seed_off)
    if cex:
        bs = ctx.behaviours("consensus", "Gen_CsAbstract", "Gen_CsAbstractCex.cfg", timeout=1800)
    else:
        bs = ctx.behaviours("consensus", "Gen_CsAbstract", "Gen_CsAbstract.cfg", simulate="num=%d" % max(100, 3 * n),
                            depth=60, seed=ctx.seed + seed_off, timeout=900)
    rnd.shuffle(bs)
    out, seen = [], set()
    for b in bs:
        crashed = [s["i"] for s in b if s["a"] == "crash"]
        active = [m for m in ("a", "b", "c") if any(s["a"] == "precommit" and s["g"].get(m) == "lock" for s in b)]
        for me in (crashed or active or ["a"])[:2]:
            sc = compile_abstract(b, me, rnd)
            k = json.dumps(sc["steps"], sort_keys=True)
            if len(sc["steps"]) >= 4 and k not in seen:
                seen.add(k)
                out.append(sc)
        if len(out) >= n:
            break
    return out[:n]


def cluster_abstract_cases(ctx, n, *, cex=False, seed_off=0):
    """CsAbstract behaviours for harness/csnode TestClusterAbstract: two of the three correct validators run the real
    engine (for counterexamples: the two that decide differently)."""
    rnd = random.Random(ctx.seed + seed_off)
    if cex:
        bs = ctx.behaviours("consensus", "Gen_CsAbstract", "Gen_CsAbstractCex.cfg", timeout=1800)
    else:
        bs = ctx.behaviours("consensus", "Gen_CsAbstract", "Gen_CsAbstract.cfg", simulate="num=%d" % max(100, 4 * n),
                            depth=60, seed=ctx.seed + seed_off, timeout=900)
    rnd.shuffle(bs)
    out = []
    for b in bs:
        commits = {}
        for s in b:
            if s["a"] == "commit":
                commits.setdefault(s["val"], []).append(s["i"])
        if cex:
            if len(commits) < 2:
                continue
            # real engines: the validator that restarts and decides one value, and a validator that decides the other
            # value; the third correct validator is fabricated (a real proposer cannot be made to re-propose an old value
            # unless it is locked, a fabricated one can)
            crashed = [s["i"] for s in b if s["a"] == "crash"]
            dec = {i: v for v, l in commits.items() for i in l}
            pair = [(i, j) for i in crashed if i in dec for j in dec if dec[j] != dec[i]]
            if not pair:
                continue
            real = list(pair[0])
        else:
            act = sorted(("a", "b", "c"), key=lambda m: -sum(1 for s in b if s["a"] == "precommit" and s["g"].get(m) in ("lock", "locknosend")))
            if not any(s["a"] == "precommit" and "lock" in s["g"].values() for s in b):
                continue
            real = act[:2] if rnd.random() < 0.5 else ["a", "b", "c"]
        out.append(dict(steps=b, real=real, idx=IDX))
        if len(out) >= n:
            break
    return out


def directed(ctx):
    res = []
    for f in sorted(glob.glob(os.path.join(vlib.SPEC, "consensus", "directed", "*.json"))):
        if not f.endswith(".cluster.json"):
            res.append(json.load(open(f)))
    return res


def crash_sweep(ctx, bases=None, ks=None, modes=None):
    """Exhaustive instantiation of CsEnv's Crash(mode, k) action along fixed base paths (spec/consensus/sweep/*.json):
    for every step of the base that delivers messages, every k in ks and every WAL cut mode, a power loss is armed
    before that step (k = number of further externally visible effects the engine still performs); after the restart
    the peers gossip the height's messages again (op redeliver) so that the restarted engine is stimulated to sign
    again, and the base path continues. Position 0 with a proposer arms the loss before the engine starts."""
    res = []
    ks = ks if ks is not None else ctx.pick((0, 2, 3, 4), tuple(range(0, 9)))
    modes = modes or ctx.pick(("synced", "torn"), ("synced", "torn", "all"))
    files = sorted(glob.glob(os.path.join(vlib.SPEC, "consensus", "sweep", "*.json")))
    for f in files:
        base = json.load(open(f))
        if bases and base["name"] not in bases:
            continue
        st = base["steps"]
        pos = [i for i, x in enumerate(st) if x["op"] in ("proposal", "votes")]
        if base.get("sweep_waits"):
            pos = list(range(len(st)))  # the engine acts on its own timeouts in this base
        elif st[0]["op"] == "wait":
            pos = [0] + pos  # a proposer acts from Start
        for p in pos:
            for k in ks:
                for m in modes:
                    steps = st[:p] + [dict(op="crash", mode=m, k=k), st[p], dict(op="wait"), dict(op="redeliver"), dict(op="wait")] + st[p + 1:]
                    res.append(dict(name="%s@%d/k%d/%s" % (base["name"], p, k, m), me=base["me"], byz=base["byz"], steps=steps))
    return res


def cluster_schedules(ctx):
    return [json.load(open(f)) for f in sorted(glob.glob(os.path.join(vlib.SPEC, "consensus", "directed", "*.cluster.json")))]


def run_nodes(ctx, behaviours, kinds, shards, test="TestNode", confirm=True):
    inp = ctx.path("in", "schedules.%s.ndjson" % test)
    with open(inp, "w") as fh:
        for b in behaviours:
            fh.write(json.dumps(b) + "\n")
    recs = ctx.go_replay("csnode", test, inp, shards=shards, timeout=ctx.pick(900, 3000),
                         env={"TMPDIR": ctx.path("gotmp", "x")[:-2]})
    lines, cases = [], {}
    for r in recs:
        d = r.get("detail") or {}
        if isinstance(d, dict) and d.get("trace"):
            cases[r["case"]] = r
            lines += d["trace"]
    if not lines:
        raise vlib.MachineryError("no trace recorded by the node driver")
    ok, tr = ctx.validate_trace("consensus", "Trace_CsContract", "Trace_CsContract.cfg", lines, timeout=900)
    rep = vlib.parse_tagged(tr.printed, "R")
    if not ok or not rep or rep[-1]["consumed"] != len(lines):
        raise vlib.MachineryError("trace validation did not consume the whole trace: %s" % tr.out[-1500:])
    bad = {}
    other = {}
    for b in rep[-1]["bad"]:
        (bad if b["kind"] in kinds else other).setdefault(b["t"], []).append(b)
    for case, r in cases.items():
        # a cluster run holds one trace per real engine: <case>.<node>
        mine = [b for t, bs in bad.items() if t == case or t.startswith(case + ".") for b in bs]
        if mine and r.get("status") != "violation":
            b = sorted(mine, key=lambda x: x["line"])[0]
            r["status"] = "violation"
            r["key"] = "cscontract:" + b["kind"]
            name = (r["detail"].get("behaviour") or {}).get("name")
            r["what"] = ("real engine (validator %s) broke the safety contract: %s at recorded event seq %d%s; votes/"
                         "proposals it signed: %s" % ((r["detail"].get("behaviour") or {}).get("me"), b["kind"], b["seq"],
                                                      " [directed schedule %s]" % name if name else "", r.get("sig")))
        r["detail"] = {"behaviour": r["detail"].get("behaviour")}
    # what the engines were driven into (coverage of the interesting paths, from the recorded signatures)
    feats = dict(nonnil_prevote=0, lock_precommit=0, own_proposal=0, reproposal=0, finalize=0, restart=0, vote_after_restart=0,
                 relock_or_switch=0)
    for r in cases.values():
        sig = r.get("sig") or ""
        toks = [t for t in sig.split(":", 1)[-1].split(",") if t]
        pcs = [t for t in toks if t.startswith("pc") and not t.endswith(":nil")]
        feats["nonnil_prevote"] += any(t.startswith("pv") and not t.endswith(":nil") for t in toks)
        feats["lock_precommit"] += bool(pcs)
        feats["relock_or_switch"] += len(pcs) > 1
        feats["own_proposal"] += any(t.startswith("prop") for t in toks)
        feats["finalize"] += "F" in toks or any("F(" in t for t in toks)
        feats["restart"] += "R" in toks
        if "R" in toks:
            feats["vote_after_restart"] += any(t[:2] in ("pv", "pc") for t in toks[toks.index("R"):])
    for ln in lines:
        if ln.get("ev") == "signprop" and ln.get("pol", -1) >= 0:
            feats["reproposal"] += 1
    for k, v in feats.items():
        ctx.cov["runs_with_" + k] = ctx.cov.get("runs_with_" + k, 0) + int(v)
    # verdicts only from reproducible behaviour: a rejected execution is executed again (real timers make runs
    # timing dependent); it counts only if a re-execution is rejected for the same clause
    if confirm and bad:
        flagged = {}
        for t, bs in bad.items():
            flagged.setdefault(t.split(".")[0], set()).update(b["kind"] for b in bs)
        again = [cases[c]["detail"].get("behaviour") for c in flagged if c in cases]
        order = [c for c in flagged if c in cases]
        confirmed = set()
        for attempt in range(2):
            todo = [(c, b) for c, b in zip(order, again) if c not in confirmed and b]
            if not todo:
                break
            sub = vlib.Ctx.__new__(vlib.Ctx)
            sub.__dict__.update(ctx.__dict__)
            sub.notes, sub.cov = [], {}
            rr = run_nodes(sub, [b for _, b in todo], kinds, min(shards, len(todo)), test=test, confirm=False)
            got = [r for r in rr if not r.get("summary")]
            for (c, _), r in zip(todo, sorted(got, key=lambda r: int(str(r["case"])[1:]))):
                if r.get("status") == "violation" and r.get("key", "").split(":")[-1] in flagged[c]:
                    confirmed.add(c)
        for c in order:
            if c not in confirmed:
                ctx.notes.append("UNREPRODUCED rejection (not counted): %s %s" % (c, sorted(flagged[c])))
                for t in [t for t in bad if t.split(".")[0] == c]:
                    del bad[t]
    for t, bs in other.items():
        ctx.notes.append("sibling clause rejected: %s %s (behaviour: %s)" % (t, [(b["kind"], b["seq"]) for b in bs],
                         json.dumps((cases.get(t.split(".")[0]) or {}).get("detail", {}).get("behaviour"))[:1500]))
    ctx.notes.append("trace validation: %d recorded events of %d real engine executions checked against CsContract; "
                     "%d executions rejected for this property%s"
                     % (len(lines), len(cases), len(bad),
                        ("; %d rejected for clauses owned by the sibling property (reported there)" % len(other)) if other else ""))
    return recs
