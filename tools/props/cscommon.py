"""Shared pipeline of C01 and C02: TLC-generated environment schedules (CsEnv) and directed schedules are
executed against real consensus engines by harness/csnode; the recorded traces are validated by TLC against
the per-validator safety contract (Trace_CsContract over CsContract.tla)."""
import glob, json, os, random
import vlib

C01_KINDS = {"precommit-without-polka", "prevote-against-lock", "precommit-against-lock", "proposal-against-lock",
             "proposal-not-proposer", "finalize-without-quorum", "finalized-twice", "disagreement"}
C02_KINDS = {"equivocation", "proposal-equivocation", "sent-before-durable"}


def env_behaviours(ctx, n, *, max_crash, max_ops, seed_off=0):
    """n schedules from CsEnv random walks (one per walk: the simulator also prints sibling successors)."""
    bs = ctx.behaviours("consensus", "Gen_CsEnv", "Gen_CsEnv.cfg",
                        constants=dict(MaxOps=max_ops, Depth=max_ops, MaxCrash=max_crash),
                        simulate="num=%d" % max(40, n), depth=3 * max_ops, seed=ctx.seed + seed_off, timeout=900)
    rnd = random.Random(ctx.seed + seed_off)
    rnd.shuffle(bs)
    # prefer schedules that differ in their first operations
    seen, out = set(), []
    for b in bs:
        k = json.dumps([b["me"]] + b["steps"][:6], sort_keys=True)
        if k in seen:
            continue
        seen.add(k)
        out.append(b)
        if len(out) >= n:
            break
    return out


def directed(ctx):
    res = []
    for f in sorted(glob.glob(os.path.join(vlib.SPEC, "consensus", "directed", "*.json"))):
        if not f.endswith(".cluster.json"):
            res.append(json.load(open(f)))
    return res


def cluster_schedules(ctx):
    return [json.load(open(f)) for f in sorted(glob.glob(os.path.join(vlib.SPEC, "consensus", "directed", "*.cluster.json")))]


def run_nodes(ctx, behaviours, kinds, shards, test="TestNode"):
    inp = ctx.path("in", "schedules.%s.ndjson" % test)
    with open(inp, "w") as fh:
        for b in behaviours:
            fh.write(json.dumps(b) + "\n")
    recs = ctx.go_replay("csnode", test, inp, shards=shards, timeout=ctx.pick(900, 3000),
                         env={"TMPDIR": ctx.path("gotmp", "x")[:-2]})
    lines, cases = [], {}
    for r in recs:
        d = r.get("detail") or {}
        if isinstance(d, dict) and d.get("trace"):
            cases[r["case"]] = r
            lines += d["trace"]
    if not lines:
        raise vlib.MachineryError("no trace recorded by the node driver")
    ok, tr = ctx.validate_trace("consensus", "Trace_CsContract", "Trace_CsContract.cfg", lines, timeout=900)
    rep = vlib.parse_tagged(tr.printed, "R")
    if not ok or not rep or rep[-1]["consumed"] != len(lines):
        raise vlib.MachineryError("trace validation did not consume the whole trace: %s" % tr.out[-1500:])
    bad = {}
    other = {}
    for b in rep[-1]["bad"]:
        (bad if b["kind"] in kinds else other).setdefault(b["t"], []).append(b)
    for case, r in cases.items():
        # a cluster run holds one trace per real engine: <case>.<node>
        mine = [b for t, bs in bad.items() if t == case or t.startswith(case + ".") for b in bs]
        if mine and r.get("status") != "violation":
            b = sorted(mine, key=lambda x: x["line"])[0]
            r["status"] = "violation"
            r["key"] = "cscontract:" + b["kind"]
            name = (r["detail"].get("behaviour") or {}).get("name")
            r["what"] = ("real engine (validator %s) broke the safety contract: %s at recorded event seq %d%s; votes/"
                         "proposals it signed: %s" % ((r["detail"].get("behaviour") or {}).get("me"), b["kind"], b["seq"],
                                                      " [directed schedule %s]" % name if name else "", r.get("sig")))
        r["detail"] = {"behaviour": r["detail"].get("behaviour")}
    # what the engines were driven into (coverage of the interesting paths, from the recorded signatures)
    feats = dict(nonnil_prevote=0, lock_precommit=0, own_proposal=0, reproposal=0, finalize=0, restart=0, vote_after_restart=0,
                 relock_or_switch=0)
    for r in cases.values():
        sig = r.get("sig") or ""
        toks = [t for t in sig.split(":", 1)[-1].split(",") if t]
        pcs = [t for t in toks if t.startswith("pc") and not t.endswith(":nil")]
        feats["nonnil_prevote"] += any(t.startswith("pv") and not t.endswith(":nil") for t in toks)
        feats["lock_precommit"] += bool(pcs)
        feats["relock_or_switch"] += len(pcs) > 1
        feats["own_proposal"] += any(t.startswith("prop") for t in toks)
        feats["finalize"] += "F" in toks or any("F(" in t for t in toks)
        feats["restart"] += "R" in toks
        if "R" in toks:
            feats["vote_after_restart"] += any(t[:2] in ("pv", "pc") for t in toks[toks.index("R"):])
    for ln in lines:
        if ln.get("ev") == "signprop" and ln.get("pol", -1) >= 0:
            feats["reproposal"] += 1
    ctx.cov.update({"runs_with_" + k: v for k, v in feats.items()})
    ctx.notes.append("trace validation: %d recorded events of %d real engine executions checked against CsContract; "
                     "%d executions rejected for this property%s"
                     % (len(lines), len(cases), len(bad),
                        ("; %d rejected for clauses owned by the sibling property (reported there)" % len(other)) if other else ""))
    return recs
