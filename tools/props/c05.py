"""C05 Commit certificates are accepted only with >2/3 distinct valid signatures (spec/cert/QuorumCert.tla, list form)."""
import json

ALLW = '{"ok", "block", "round", "psid", "type", "ts", "forged", "garbage"}'


def ns(k):
    return "{" + ", ".join(str(i) for i in range(1, k + 1)) + "}"


def gen(ctx, family, n, n2, nperm, **kw):
    c = dict(MaxN=7, Whats=ALLW, MaxExtra=2, MaxOver=0, MinN=0, Ops='{"list"}', Ns=n, MaxAnom=1, Ns2=n2, NsPerm=nperm,
             Family='"%s"' % family, Form='"list"')
    return ctx.behaviours("cert", "Gen_QuorumCert", "Gen_QuorumCert.cfg", constants=c, timeout=900, **kw)


def run(ctx):
    if ctx.replay:
        allb = [json.load(open(ctx.replay))["detail"]["behaviour"]]
        counts = (0, 0, 0, 0)
    else:
        # 1. exhaustive: every list of <= n+1 items over n <= 3/4 validators and 3 kinds of signed content:
        #    the scanning loop of VerifyBlock accepts exactly what the statement of C05 allows
        r = ctx.model_check("cert", "MC_QuorumCert", "MC_QuorumCert_list.cfg",
                            constants=dict(MaxN=ctx.pick(3, 4), MaxExtra=1), coverage=True,
                            timeout=ctx.pick(600, 1800))
        ctx.check_coverage(r, ["AppendItem", "VerifyList", "DecodeGarbageList"], allow_zero=("AddPart", "VerifyPart", "VerifyProof", "NewPart", "Reverify", "DecodeGarbage(k, d)"))
        ctx.exhaustive = True
        # 2. decision table: every subset of valid signatures for n = 1..7 with <= 1 anomaly (8 kinds, 3 positions),
        #    with <= 2 anomalies for n <= 3/5, every ordering of the valid part for n <= 4/5, random constructions
        table = gen(ctx, "table", "{0, " + ns(7)[1:], ns(ctx.pick(3, 5)), ns(ctx.pick(4, 5)))
        walks = gen(ctx, "walk", ns(7), "{}", "{}", simulate="num=%d" % ctx.pick(400, 6000), depth=12, seed=ctx.seed)
        seen, allb = set(), []
        for b in table + walks:
            k = json.dumps(b, sort_keys=True)
            if k not in seen:
                seen.add(k)
                allb.append(b)
        counts = (len(table), ctx.pick(3, 5), ctx.pick(4, 5), len(walks))
        for b in (table[len(table) // 2:][:1] + table[-1:] + walks[:1]):
            ctx.sample(b[0])
    inp = ctx.path("in", "cases.ndjson")
    with open(inp, "w") as fh:
        for b in allb:
            fh.write(json.dumps(b) + "\n")
    # 3. wire bytes -> NewCommitVoteSetFromBytes -> VerifyBlock over a real block and real validator lists
    recs = ctx.go_replay("quorumcert", "TestReplay", inp, shards=1 if ctx.replay else 4, timeout=1500)
    ctx.absorb(recs)
    # 4. thorough: the same certificates as the vote list of a child block through BlockManager.Import
    if not ctx.quick() and not ctx.replay:
        sub = [b for i, b in enumerate(allb) if b[0]["op"] == "verifylist" and 1 <= b[0]["n"] <= 4 and (i % 7 == ctx.seed % 7 or b[0]["res"] == "ok")]
        inp2 = ctx.path("in", "import.ndjson")
        with open(inp2, "w") as fh:
            for b in sub:
                fh.write(json.dumps(b) + "\n")
        recs = ctx.go_replay("quorumcert", "TestImport", inp2, shards=4, timeout=1500)
        ctx.absorb(recs)
    if not ctx.replay:
        # 5. the fast-sync path of the statement ("whether received from consensus, fast sync or import"): block results
        #    with commit vote lists of the other validators are handed to a REAL consensus engine (harness/csnode,
        #    operation "block" of the CsEnv/CsScript schedules and the directed schedule fastsync-too-few-precommits);
        #    the recorded trace is validated by TLC against CsContract: a Finalize needs +2/3 precommits for that block
        from props import cscommon
        sched = [d for d in cscommon.directed(ctx)
                 if any(st.get("op") == "block" for st in d["steps"]) or d.get("replaceval") is not None]
        walks = [b for b in cscommon.env_behaviours(ctx, ctx.pick(40, 200), max_crash=1, max_ops=14, seed_off=500)
                 if any(st.get("op") == "block" for st in b["steps"])]
        frecs = cscommon.run_nodes(ctx, sched + walks[:ctx.pick(12, 80)], {"finalize-without-quorum", "finalized-twice"},
                                   shards=ctx.pick(6, 12))
        ctx.absorb(frecs)
    return ctx.finish(
        rule="a case = one commit vote list: the valid precommit signatures of a subset of n validators (n=0..7, every subset; n=0: genesis block, nil or empty validator list) "
             "with anomalous items inserted (duplicate signer, non-validator, signature over another block/round/part-set/"
             "vote type/timestamp, forged bytes, unrecoverable bytes) at the front, middle or end: %d table cases (<=1 anomaly for every n, "
             "<=2 for n<=%d, every ordering of the valid part for n<=%d) + bytes that are not a vote list + %d random constructions; distinct by (n, item sequence); verdict predicted by TLC"
             % counts,
        assumptions=["signatures are symbolic in the spec (secp256k1/SHA3 trusted): a signature over anything but the exact "
                     "target recovers to a key unrelated to the validators",
                     "validator lists have distinct members",
                     "a rejected valid certificate is reported as divergence, not violation (C05 is about what may be accepted)"])
