#!/usr/bin/env python3
"""MANIFEST.setup_cmd: offline preparation after a fresh restore.
 - parse every TLA+ module with SANY (fails fast on a broken spec)
 - warm the Go build cache for the harness packages (built from /repo's working tree)."""
import os, subprocess, sys, shutil, tempfile, glob
ROOT = os.path.dirname(os.path.dirname(os.path.abspath(__file__)))
sys.path.insert(0, os.path.join(ROOT, "tools"))
import vlib


def main():
    vlib.ensure_harness()
    env = dict(os.environ)
    env.update(vlib.GOENV)
    p = subprocess.run(["go", "test", "-tags", "verif", "-vet=off", "-count=1", "-run", "^$", "./..."],
                       cwd=vlib.HARNESS, env=env)
    if p.returncode != 0:
        print("setup: harness build failed")
        return 1
    bad = 0
    base = os.environ.get("VERIF_SCRATCH") or "/var/tmp"
    for d in sorted(glob.glob(os.path.join(vlib.SPEC, "*"))):
        if not os.path.isdir(d) or os.path.basename(d) == "common":
            continue
        wd = tempfile.mkdtemp(prefix="sany.", dir=base)
        try:
            for f in glob.glob(os.path.join(d, "*.tla")) + glob.glob(os.path.join(vlib.SPEC, "common", "*.tla")):
                shutil.copy(f, wd)
            for f in sorted(glob.glob(os.path.join(wd, "*.tla"))):
                r = subprocess.run(["tla-sany", os.path.basename(f)], cwd=wd, stdout=subprocess.PIPE,
                                   stderr=subprocess.STDOUT, text=True)
                if r.returncode != 0 or "*** Errors" in r.stdout or "Fatal error" in r.stdout:
                    print("setup: SANY failed on", f, r.stdout[-800:])
                    bad += 1
        finally:
            shutil.rmtree(wd, ignore_errors=True)
    print("setup: done, %d spec errors" % bad)
    return 1 if bad else 0


if __name__ == "__main__":
    sys.exit(main())
