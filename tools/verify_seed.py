#!/usr/bin/env python3
"""tools/verify_seed.py <src-dir> <pkg-dir> [property] : confirm a seeded change delivered by a mutation agent.
In a scratch worktree: (1) demo passes without the patch, (2) patch applies, builds, (3) existing tests of the
package pass with the patch (demo excluded), (4) demo fails with the patch. On success the change is stored
as /verif/seeded/<id>/ (patch.diff, demo_test.go, README.md, meta.json)."""
import json, os, re, shutil, subprocess, sys, tempfile
ROOT = os.path.dirname(os.path.dirname(os.path.abspath(__file__)))
src, pkg = sys.argv[1].rstrip("/"), sys.argv[2]
sid = os.path.basename(src)
prop = sys.argv[3] if len(sys.argv) > 3 else sid.split("-")[0]
env = dict(os.environ, GOFLAGS="-mod=mod", GOPROXY="off", GOSUMDB="off", GOTOOLCHAIN="local")
wt = tempfile.mkdtemp(prefix="wt-vs-", dir="/var/tmp"); os.rmdir(wt)
subprocess.run(["git", "-C", "/repo", "worktree", "add", "-q", "--detach", wt, "HEAD"], check=True)
def sh(cmd, **kw):
    return subprocess.run(cmd, cwd=wt, env=env, shell=True, stdout=subprocess.PIPE, stderr=subprocess.STDOUT, text=True, **kw)
ok = False
log = []
try:
    demo = os.path.join(src, "demo_test.go")
    names = re.findall(r"^func (Test\w+)", open(demo).read(), re.M)
    pat = "^(" + "|".join(names) + ")$"
    shutil.copy(demo, os.path.join(wt, pkg, "zz_demo_test.go"))
    r1 = sh("go test -vet=off -count=1 -run '%s' ./%s/" % (pat, pkg))
    log.append(("demo without patch", r1.returncode, r1.stdout[-400:]))
    os.remove(os.path.join(wt, pkg, "zz_demo_test.go"))
    r2 = sh("git apply %s && go build ./..." % os.path.join(src, "patch.diff"))
    log.append(("apply+build", r2.returncode, r2.stdout[-400:]))
    r3 = sh("go test -vet=off -count=1 ./%s/" % pkg)
    fails = [l for l in r3.stdout.splitlines() if l.startswith("--- FAIL")]
    base = json.load(open("/root/.vp/BASELINE.json"))
    always = {t.split("::")[1] for t in base.get("always_fail", [])}
    real_fails = [l for l in fails if l.split()[2] not in always]
    log.append(("existing tests with patch", len(real_fails), "; ".join(real_fails)[:400]))
    shutil.copy(demo, os.path.join(wt, pkg, "zz_demo_test.go"))
    r4 = sh("go test -vet=off -count=1 -run '%s' ./%s/" % (pat, pkg))
    log.append(("demo with patch", r4.returncode, r4.stdout[-600:]))
    ok = r1.returncode == 0 and r2.returncode == 0 and not real_fails and r4.returncode != 0
finally:
    subprocess.run(["git", "-C", "/repo", "worktree", "remove", "--force", wt])
for l in log:
    print(sid, l[0], "->", l[1], "|", l[2].replace("\n", " ")[-300:])
print("SEED %s: %s" % (sid, "CONFIRMED" if ok else "NOT CONFIRMED"))
if ok:
    d = os.path.join(ROOT, "seeded", sid)
    os.makedirs(d, exist_ok=True)
    for f in ("patch.diff", "demo_test.go", "README.md"):
        shutil.copy(os.path.join(src, f), d)
    json.dump(dict(id=sid, property=prop, demo_package=pkg, demo_tests=names,
                   needs=open(os.path.join(src, "README.md")).read().split("## What it needs")[-1][:900] if "## What it needs" in open(os.path.join(src, "README.md")).read() else "see README.md",
                   confirmed=dict(demo_without_patch="pass", build_with_patch="ok", existing_package_tests_with_patch="pass",
                                  demo_with_patch="fail"),
                   ran=["go test -run '%s' ./%s/ (without patch: pass; with patch: fail)" % (pat, pkg), "go build ./...",
                        "go test ./%s/ (with patch, demo excluded)" % pkg]),
              open(os.path.join(d, "meta.json"), "w"), indent=1)
sys.exit(0 if ok else 1)
