#!/usr/bin/env python3
"""tools/seeded.py [--tier quick|thorough] <seeded-id>... : run the registered check of each seeded change
(seeded/<id>/patch.diff + meta.json) against a scratch worktree of /repo with the patch applied (VERIF_REPO),
and report whether it is caught. /repo itself is never modified."""
import json, os, subprocess, sys, tempfile
ROOT = os.path.dirname(os.path.dirname(os.path.abspath(__file__)))
args = sys.argv[1:]
tier = "quick"
if args and args[0] == "--tier":
    tier = args[1]
    args = args[2:]
if not args:
    args = sorted(os.listdir(os.path.join(ROOT, "seeded")))
rc = 0
for sid in args:
    d = os.path.join(ROOT, "seeded", sid)
    meta = json.load(open(os.path.join(d, "meta.json")))
    props = meta["property"] if isinstance(meta["property"], list) else [meta["property"]]
    wt = tempfile.mkdtemp(prefix="wt-seed-", dir="/var/tmp")
    os.rmdir(wt)
    subprocess.run(["git", "-C", "/repo", "worktree", "add", "-q", "--detach", wt, "HEAD"], check=True)
    try:
        p = subprocess.run(["git", "-C", wt, "apply", os.path.join(d, "patch.diff")], stdout=subprocess.PIPE, stderr=subprocess.STDOUT, text=True)
        if p.returncode != 0:
            print("SEEDED %s: patch does not apply: %s" % (sid, p.stdout[-300:]))
            rc = 1
            continue
        for prop in props:
            r = subprocess.run(["python3", os.path.join(ROOT, "tools", "check.py"), prop, tier], cwd=ROOT,
                               env=dict(os.environ, VERIF_REPO=wt), stdout=subprocess.PIPE, stderr=subprocess.STDOUT, text=True)
            viol = [l for l in r.stdout.splitlines() if l.startswith("VIOLATION")]
            what = [l.strip() for l in r.stdout.splitlines() if l.startswith("  what:")]
            res = "CAUGHT" if (r.returncode == 1 and viol) else ("MISSED" if r.returncode == 0 else "ERROR rc=%d" % r.returncode)
            print("SEEDED %s by %s %s: %s %s" % (sid, prop, tier, res, (what[0][:200] if what else r.stdout[-300:] if res != "MISSED" else "")), flush=True)
            if res != "CAUGHT":
                rc = 1
    finally:
        subprocess.run(["git", "-C", "/repo", "worktree", "remove", "--force", wt])
sys.exit(rc)
