#!/usr/bin/env python3
"""tools/runall.py [quick|thorough] [-j N] [ids...] : run the registered checks (MANIFEST order) and print a summary.
Used before committing evidence: every check rewrites evidence/<id>.json from /repo's current tree."""
import json, os, subprocess, sys, time
from concurrent.futures import ThreadPoolExecutor
ROOT = os.path.dirname(os.path.dirname(os.path.abspath(__file__)))
args = sys.argv[1:]
tier = "quick"
j = 2
ids = []
while args:
    a = args.pop(0)
    if a in ("quick", "thorough"):
        tier = a
    elif a == "-j":
        j = int(args.pop(0))
    else:
        ids.append(a)
m = json.load(open(os.path.join(ROOT, "MANIFEST.json")))
checks = [c for c in m["checks"] if not ids or c["property_id"] in ids]
def run(c):
    t = time.time()
    cmd = c["quick_cmd"] if tier == "quick" else c.get("thorough_cmd", c["quick_cmd"])
    p = subprocess.run(cmd, shell=True, cwd=ROOT, stdout=subprocess.PIPE, stderr=subprocess.STDOUT, text=True,
                       env=dict(os.environ, VERIF_WORKERS=os.environ.get("VERIF_WORKERS", "8")))
    kf = [l for l in p.stdout.splitlines() if l.startswith("KNOWN-FINDING")]
    v = [l for l in p.stdout.splitlines() if l.startswith("VIOLATION")]
    open("/var/tmp/runall-%s.log" % c["property_id"], "w").write(p.stdout)
    return c["property_id"], p.returncode, len(v), len(kf), time.time() - t
bad = 0
with ThreadPoolExecutor(j) as ex:
    for pid, rc, v, kf, dt in ex.map(run, checks):
        print("%s rc=%d violations=%d known=%d %.0fs" % (pid, rc, v, kf, dt), flush=True)
        bad += rc != 0
print("DONE: %d checks, %d not ok" % (len(checks), bad))
sys.exit(1 if bad else 0)
