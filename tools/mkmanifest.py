#!/usr/bin/env python3
import json, os, sys
sys.path.insert(0, os.path.dirname(os.path.abspath(__file__)))
import glob
REG = {}
for f in sorted(glob.glob(os.path.join(os.path.dirname(os.path.abspath(__file__)), 'reg', 'C*.json'))):
    REG[os.path.basename(f)[:-5]] = json.load(open(f))
ROOT = os.path.dirname(os.path.dirname(os.path.abspath(__file__)))
props = [json.loads(l) for l in open(os.path.join(ROOT, "properties.jsonl"))]
NA = {}
try:
    NA = json.load(open(os.path.join(ROOT, "tools", "not_applicable.json")))
except FileNotFoundError:
    pass
hooks = json.load(open(os.path.join(ROOT, "tools", "hooks.json")))
ENABLED = set(open(os.path.join(ROOT, 'tools', 'reg', 'ENABLED')).read().split())
REG = {k: v for k, v in REG.items() if k in ENABLED}
checks, engines, na = [], {}, []
for p in props:
    i = p["id"]
    if i in REG:
        r = REG[i]
        checks.append(dict(
            property_id=i,
            quick_cmd="python3 tools/check.py %s quick" % i,
            thorough_cmd="python3 tools/check.py %s thorough" % i,
            evidence_file="evidence/%s.json" % i,
            replay_cmd_template="python3 tools/check.py %s --replay {path}" % i,
            engine=r["engine"],
            level_claimed=dict(category=r.get("category", "model_checking"), text=r["text"],
                               design_ref="DESIGN.md section " + r.get("design_ref", "5")),
            level_note=r["note"], technique=r["technique"]))
        engines.setdefault(r["engine"], []).append(i)
    else:
        na.append(dict(property_id=i, reason=NA.get(i, "check not built yet (work in progress; DESIGN.md section 9 gives the build order)")))
m = dict(version=1, setup_cmd="python3 tools/setup.py", hooks=hooks,
         engines=[dict(name=k, path="spec/" + k + ".tla", serves_properties=v,
                       kind_free_text="TLA+ module checked by TLC, bound to the code by harness/ Go drivers")
                  for k, v in sorted(engines.items())],
         checks=checks,
         notes="Model-based verification with explicit TLA+ specifications (TLC) bound to the code by replaying "
               "TLC-generated behaviours into the real implementation and by validating recorded traces; see DESIGN.md.",
         not_applicable=na)
json.dump(m, open(os.path.join(ROOT, "MANIFEST.json"), "w"), indent=1)
print("MANIFEST: %d checks, %d not_applicable" % (len(checks), len(na)))
